/-
  Sem/Mappers.lean — executable model of typedpy's rename-only serialization mappers (property C07).

  Mirrors, in the code's order:
    * `mappers.py`: `_set_base_mapper_no_op` (`baseFields`), `_apply_mapper` (`applyKey`),
      `add_mapper_to_aggregation` (`add` / `addVal` / `addKey`), `aggregate_serialization_mappers` /
      `aggregate_deserialization_mappers` (`aggregate`), the process-wide cache
      `aggregated_mapper_by_class` (`cachedAggregate`), the MRO collection
      `_get_all_values_of_attribute` incl. attribute inheritance by `getattr` (`collect`);
    * `serialization.py`: `serialize_internal` (`ser`: mapped_key / sub_mapper / DoNotSerialize),
      `construct_fields_map` + `get_processed_input` + `deep_get` (`deser`, `procInput`, `deepGet`);
    * `serialization_wrappers.py`: `Serializer/Deserializer.__validate__` (`wrapperOk`).

  Representation choices (all checked by the `mapper` correspondence suite):
    * a Python mapper dict is an association list read with *last-wins* lookup (`lookupR`), rebuilt
      after every aggregation round with dict-assignment semantics (`norm`); keys are structured: `"x._mapper"` is `MKey.nest "x"`, any other key is `MKey.fld`;
    * documents and instances share one JSON tree type `J`; an instance is an object keyed by field
      names that lists every class field in class order, `null` for an absent optional field
      (`serialize_internal` skips `None` values, so absent and `None` coincide);
    * a JSON object is an association list read with last-wins lookup (a later `result[k] = v`
      overwrites an earlier one);
    * `to_camelcase` / `upper` / `split(".")` are parameters (`StrFns`): concrete ASCII versions for the
      driver (`asciiFns`), opaque in the proofs;
    * scalar fields are `Integer` fields; `Set[...]` is treated like `Array[...]` (the harness compares
      sets order-insensitively).
  Also modelled: `_deserialization_mapper` (`CInfo.des`), `_additional_properties = False` own / inherited and
  `keep_undefined` (`deserK`), several bases (Sem/MapperMro.lean), structures stored as Map values (`Fld.mapped`,
  `serC`), the cache with nested-class entries (`cAggregate`).
  Out of the model (documented limits of C07): FunctionCall / Constant mapper values, non-Integer scalars, compact wrappers.
-/
namespace Typedpy.Mappers

/-! ### strings -/

/-- the three string functions the mapper code uses -/
structure StrFns where
  /-- `_convert_to_camelcase` -/
  camel : String → String
  /-- `str.upper` (this is what `TO_LOWERCASE` applies) -/
  upper : String → String
  /-- `s.split(".")` -/
  split : String → List String

def isLowerA (c : Char) : Bool := decide ('a' ≤ c) && decide (c ≤ 'z')
def isUpperA (c : Char) : Bool := decide ('A' ≤ c) && decide (c ≤ 'Z')
def upA (c : Char) : Char := if isLowerA c then Char.ofNat (c.toNat - 32) else c
def loA (c : Char) : Char := if isUpperA c then Char.ofNat (c.toNat + 32) else c

/-- `str.title()` on ASCII: a cased character is upper-cased when the previous character is
    uncased, lower-cased otherwise -/
def titleChars : Bool → List Char → List Char
  | _, [] => []
  | prevCased, c :: cs =>
    if isLowerA c || isUpperA c then
      (if prevCased then loA c else upA c) :: titleChars true cs
    else c :: titleChars false cs

def splitOnChar (sep : Char) : List Char → List Char → List (List Char)
  | acc, [] => [acc.reverse]
  | acc, c :: cs => if c == sep then acc.reverse :: splitOnChar sep [] cs else splitOnChar sep (c :: acc) cs

/-- `words = key.split("_"); words[0] + "".join(w.title() for w in words[1:])` -/
def camelAscii (s : String) : String :=
  match splitOnChar '_' [] s.toList with
  | [] => s
  | w :: ws => String.ofList (w ++ (ws.map (titleChars false)).flatten)

def upperAscii (s : String) : String := String.ofList (s.toList.map upA)

def splitDot (s : String) : List String := (splitOnChar '.' [] s.toList).map String.ofList

def asciiFns : StrFns := ⟨camelAscii, upperAscii, splitDot⟩

/-! ### mappers -/

inductive MKey where
  | fld (n : String)
  /-- the key `"<n>._mapper"` -/
  | nest (n : String)
deriving DecidableEq, Repr, Inhabited

/-- a value in a mapper dict -/
inductive MV where
  | key (s : String)
  /-- `DoNotSerialize` -/
  | dns
  /-- a nested dict (the value of a `"x._mapper"` entry) -/
  | sub (m : List (MKey × MV))
deriving Repr, Inhabited

abbrev MDict := List (MKey × MV)

/-- one `_serialization_mapper` element -/
inductive Mapper where
  /-- `mappers.TO_LOWERCASE` (applies `upper`) -/
  | lower
  | camel
  | dict (d : MDict)
deriving Repr, Inhabited

/-- dict lookup on an association list, last binding wins -/
def lookupR {α β} [DecidableEq α] (k : α) : List (α × β) → Option β
  | [] => none
  | (k', v) :: r =>
    match lookupR k r with
    | some x => some x
    | none => if k' = k then some v else none

mutual
/-- Python `==` on mapper values (dicts: same size and every entry of the left found equal in the right) -/
def mvEq : MV → MV → Bool
  | .key a, w => (match w with | .key b => a == b | _ => false)
  | .dns, w => (match w with | .dns => true | _ => false)
  | .sub a, w => (match w with | .sub b => a.length == b.length && dSub a b | _ => false)
termination_by structural v => v
def dSub : MDict → MDict → Bool
  | [], _ => true
  | (k, v) :: r, b => (match lookupR k b with | some w => mvEq v w | none => false) && dSub r b
termination_by structural a => a
end

/-- `isinstance(latest, dict) and v == latest.get(k)` — the first branch of the aggregation loop -/
def hit (m : Mapper) (k : MKey) (v : MV) : Bool :=
  match m with
  | .dict d => (match lookupR k d with | some w => mvEq v w | none => false)
  | _ => false

/-- `_apply_mapper` on the current key `s` -/
def applyKey (S : StrFns) (m : Mapper) (s : String) : MV :=
  match m with
  | .camel => .key (S.camel s)
  | .lower => .key (S.upper s)
  | .dict d => (lookupR (.fld s) d).getD (.key s)

def dnsName : String := "<class 'typedpy.serialization.mappers.DoNotSerialize'>"

/-- `f"{mapped_key}"` -/
def nestName : MV → String
  | .key s => s
  | .dns => dnsName
  | .sub _ => "<dict>"

/-- the `"<mapped_key>._mapper"` name of a nested entry after applying `m`: unchanged for
    serialization, re-keyed by the mapped name for deserialization -/
def newNest (S : StrFns) (forSer : Bool) (m : Mapper) (f : String) : String :=
  if forSer then f else nestName (applyKey S m f)

/-- the sub-mapper `latest` contributes to a nested entry: an enum mapper applies as a whole, a dict
    contributes its own `"<mapped>._mapper"` (else `"<field>._mapper"`) entry -/
def subOf (m : Mapper) (mk f : String) : Option Mapper :=
  match m with
  | .dict d =>
    (match lookupR (.nest mk) d with
     | some (.sub x) => some (.dict x)
     | some _ => none
     | none => (match lookupR (.nest f) d with
       | some (.sub x) => some (.dict x)
       | _ => none))
  | e => some e

def addKey (S : StrFns) (forSer : Bool) (m : Mapper) (k : MKey) (v : MV) : MKey :=
  match k, v with
  | .nest f, .sub _ => if hit m k v then k else .nest (newNest S forSer m f)
  | _, _ => k

/-- `d[k] = v` on an association list: an existing key keeps its position and gets the new value,
    a new key is appended -/
def dset (acc : MDict) (k : MKey) (v : MV) : MDict :=
  if acc.any (fun p => decide (p.1 = k)) then acc.map (fun p => if p.1 = k then (k, v) else p)
  else acc ++ [(k, v)]

/-- the Python dict obtained by assigning the entries in order (`result_mapper[k] = v` in a loop):
    a key assigned twice stays at its first position with its last value — the position matters
    because the next aggregation round iterates in this order -/
def norm (l : MDict) : MDict := l.foldl (fun acc p => dset acc p.1 p.2) []

/-- nested entry: `add_mapper_to_aggregation(sub_mapper, v)` if there is a sub-mapper else `v` -/
def subResult (sm : Option Mapper) (p : MDict) (rec : Mapper → MDict) : MV :=
  match sm with
  | some m' => .sub (norm (rec m'))
  | none => .sub p

mutual
/-- `add_mapper_to_aggregation(latest = m, previous)`: the entries assigned to `result_mapper`, in
    iteration order (`norm` turns them into the resulting dict) -/
def add (S : StrFns) (forSer : Bool) : Mapper → MDict → MDict
  | _, [] => []
  | m, (k, v) :: r => (addKey S forSer m k v, addVal S forSer m k v) :: add S forSer m r
termination_by structural _ d => d
def addVal (S : StrFns) (forSer : Bool) : Mapper → MKey → MV → MV
  | m, k, .key s => if hit m k (.key s) then .key s else applyKey S m s
  | _, _, .dns => .dns
  | m, k, .sub p =>
    if hit m k (.sub p) then .sub p
    else match k with
      | .nest f => subResult (subOf m (newNest S forSer m f) f) p (fun m' => add S forSer m' p)
      | .fld _ => .sub p
termination_by structural _ _ v => v
end

/-- fold of `add` over a mapper list, first element applied first; each round builds a fresh dict -/
def foldAdd (S : StrFns) (forSer : Bool) (ms : List Mapper) (acc : MDict) : MDict :=
  ms.foldl (fun a m => norm (add S forSer m a)) acc

/-! ### classes -/

inductive Shape where
  /-- a `ClassReference` field -/
  | one
  /-- `Array[Cls]` / `Set[Cls]` -/
  | many
deriving DecidableEq, Repr, Inhabited

def isEnumMapper : Mapper → Bool
  | .dict _ => false
  | _ => true

/-- the class-level attributes the (de)serializer reads besides the fields -/
structure CInfo where
  /-- `get_aggregated_serialization_mapper()`: the MRO-collected `_serialization_mapper` list -/
  ser : List Mapper
  /-- `get_aggregated_deserialization_mapper()` when some class of the MRO defines
      `_deserialization_mapper` (otherwise it is the serialization list) -/
  des : Option (List Mapper) := none
  /-- the class's own `__dict__` sets `_additional_properties = False` -/
  closedOwn : Bool := false
  /-- `getattr(cls, "_additional_properties")` is `False` (own or inherited) -/
  closedAny : Bool := false
  /-- the identity of the class object (the process-wide mapper cache is keyed by it) -/
  cid : String := ""
deriving Repr, Inhabited

def CInfo.desL (ci : CInfo) : List Mapper := ci.des.getD ci.ser

/-- the mapper list of the class for one direction -/
def CInfo.lst (ci : CInfo) (forSer : Bool) : List Mapper := if forSer then ci.ser else ci.desL

/-- a field of a class; a nested class is inlined with its class-level attributes -/
inductive Fld where
  | scalar (name : String) (opt : Bool)
  | nested (name : String) (opt : Bool) (shape : Shape) (ci : CInfo) (fields : List Fld)
  /-- a `Map[String, Cls]` field: every value is serialized / deserialized as a call of its own
      (own mappers of `Cls` only, nothing of the containing class passes through) -/
  | mapped (name : String) (opt : Bool) (ci : CInfo) (fields : List Fld)
deriving Repr, Inhabited

structure Cls where
  own : List Mapper
  fields : List Fld
  des : Option (List Mapper) := none
  closedOwn : Bool := false
  closedAny : Bool := false
  cid : String := ""
deriving Repr, Inhabited

def Cls.desL (c : Cls) : List Mapper := c.des.getD c.own

def Fld.name : Fld → String
  | .scalar n _ => n
  | .nested n _ _ _ _ => n
  | .mapped n _ _ _ => n

def Fld.opt : Fld → Bool
  | .scalar _ o => o
  | .nested _ o _ _ _ => o
  | .mapped _ o _ _ => o

mutual
/-- `_set_base_mapper_no_op`: the identity mapper, with the nested class's own aggregate under
    `"<field>._mapper"` (inserted before the field's own entry, as in the code) -/
def baseFields (S : StrFns) (forSer : Bool) : List Fld → MDict
  | [] => []
  | f :: rest => baseFld S forSer f ++ baseFields S forSer rest
termination_by structural fs => fs
def baseFld (S : StrFns) (forSer : Bool) : Fld → MDict
  | .scalar n _ => [(.fld n, .key n)]
  | .nested n _ _ ci fs =>
    [(.nest n, .sub (foldAdd S forSer (ci.lst forSer) (baseFields S forSer fs))), (.fld n, .key n)]
  | .mapped n _ _ _ => [(.fld n, .key n)]
termination_by structural f => f
end

/-- the mapper list actually applied: an explicit non-empty override replaces the class's own list;
    `camel_case_convert` appends `TO_CAMELCASE` -/
def effList (own : List Mapper) (ov : Option MDict) (camel : Bool) : List Mapper :=
  (match ov with
   | some (e :: d) => [.dict (e :: d)]
   | _ => own) ++ (if camel then [.camel] else [])

/-- `aggregate_serialization_mappers` (`forSer`) / `aggregate_deserialization_mappers` -/
def aggregate (S : StrFns) (forSer : Bool) (own : List Mapper) (fields : List Fld)
    (ov : Option MDict) (camel : Bool) : MDict :=
  foldAdd S forSer (effList own ov camel) (baseFields S forSer fields)

/-! ### the process-wide cache `aggregated_mapper_by_class` -/

/-- cache key: (class, `json.dumps(override)` or `""`, `camel_case_convert`) -/
abbrev CacheKey := String × String × Bool
abbrev Cache := List (CacheKey × MDict)

/-- `aggregate_serialization_mappers` as called: a cached result for the key is returned as is,
    otherwise the aggregate is computed and stored -/
def cachedAggregate (S : StrFns) (cache : Cache) (cid ovKey : String) (own : List Mapper)
    (fields : List Fld) (ov : Option MDict) (camel : Bool) : MDict × Cache :=
  match lookupR (cid, ovKey, camel) cache with
  | some m => (m, cache)
  | none =>
    (aggregate S true own fields ov camel,
     cache ++ [((cid, ovKey, camel), aggregate S true own fields ov camel)])

mutual
/-- `_set_base_mapper_no_op(cls, for_serialization=True)` as executed: every nested class's own
    aggregate is asked from `aggregate_serialization_mappers(nested_cls)` — answered from the cache if
    filed there, else computed (recursively, filling the cache) and filed under `(nested_cls, "", False)` -/
def cBaseFields (S : StrFns) : Cache → List Fld → MDict × Cache
  | cache, [] => ([], cache)
  | cache, f :: rest =>
    let r1 := cBaseFld S cache f
    let r2 := cBaseFields S r1.2 rest
    (r1.1 ++ r2.1, r2.2)
termination_by structural _ fs => fs
def cBaseFld (S : StrFns) : Cache → Fld → MDict × Cache
  | cache, .scalar n _ => ([(.fld n, .key n)], cache)
  | cache, .nested n _ _ ci fs =>
    match lookupR (ci.cid, "", false) cache with
    | some m => ([(.nest n, .sub m), (.fld n, .key n)], cache)
    | none =>
      let b := cBaseFields S cache fs
      let m := foldAdd S true ci.ser b.1
      ([(.nest n, .sub m), (.fld n, .key n)], b.2 ++ [((ci.cid, "", false), m)])
  | cache, .mapped n _ _ _ => ([(.fld n, .key n)], cache)
termination_by structural _ f => f
end

/-- `aggregate_serialization_mappers(cls, override, camel_case_convert)` as executed, the entries filed
    for nested classes while building the base mapper included -/
def cAggregate (S : StrFns) (cache : Cache) (me ovKey : String) (own : List Mapper)
    (fields : List Fld) (ov : Option MDict) (camel : Bool) : MDict × Cache :=
  match lookupR (me, ovKey, camel) cache with
  | some m => (m, cache)
  | none =>
    let b := cBaseFields S cache fields
    let m := foldAdd S true (effList own ov camel) b.1
    (m, b.2 ++ [((me, ovKey, camel), m)])

/-- one class's `_serialization_mapper` attribute -/
inductive ClassAttr where
  | single (m : Mapper)
  | many (ms : List Mapper)
deriving Repr, Inhabited

def ClassAttr.toList : ClassAttr → List Mapper
  | .single m => [m]
  | .many ms => ms

/-- `_get_all_values_of_attribute` along a single-inheritance chain (base first): `getattr` sees the
    inherited attribute, so a class that does not define the attribute contributes its parent's
    value again -/
def collect : Option ClassAttr → List (Option ClassAttr) → List Mapper
  | _, [] => []
  | inh, a :: rest =>
    let eff := match a with | some x => some x | none => inh
    (match eff with | some x => x.toList | none => []) ++ collect eff rest

/-! ### documents and instances -/

inductive J where
  | null
  | int (i : Int)
  | str (s : String)
  | arr (xs : List J)
  | obj (kvs : List (String × J))
deriving Repr, Inhabited

def J.isNull : J → Bool
  | .null => true
  | _ => false

/-- Python truthiness of a JSON value -/
def J.truthy : J → Bool
  | .null => false
  | .int i => i != 0
  | .str s => s != ""
  | .arr xs => !xs.isEmpty
  | .obj kvs => !kvs.isEmpty

/-- the key a populated field is written under: `some k`, or `none` when the field is not serialized
    (`DoNotSerialize`; a dict value raises in the code and is outside the model) -/
def serKey (S : StrFns) (camel : Bool) (m : MDict) (f : String) : Option String :=
  match lookupR (.fld f) m with
  | some (.key s) => some s
  | some .dns => none
  | some (.sub _) => none
  | none => some (if camel then S.camel f else f)

/-- `mapper.get(f"{key}._mapper", {})` -/
def subSer (m : MDict) (f : String) : MDict :=
  match lookupR (.nest f) m with
  | some (.sub d) => d
  | _ => []

mutual
/-- `serialize_internal` with the resolved mapper `m` (nested structures, directly or in a list, are
    serialized with the `"<field>._mapper"` entry) -/
def ser (S : StrFns) (camel : Bool) : MDict → J → J
  | m, .obj kvs => .obj (serFields S camel m kvs)
  | m, .arr xs => .arr (serList S camel m xs)
  | _, .null => .null
  | _, .int i => .int i
  | _, .str s => .str s
termination_by structural _ x => x
def serFields (S : StrFns) (camel : Bool) : MDict → List (String × J) → List (String × J)
  | _, [] => []
  | m, (f, v) :: rest =>
    if v.isNull then serFields S camel m rest
    else match serKey S camel m f with
      | none => serFields S camel m rest
      | some k => (k, ser S camel (subSer m f) v) :: serFields S camel m rest
termination_by structural _ kvs => kvs
def serList (S : StrFns) (camel : Bool) : MDict → List J → List J
  | _, [] => []
  | m, x :: xs => ser S camel m x :: serList S camel m xs
termination_by structural _ xs => xs
end

def findFld (fs : List Fld) (n : String) : Option Fld := fs.find? (fun f => f.name == n)

mutual
/-- the serializer following the class: as `ser`, except that the values of a `Map[String, Cls]` field are
    serialized with the fresh aggregate of `Cls` (own mappers, the call's `camel_case_convert`) -/
def serC (S : StrFns) (camel : Bool) : MDict → List Fld → J → J
  | m, fs, .obj kvs => .obj (serCFields S camel m fs kvs)
  | m, fs, .arr xs => .arr (serCList S camel m fs xs)
  | _, _, .null => .null
  | _, _, .int i => .int i
  | _, _, .str s => .str s
termination_by structural _ _ x => x
def serCFields (S : StrFns) (camel : Bool) : MDict → List Fld → List (String × J) → List (String × J)
  | _, _, [] => []
  | m, fs, (f, v) :: rest =>
    if v.isNull then serCFields S camel m fs rest
    else match serKey S camel m f with
      | none => serCFields S camel m fs rest
      | some k =>
        (k, match findFld fs f with
            | some (.nested _ _ _ _ fs') => serC S camel (subSer m f) fs' v
            | some (.mapped _ _ ci fs') =>
              serCMapVal S camel (foldAdd S true (effList ci.ser none camel) (baseFields S true fs')) fs' v
            | _ => v) :: serCFields S camel m fs rest
termination_by structural _ _ kvs => kvs
def serCList (S : StrFns) (camel : Bool) : MDict → List Fld → List J → List J
  | _, _, [] => []
  | m, fs, x :: xs => serC S camel m fs x :: serCList S camel m fs xs
termination_by structural _ _ xs => xs
def serCMapVal (S : StrFns) (camel : Bool) : MDict → List Fld → J → J
  | m, fs, .obj kv => .obj (serCMap S camel m fs kv)
  | _, _, .arr xs => .arr xs
  | _, _, .null => .null
  | _, _, .int i => .int i
  | _, _, .str s => .str s
termination_by structural _ _ x => x
def serCMap (S : StrFns) (camel : Bool) : MDict → List Fld → List (String × J) → List (String × J)
  | _, _, [] => []
  | m, fs, (k, v) :: rest => (k, serC S camel m fs v) :: serCMap S camel m fs rest
termination_by structural _ _ kvs => kvs
end

/-- exception classes of the deserializer -/
inductive DErr where
  | typeErr
  | valueErr
deriving Repr, DecidableEq, Inhabited

abbrev DR (α : Type) := Except DErr α

def bindD {α β} (r : DR α) (k : α → DR β) : DR β :=
  match r with
  | .error e => .error e
  | .ok y => k y

@[simp] theorem bindD_ok {α β} (y : α) (k : α → DR β) : bindD (.ok y) k = k y := rfl
@[simp] theorem bindD_error {α β} (e : DErr) (k : α → DR β) : bindD (.error e : DR α) k = .error e := rfl

def mapD {α β} (g : α → DR β) : List α → DR (List β)
  | [] => .ok []
  | x :: xs => bindD (g x) fun y => bindD (mapD g xs) fun ys => .ok (y :: ys)

mutual
/-- `_get_next_level` of `deep_get` -/
def nextLevel (key : String) : J → J
  | .obj kvs => (lookupR key kvs).getD .null
  | .arr xs => .arr (nextLevels key xs)
  | _ => .null
termination_by structural x => x
def nextLevels (key : String) : List J → List J
  | [] => []
  | x :: xs => if x.isNull then nextLevels key xs else nextLevel key x :: nextLevels key xs
termination_by structural xs => xs
end

/-- `deep_get(the_dict, path)`: `reduce` over the dotted path, a falsy intermediate gives `None` -/
def deepGet (doc : J) (path : List String) : J :=
  path.foldl (fun d k => if d.truthy then nextLevel k d else .null) doc

/-- `name_is_taken` of `get_processed_input` (since /repo f476845): the field's own name is the
    string key of *another* entry of the resolved mapper -/
def taken (M : MDict) (f : String) : Bool :=
  M.any fun p => decide (p.1 ≠ .fld f) && (match p.2 with | .key s => s == f | _ => false)

/-- `get_processed_input` for field `f` under the resolved mapper `M`: the value at the mapped key
    (a dotted path), falling back to the unmapped field name unless `use_strict_mapping` or that name
    is another field's key; a `DoNotSerialize` field (since /repo e74486a) is read under its own name
    unless that name is another field's key -/
def procInput (S : StrFns) (M : MDict) (strict : Bool) (kvs : List (String × J)) (f : String) : DR J :=
  match lookupR (.fld f) M with
  | none => .ok ((lookupR f kvs).getD .null)
  | some (.key s) =>
    let val := deepGet (.obj kvs) (S.split s)
    .ok (if !val.isNull || strict || taken M f then val else (lookupR f kvs).getD .null)
  | some .dns => .ok (if taken M f then .null else (lookupR f kvs).getD .null)
  | some (.sub _) => .error .typeErr

/-- the override handed to a nested class:
    `mapper.get(f"{mapped_key}._mapper", mapper.get(f"{key}._mapper"))` -/
def subDeser (M : MDict) (f : String) : Option MDict :=
  let mk := match lookupR (.fld f) M with | some v => nestName v | none => f
  match lookupR (.nest mk) M with
  | some (.sub d) => some d
  | some _ => none
  | none => (match lookupR (.nest f) M with
    | some (.sub d) => some d
    | _ => none)

/-- scalar (`Integer`) field: absent → not passed to the constructor (TypeError if required) -/
def dScalar (n : String) (opt : Bool) (inp : DR J) (rest : DR (List (String × J))) :
    DR (List (String × J)) :=
  bindD inp fun v =>
    match v with
    | .null => if opt then bindD rest fun r => .ok ((n, .null) :: r) else .error .typeErr
    | .int i => bindD rest fun r => .ok ((n, .int i) :: r)
    | _ => .error .typeErr

/-- nested field: a dict through the nested class, a list element-wise -/
def dNested (n : String) (opt : Bool) (shape : Shape) (inp : DR J) (g : J → DR J)
    (rest : DR (List (String × J))) : DR (List (String × J)) :=
  bindD inp fun v =>
    match v with
    | .null => if opt then bindD rest fun r => .ok ((n, .null) :: r) else .error .typeErr
    | _ =>
      match shape with
      | .one => bindD (g v) fun y => bindD rest fun r => .ok ((n, y) :: r)
      | .many =>
        match v with
        | .arr xs => bindD (mapD g xs) fun ys => bindD rest fun r => .ok ((n, .arr ys) :: r)
        | _ => .error .valueErr

def mapKV (g : J → DR J) : List (String × J) → DR (List (String × J))
  | [] => .ok []
  | (k, v) :: r => bindD (g v) fun y => bindD (mapKV g r) fun ys => .ok ((k, y) :: ys)

/-- `deserialize_map` with structure values: a dict, every value through the value class -/
def dMapped (n : String) (opt : Bool) (inp : DR J) (g : J → DR J)
    (rest : DR (List (String × J))) : DR (List (String × J)) :=
  bindD inp fun v =>
    match v with
    | .null => if opt then bindD rest fun r => .ok ((n, .null) :: r) else .error .typeErr
    | .obj kvs => bindD (mapKV g kvs) fun ys => bindD rest fun r => .ok ((n, .obj ys) :: r)
    | _ => .error .typeErr

/-- the object case of `deserialize_structure_internal` (no undefined keys kept) -/
def dObj (doc : J) (k : List (String × J) → DR (List (String × J))) : DR J :=
  match doc with
  | .obj kvs => bindD (k kvs) fun r => .ok (.obj r)
  | _ => .error .typeErr

/-- `keep_undefined` as adjusted inside `deserialize_structure_internal`: switched off by an enum
    mapper among the class's own (collected) mappers and by `camel_case_convert` (for a class that
    does not set `_additional_properties = True` explicitly) -/
def kuNext (ku camel : Bool) (desL : List Mapper) : Bool := ku && !(desL.any isEnumMapper) && !camel

/-- the undefined keys handed to the constructor: keys of the document that are not field names, when
    `keep_undefined` is on and the class does not forbid additional properties (since /repo 0225533
    `getattr`: own or inherited; before, the class's own `__dict__` only) -/
def extrasOf (ku closedOwn : Bool) (names : List String) (kvs : List (String × J)) : List (String × J) :=
  if ku && !closedOwn then kvs.filter (fun p => !names.contains p.1) else []

/-- `cls(**kwargs)`: an undefined key is refused by a class that (by inheritance) forbids additional
    properties, and kept as an extra attribute otherwise -/
def construct (closedAny : Bool) (extras flds : List (String × J)) : DR J :=
  if extras.isEmpty then .ok (.obj flds)
  else if closedAny then .error .valueErr else .ok (.obj (flds ++ extras))

/-- the object case of `deserialize_structure_internal` with undefined keys -/
def dObjK (doc : J) (closedAny : Bool) (ex : List (String × J) → List (String × J))
    (k : List (String × J) → DR (List (String × J))) : DR J :=
  match doc with
  | .obj kvs => bindD (k kvs) fun r => construct closedAny (ex kvs) r
  | _ => .error .typeErr

mutual
/-- `construct_fields_map` followed by `cls(**kwargs)` over the remaining fields; `ku` is the adjusted
    `keep_undefined` of this level, handed down to nested classes -/
def deserFields (S : StrFns) (camel ku : Bool) (M : MDict) (strict : Bool) (kvs : List (String × J)) :
    List Fld → DR (List (String × J))
  | [] => .ok []
  | f :: rest => deserFld S camel ku M strict kvs f (deserFields S camel ku M strict kvs rest)
termination_by structural fs => fs
def deserFld (S : StrFns) (camel ku : Bool) (M : MDict) (strict : Bool) (kvs : List (String × J)) :
    Fld → DR (List (String × J)) → DR (List (String × J))
  | .scalar n opt, rest => dScalar n opt (procInput S M strict kvs n) rest
  | .nested n opt shape ci fs, rest =>
    dNested n opt shape (procInput S M strict kvs n)
      (fun y => dObjK y ci.closedAny
        (extrasOf (kuNext ku camel ci.desL) ci.closedAny (fs.map Fld.name)) fun kvs' =>
        deserFields S camel (kuNext ku camel ci.desL)
          (aggregate S false ci.desL fs (subDeser M n) camel) false kvs' fs) rest
  | .mapped n opt ci fs, rest =>
    -- a value of the map: `deserialize_structure_internal(Cls, value, mapper=None, keep_undefined=<the
    -- caller's, since /repo 73883e4>, camel_case_convert)`
    dMapped n opt (procInput S M strict kvs n)
      (fun y => dObjK y ci.closedAny
        (extrasOf (kuNext ku camel ci.desL) ci.closedAny (fs.map Fld.name)) fun kvs' =>
        deserFields S camel (kuNext ku camel ci.desL)
          (aggregate S false ci.desL fs none camel) false kvs' fs) rest
termination_by structural f => f
end

/-- `deserialize_structure_internal(cls, doc, mapper=ov, camel_case_convert, use_strict_mapping,
    keep_undefined=ku)` -/
def deserK (S : StrFns) (camel ku : Bool) (c : Cls) (ov : Option MDict) (strict : Bool) (doc : J) : DR J :=
  dObjK doc c.closedAny (extrasOf (kuNext ku camel c.desL) c.closedAny (c.fields.map Fld.name)) fun kvs =>
    deserFields S camel (kuNext ku camel c.desL) (aggregate S false c.desL c.fields ov camel) strict kvs c.fields

/-- the same with `keep_undefined=False` (what `Deserializer(cls).deserialize` passes by default — for
    every class since /repo 005d815; before, `True` for a class that forbids additional properties) -/
def deser (S : StrFns) (camel : Bool) (c : Cls) (ov : Option MDict) (strict : Bool) (doc : J) : DR J :=
  deserK S camel false c ov strict doc

/-- top-level serialization: `serialize(x, mapper=ov, camel_case_convert=camel)` -/
def serialize (S : StrFns) (camel : Bool) (c : Cls) (ov : Option MDict) (x : J) : J :=
  ser S camel (aggregate S true c.own c.fields ov camel) x

/-- top-level serialization following the class (Map-valued fields included) -/
def serializeC (S : StrFns) (camel : Bool) (c : Cls) (ov : Option MDict) (x : J) : J :=
  serC S camel (aggregate S true c.own c.fields ov camel) c.fields x

/-- `Serializer/Deserializer.__validate__`: every key of an explicit mapper must start (up to the
    first dot) with a field name -/
def wrapperOk (S : StrFns) (fieldNames : List String) (mapperKeys : List String) : Bool :=
  mapperKeys.all fun k => match S.split k with
    | [] => false
    | h :: _ => fieldNames.contains h

end Typedpy.Mappers
