/-
  Sem/Elaborate.lean — executable model of how typedpy turns the *spelling* of a field declaration
  into a Field (C13).  Two phases, as in Python:

  1. `ev` — Python evaluates the annotation / right-hand side expression to an object (`Obj`): a
     builtin class, a `typing` alias, a PEP-585 alias, a `typing.Union`, a PEP-604 `types.UnionType`,
     a Field class or a Field instance.  typedpy code already runs here: `FieldMeta.__getitem__`
     (`getItem`), `_CollectionMeta.__getitem__` / `_JSONSchemaDraft4ReuseMeta.__getitem__` (`sub`,
     `mapSub`, `anyOf`), `_map_to_field` (`mapToField`, the `items=` keyword), `_or_fields` (`orFields`,
     the `|` operator on fields); `typing` flattens and de-duplicates unions (`mkUnion`).
  2. `annField` / `assignField` — `StructMeta.__new__`: `add_annotations_to_class_dict`
     (`is_simple_field_annotation`, `get_typing_lib_info` = `gtli`, `_get_mapped_args` = `gtliArgs`,
     `_mapped_type_of_mapped_args` = `mkFromArgs`, `_handle_typing_optional`,
     `_type_with_default_value_if_exists`), `_evaluate_if_future_annotations`,
     `_instantiate_fields_if_needed`, the non-typedpy-assignment guard, and
     `_apply_default_and_update_required_not_to_include_fields_with_defaults`.

  `convert_basic_types`, `type_is_generic`, `__origin__` and `isinstance(_, type)` are read from the
  regenerated table (`TypeMap`), so the model is parametric in it.
-/
import TypedpyModel.Sem.ElabTypes
import TypedpyModel.Sem.Validate
namespace Typedpy.Elab
open Typedpy

/-! ### syntax of spellings -/

/-- scalar kinds that have a builtin / typing spelling -/
inductive Scalar where | int | str | float | bool | any
deriving Repr, DecidableEq, Inhabited

/-- one-argument collections; `tuple` only has parametrised forms (`Tuple` requires `items`): its bare
    forms raise TypeError -/
inductive Coll where | list | set | frozenset | deque | tuple
deriving Repr, DecidableEq, Inhabited

def Scalar.atom : Scalar → Atom
  | .int => .int | .str => .str | .float => .float | .bool => .bool | .any => .tAny
def Scalar.head : Scalar → Head
  | .int => .integer | .str => .string | .float => .float | .bool => .boolean | .any => .anything
def Coll.atom : Coll → Atom
  | .list => .list | .set => .set | .frozenset => .frozenset | .deque => .deque | .tuple => .tuple
def Coll.tAtom : Coll → Atom
  | .list => .tList | .set => .tSet | .frozenset => .tFrozenSet | .deque => .tDeque | .tuple => .tTuple
def Coll.head : Coll → Head
  | .list => .array | .set => .set | .frozenset => .immSet | .deque => .deque | .tuple => .tuple

/-- a type expression as written in an annotation or on the right-hand side of an assignment -/
inductive Sp where
  /-- `int` `str` `float` `bool` `Any` -/
  | builtin (k : Scalar)
  /-- `Integer` `String` `Float` `Boolean` `Anything` -/
  | fcls (k : Scalar)
  /-- `Integer()` … -/
  | finst (k : Scalar)
  /-- any other Field instance written out in full, e.g. `Integer(minimum=3)`; `len` = length of its
      source text -/
  | lit (d : FieldDecl) (len : Nat)
  /-- `None` -/
  | noneLit
  /-- `list` / `typing.List` / `Array` / `Array()` -/
  | bareBuiltin (c : Coll) | bareTyping (c : Coll) | bareCls (c : Coll) | bareInst (c : Coll)
  /-- `list[X]` / `typing.List[X]` / `Array[X]` / `Array(items=X)` -/
  | pep585 (c : Coll) (x : Sp) | typingG (c : Coll) (x : Sp) | sub (c : Coll) (x : Sp) | call (c : Coll) (x : Sp)
  /-- `dict` / `Dict` / `Map` / `Map()` -/
  | dictBare | tDictBare | mapBare | mapInst
  /-- `dict[K, V]` / `Dict[K, V]` / `Map[K, V]` / `Map(items=[K, V])` -/
  | dict585 (k v : Sp) | dictTyping (k v : Sp) | mapSub (k v : Sp) | mapCall (k v : Sp)
  /-- `Optional[X]` -/
  | optional (x : Sp)
  /-- `Union[X, Y]` / `AnyOf[X, Y]` / `X | Y` -/
  | union (x y : Sp) | anyOf (x y : Sp) | pipe (x y : Sp)
  /-- the name of a Structure class (`Owner`); `d` = the declaration of that class, `len` = length of the name -/
  | scls (d : FieldDecl) (len : Nat)
  /-- two-element tuples: `tuple[X, Y]` / `typing.Tuple[X, Y]` / `Tuple[X, Y]` / `Tuple(items=[X, Y])` -/
  | tup585 (x y : Sp) | tupTyping (x y : Sp) | tupSub (x y : Sp) | tupCall (x y : Sp)
  /-- `X | 529` / `X | "abc"`: a Field on the left, a literal value on the right (documented: "a: Integer | Foo | str | 529");
      `len` = length of the literal's source text -/
  | pipeLit (x : Sp) (v : PyVal) (len : Nat)
deriving Repr, Inhabited

/-! ### Python objects that such expressions evaluate to -/

inductive Obj where
  /-- a builtin class, `typing.Any` or a bare `typing` alias -/
  | ty (a : Atom)
  /-- `list[int]` (`viaTyping = false`, `types.GenericAlias`) or `typing.List[int]` -/
  | alias (viaTyping : Bool) (origin : Atom) (args : List Obj)
  /-- `typing.Union[...]`, normalised by `typing` (flattened, de-duplicated, ≥ 2 members) -/
  | tUnion (ms : List Obj)
  /-- PEP 604 `X | Y` on plain types: `types.UnionType` -/
  | uType (ms : List Obj)
  | fcls (h : Head)
  | finst (d : FieldDecl)
  /-- `None` -/
  | noneV
  /-- `type(None)` (what `typing` stores for `None` arguments) -/
  | noneTy
  /-- a Structure class (`d` = its declaration; classes are compared by name) -/
  | scls (d : FieldDecl)
deriving Repr, Inhabited

/-- the class name of a Structure class declaration -/
def sclsName : FieldDecl → String
  | .struct c _ _ => c.name
  | _ => ""

mutual
/-- Python `==` / hash identity of such objects as far as `typing`'s de-duplication needs it:
    Field instances are only equal to themselves -/
def objEq : Obj → Obj → Bool
  | .ty a, w => match w with | .ty b => a == b | _ => false
  | .alias t o xs, w => match w with | .alias t' o' ys => t == t' && o == o' && objEqList xs ys | _ => false
  | .tUnion xs, w => match w with | .tUnion ys => objEqList xs ys | _ => false
  | .uType xs, w => match w with | .uType ys => objEqList xs ys | _ => false
  | .fcls h, w => match w with | .fcls h' => h == h' | _ => false
  | .finst _, _ => false
  | .noneV, w => match w with | .noneV => true | _ => false
  | .noneTy, w => match w with | .noneTy => true | _ => false
  | .scls d, w => match w with | .scls d' => sclsName d == sclsName d' | _ => false
termination_by structural x _ => x
def objEqList : List Obj → List Obj → Bool
  | [], w => w.isEmpty
  | x :: xs, w => match w with | y :: ys => objEq x y && objEqList xs ys | [] => false
termination_by structural x _ => x
end

/-- `dict.fromkeys(params)`: keep the first of each group of equal objects -/
def dedupObj : List Obj → List Obj
  | [] => []
  | x :: xs => x :: (dedupObj xs).filter (fun y => !objEq x y)

/-- `typing` stores `None` arguments as `NoneType` -/
def typingArg : Obj → Obj
  | .noneV => .noneTy
  | o => o

/-- members a `typing.Union[...]` argument contributes (unions are flattened) -/
def unionMembers : Obj → List Obj
  | .tUnion ms => ms
  | .uType ms => ms
  | o => [typingArg o]

/-- `typing.Union[ms]` -/
def mkUnion (ms : List Obj) : Obj :=
  match dedupObj ms with
  | [o] => o
  | d => .tUnion d

/-- `X | Y | …` on plain types -/
def mkUType (ms : List Obj) : Obj :=
  match dedupObj ms with
  | [o] => o
  | d => .uType d

/-! ### Field construction -/

/-- `cls()` -/
def defaultDecl : Head → R FieldDecl
  | .integer => .ok (.integer {})
  | .string => .ok (.string none none none)
  | .float => .ok (.float {})
  | .boolean => .ok .boolean
  | .anything => .ok .anything
  | .array => .ok (.seqAny .list {})
  | .deque => .ok (.seqAny .deque {})
  | .set => .ok (.setAny false {})
  | .immSet => .ok (.setAny true {})
  | .map => .ok (.mapAny {})
  /- `Tuple()` / `AnyOf()`: missing required argument -/
  | .tuple => .error .typeErr
  | .anyOf => .error .typeErr
  | .dateField => .error (.other "unmodelled-date-field")
  | .dateTime => .error (.other "unmodelled-date-field")
  | .timeField => .error (.other "unmodelled-date-field")
  | .other _ => .error (.other "unmodelled-field-class")

/-- `cls(items=d)` for one argument, `cls(items=[…])` for several (`_get_items`, `Set.__init__`,
    `Map.__init__`) -/
def mkItems : Head → List FieldDecl → R FieldDecl
  | .array, [d] => .ok (.seqOf .list d {})
  | .array, ds => .ok (.seqPos .list ds true {})
  | .deque, [d] => .ok (.seqOf .deque d {})
  | .deque, ds => .ok (.seqPos .deque ds true {})
  | .set, [d] => .ok (.setOf false d {})
  | .immSet, [d] => .ok (.setOf true d {})
  | .map, [k, v] => .ok (.mapOf k v {})
  /- documented: a single item field = a tuple of any number of such elements (a Field class given as
     the single item is instantiated); two or more = a tuple of exactly that shape -/
  | .tuple, [d] => .ok (.tupleOf d false)
  | .tuple, d₁ :: d₂ :: ds => .ok (.tuplePos (d₁ :: d₂ :: ds) false)
  | _, _ => .error .typeErr

/-- `_mapped_type_of_mapped_args` (and `mapped_type()` when there are no arguments) -/
def mkFromArgs (h : Head) (args : List FieldDecl) : R FieldDecl :=
  match args with
  | [] => defaultDecl h
  | _ => if h == .anyOf then .ok (.anyOf args) else mkItems h args

def isClassObj (tm : TypeMap) : Obj → Bool
  | .ty a => tm.isClass a
  | .fcls _ => true
  | .noneTy => true
  | .scls _ => true
  | _ => false

/-- a Structure class (`isinstance(v, StructMeta)`): wrapped in a `ClassReference` wherever a field is expected -/
def isSclsObj : Obj → Bool
  | .scls _ => true
  | _ => false

def isFieldObj : Obj → Bool
  | .fcls _ | .finst _ => true
  | _ => false

/-- one entry of `_get_mapped_args`: an argument that maps to `None` is only tolerated under `AnyOf`
    when it is a class (implicit wrapper; outside the modelled vocabulary) -/
def argOf (anyOfHead isCls : Bool) (r : Option FieldDecl) : R FieldDecl :=
  match r with
  | some d => .ok d
  | none => if anyOfHead && isCls then .error (.other "implicit-wrapper") else .error .typeErr

/-- the class of `origin` instantiated without arguments -/
def ofOrigin (tm : TypeMap) (origin : Option Atom) : R (Option FieldDecl) :=
  match origin.bind tm.cbt with
  | none => .error .typeErr
  | some h => bindE (defaultDecl h) fun d => .ok (some d)

def someDecl (r : R FieldDecl) : R (Option FieldDecl) := bindE r fun d => .ok (some d)

mutual
/-- `get_typing_lib_info(v)` followed by instantiation of a returned class -/
def gtli (tm : TypeMap) : Obj → R (Option FieldDecl)
  | .noneTy => .ok (some .noneF)
  | .finst d => .ok (some d)
  | .fcls h => someDecl (defaultDecl h)
  | .ty a =>
    if tm.generic a then ofOrigin tm (tm.origin a)
    else match tm.cbt a with
      | none => .ok none
      | some h => someDecl (defaultDecl h)
  | .alias _ origin args =>
    match tm.cbt origin with
    | none => .error .typeErr
    | some h => bindE (gtliArgs tm (h == .anyOf) args) fun ds => someDecl (mkFromArgs h ds)
  | .tUnion ms =>
    match tm.cbt .tUnion with
    | none => .error .typeErr
    | some h => bindE (gtliArgs tm (h == .anyOf) ms) fun ds => someDecl (mkFromArgs h ds)
  /- PEP 604 `int | str`: `v = typing.Union[v.__args__]`, then as above -/
  | .uType ms =>
    match tm.cbt .tUnion with
    | none => .error .typeErr
    | some h => bindE (gtliArgs tm (h == .anyOf) ms) fun ds => someDecl (mkFromArgs h ds)
  | .noneV => .ok none
  /- `isinstance(v, StructMeta)`: `ClassReference(v)` -/
  | .scls d => .ok (some d)
termination_by structural o => o
/-- `_get_mapped_args` -/
def gtliArgs (tm : TypeMap) (anyOfHead : Bool) : List Obj → R (List FieldDecl)
  | [] => .ok []
  | a :: rest =>
    bindE (gtli tm a) fun r => bindE (argOf anyOfHead (isClassObj tm a) r) fun d =>
    bindE (gtliArgs tm anyOfHead rest) fun ds => .ok (d :: ds)
termination_by structural os => os
end

/-- fall-back of `FieldMeta.__getitem__` when conversion fails -/
def getItemFallback (tm : TypeMap) (o : Obj) (r : R (Option FieldDecl)) : R FieldDecl :=
  match r with
  | .ok (some d) => .ok d
  | _ => if isClassObj tm o then .error (.other "implicit-wrapper") else .error .typeErr

/-- a PEP 604 `types.UnionType` whose FIRST member is a Structure class (`Owner | None`, `Owner | int`):
    `convert_field_type_if_possible` looks at the first `__args__` member only, finds `Structure` in its mro and
    returns the union unchanged -/
def structFirstUnion : Obj → Bool
  | .uType (.scls _ :: _) => true
  | _ => false

/-- `FieldMeta.__getitem__(cls, val)`: what `Array[val]`, `AnyOf[val, …]`, `Field[val]` make of `val`.
    (A Structure-first PEP 604 union used to make it call itself forever - finding `pep604-structure-first-nested`,
    fixed in typedpy 4d54fb6: `convert_field_type_if_possible` converts every `types.UnionType` like `typing.Union`.) -/
def getItem (tm : TypeMap) (o : Obj) : R FieldDecl :=
  match o with
  | .finst d => .ok d
  | .fcls h => defaultDecl h
  | .noneV => .ok .noneF
  /- `Structure in val.__mro__`: `ClassReference(val)` -/
  | .scls d => .ok d
  | _ => getItemFallback tm o (gtli tm o)

/-- `_map_to_field(item)`: the `items=` keyword -/
def mapToField : Obj → R (Option FieldDecl)
  | .noneV => .ok none
  | .finst d => .ok (some d)
  | .fcls h => someDecl (defaultDecl h)
  | .scls d => .ok (some d)
  | _ => .error .typeErr

/-- the `items=` keyword of `cls(items=X)`: `_map_to_field` for Array / Set / ImmutableSet / Deque; `Tuple.__init__`
    has its own conversion with the same outcome on the modelled vocabulary (a Structure class is wrapped in a
    ClassReference since typedpy cdab473: former finding `tuple-items-structure-class`) -/
def callItem (_c : Coll) (o : Obj) : R (Option FieldDecl) := mapToField o

/-- one entry of `Tuple(items=[…])` -/
def tupleItem : Obj → R FieldDecl
  | .finst d => .ok d
  | .fcls h => defaultDecl h
  | .scls d => .ok d
  | .noneV => .error (.other "AttributeError")
  | _ => .error .typeErr

/-- `_or_fields`: a non-field right operand that is not `None` goes through `get_typing_lib_info`;
    a TypeError of the conversion, or no conversion, is the `|`-TypeError -/
def orConverted (dl : FieldDecl) (r : R (Option FieldDecl)) : R Obj :=
  match r with
  | .ok (some dr) => .ok (.finst (.anyOf [dl, dr]))
  | .ok none => .error .typeErr
  | .error e => .error e

/-- `_or_fields(first, other)` -/
def orFields (tm : TypeMap) (l r : Obj) : R Obj :=
  bindE (getItem tm l) fun dl =>
  if isFieldObj r || isSclsObj r then bindE (getItem tm r) fun dr => .ok (.finst (.anyOf [dl, dr]))
  else match r with
    | .noneV => .ok (.finst (.anyOf [dl, .noneF]))
    | _ => orConverted dl (gtli tm r)

/-- operands for which `type.__or__` / `GenericAlias.__or__` builds a `types.UnionType`: builtin
    classes (and the class `typing.Any`), PEP-585 aliases, PEP-604 unions -/
def plainType (tm : TypeMap) : Obj → Bool
  | .ty a => tm.isClass a
  | .alias false _ _ => true
  | .uType _ => true
  /- a Structure class is a class without an `__or__` of its own: `type.__or__` -/
  | .scls _ => true
  | _ => false
/-- right operands a plain type accepts without involving `typing` -/
def plainRight (tm : TypeMap) : Obj → Bool
  | .noneV => true
  | .fcls _ => true
  | o => plainType tm o
/-- `typing` objects: their `__or__` / `__ror__` build `typing.Union[l, r]` (flattened, de-duplicated) -/
def typingObj (tm : TypeMap) : Obj → Bool
  | .ty a => tm.generic a
  | .alias true _ _ => true
  | .tUnion _ => true
  | _ => false
def isFclsObj : Obj → Bool
  | .fcls _ => true
  | _ => false

/-- Python's `l | r`.  A Field on the left: `_or_fields`.  A `typing` object on either side:
    `typing.Union`.  Plain types / `None` / Field classes among themselves: `types.UnionType`
    (`None | None`, and a Field *instance* on the right of a plain type or `None`, are TypeErrors). -/
def pipeObj (tm : TypeMap) (l r : Obj) : R Obj :=
  if isFieldObj l then orFields tm l r
  else if typingObj tm l then .ok (mkUnion (unionMembers l ++ unionMembers r))
  else if plainType tm l then
    (if typingObj tm r then .ok (mkUnion (unionMembers l ++ unionMembers r))
     else if plainRight tm r then .ok (mkUType (unionMembers l ++ unionMembers r))
     else .error .typeErr)
  else match l with
    | .noneV =>
      if typingObj tm r then .ok (mkUnion (unionMembers l ++ unionMembers r))
      else if plainType tm r || isFclsObj r then .ok (mkUType (unionMembers l ++ unionMembers r))
      else .error .typeErr
    | _ => .error (.other "unmodelled-pipe")

/-- the one `none`-able `items=` entry of `Map(items=[K, V])` -/
def mapEntry (r : Option FieldDecl) : R FieldDecl :=
  match r with
  | some d => .ok d
  | none => .error (.other "unmodelled-none-item")

/-- Python evaluation of the expression -/
def ev (tm : TypeMap) : Sp → R Obj
  | .builtin k => .ok (.ty k.atom)
  | .fcls k => .ok (.fcls k.head)
  | .finst k => bindE (defaultDecl k.head) fun d => .ok (.finst d)
  | .lit d _ => .ok (.finst d)
  | .noneLit => .ok .noneV
  | .bareBuiltin c => .ok (.ty c.atom)
  | .bareTyping c => .ok (.ty c.tAtom)
  | .bareCls c => .ok (.fcls c.head)
  | .bareInst c => bindE (defaultDecl c.head) fun d => .ok (.finst d)
  | .pep585 c x => bindE (ev tm x) fun ox => .ok (.alias false c.atom [ox])
  | .typingG c x => bindE (ev tm x) fun ox => .ok (.alias true c.atom [typingArg ox])
  | .sub c x =>
    bindE (ev tm x) fun ox => bindE (getItem tm ox) fun d =>
    bindE (mkItems c.head [d]) fun r => .ok (.finst r)
  | .call c x =>
    bindE (ev tm x) fun ox => bindE (callItem c ox) fun od =>
    bindE (mkFromArgs c.head od.toList) fun r => .ok (.finst r)
  | .dictBare => .ok (.ty .dict)
  | .tDictBare => .ok (.ty .tDict)
  | .mapBare => .ok (.fcls .map)
  | .mapInst => bindE (defaultDecl .map) fun d => .ok (.finst d)
  | .dict585 k v => bindE (ev tm k) fun ok' => bindE (ev tm v) fun ov => .ok (.alias false .dict [ok', ov])
  | .dictTyping k v =>
    bindE (ev tm k) fun ok' => bindE (ev tm v) fun ov => .ok (.alias true .dict [typingArg ok', typingArg ov])
  | .mapSub k v =>
    bindE (ev tm k) fun ok' => bindE (ev tm v) fun ov =>
    bindE (getItem tm ok') fun dk => bindE (getItem tm ov) fun dv =>
    bindE (mkItems .map [dk, dv]) fun r => .ok (.finst r)
  | .mapCall k v =>
    bindE (ev tm k) fun ok' => bindE (ev tm v) fun ov =>
    bindE (mapToField ok') fun rk => bindE (mapEntry rk) fun dk =>
    bindE (mapToField ov) fun rv => bindE (mapEntry rv) fun dv =>
    bindE (mkItems .map [dk, dv]) fun r => .ok (.finst r)
  | .optional x => bindE (ev tm x) fun ox => .ok (mkUnion (unionMembers ox ++ [.noneTy]))
  | .union x y =>
    bindE (ev tm x) fun ox => bindE (ev tm y) fun oy => .ok (mkUnion (unionMembers ox ++ unionMembers oy))
  | .anyOf x y =>
    bindE (ev tm x) fun ox => bindE (ev tm y) fun oy =>
    bindE (getItem tm ox) fun dx => bindE (getItem tm oy) fun dy => .ok (.finst (.anyOf [dx, dy]))
  | .pipe x y => bindE (ev tm x) fun ox => bindE (ev tm y) fun oy => pipeObj tm ox oy
  | .scls d _ => .ok (.scls d)
  | .tup585 x y => bindE (ev tm x) fun ox => bindE (ev tm y) fun oy => .ok (.alias false .tuple [ox, oy])
  | .tupTyping x y =>
    bindE (ev tm x) fun ox => bindE (ev tm y) fun oy => .ok (.alias true .tuple [typingArg ox, typingArg oy])
  | .tupSub x y =>
    bindE (ev tm x) fun ox => bindE (ev tm y) fun oy =>
    bindE (getItem tm ox) fun dx => bindE (getItem tm oy) fun dy =>
    bindE (mkItems .tuple [dx, dy]) fun r => .ok (.finst r)
  | .tupCall x y =>
    bindE (ev tm x) fun ox => bindE (ev tm y) fun oy =>
    bindE (tupleItem ox) fun dx => bindE (tupleItem oy) fun dy =>
    bindE (mkItems .tuple [dx, dy]) fun r => .ok (.finst r)
  /- `_or_fields(first, other)` with `other` a str / int / float / bool value: `AnyOf[first, Enum(values=[other])]`;
     every non-field left operand refuses a plain value (`int | 5`, `None | 5`, `Optional[int] | 5`: TypeError) -/
  | .pipeLit x v _ =>
    bindE (ev tm x) fun ox =>
    if isFieldObj ox then bindE (getItem tm ox) fun dx => .ok (.finst (.anyOf [dx, .enumLit [v]]))
    else .error .typeErr
termination_by structural s => s

/-! ### length of the annotation text (what `from __future__ import annotations` stores) -/

def Scalar.builtinLen : Scalar → Nat
  | .int => 3 | .str => 3 | .float => 5 | .bool => 4 | .any => 3
def Scalar.clsLen : Scalar → Nat
  | .int => 7 | .str => 6 | .float => 5 | .bool => 7 | .any => 8
def Coll.builtinLen : Coll → Nat
  | .list => 4 | .set => 3 | .frozenset => 9 | .deque => 5 | .tuple => 5
/-- `List` `typing.Set` `FrozenSet` `typing.Deque` `typing.Tuple` -/
def Coll.typingLen : Coll → Nat
  | .list => 4 | .set => 10 | .frozenset => 9 | .deque => 12 | .tuple => 12
def Coll.clsLen : Coll → Nat
  | .list => 5 | .set => 3 | .frozenset => 12 | .deque => 5 | .tuple => 5

def isPipe : Sp → Bool
  | .pipe _ _ => true
  | .pipeLit _ _ _ => true
  | _ => false

def annLen : Sp → Nat
  | .builtin k => k.builtinLen
  | .fcls k => k.clsLen
  | .finst k => k.clsLen + 2
  | .lit _ n => n
  | .noneLit => 4
  | .bareBuiltin c => c.builtinLen
  | .bareTyping c => c.typingLen
  | .bareCls c => c.clsLen
  | .bareInst c => c.clsLen + 2
  | .pep585 c x => c.builtinLen + 2 + annLen x
  | .typingG c x => c.typingLen + 2 + annLen x
  | .sub c x => c.clsLen + 2 + annLen x
  | .call c x => c.clsLen + 8 + annLen x
  | .dictBare => 4 | .tDictBare => 4 | .mapBare => 3 | .mapInst => 5
  | .dict585 k v => 8 + annLen k + annLen v
  | .dictTyping k v => 8 + annLen k + annLen v
  | .mapSub k v => 7 + annLen k + annLen v
  | .mapCall k v => 15 + annLen k + annLen v
  | .optional x => 10 + annLen x
  | .union x y => 9 + annLen x + annLen y
  | .anyOf x y => 9 + annLen x + annLen y
  | .pipe x y => annLen x + 3 + annLen y + (if isPipe y then 2 else 0)
  | .scls _ n => n
  | .tup585 x y => 9 + annLen x + annLen y
  | .tupTyping x y => 16 + annLen x + annLen y
  | .tupSub x y => 9 + annLen x + annLen y
  | .tupCall x y => 17 + annLen x + annLen y
  | .pipeLit x _ n => annLen x + 3 + n

/-! ### field and class level -/

inductive Mode where | ann | assign
deriving Repr, DecidableEq, Inhabited

/-- how a default is given: not at all, `name: T = v`, or `T(default=v)`; `len` = length of the
    literal's source text -/
inductive DefaultSp where
  | none
  | eq (v : PyVal) (len : Nat)
  | kw (v : PyVal) (len : Nat)
  /-- `name: T = f` / `T(default=f)` with `f` a default FACTORY (a callable, evaluated once per instance);
      `p` = its first product (all products are assumed to validate alike) -/
  | eqF (p : PyVal) (len : Nat)
  | kwF (p : PyVal) (len : Nat)
deriving Repr, Inhabited

/-- how a default that is still the factory itself (evaluated per instance) is reported -/
def factoryTag : PyVal := .opaque "factory"

structure FieldSp where
  name : String
  mode : Mode
  ty : Sp
  dflt : DefaultSp := .none
  /-- the name is listed in the class's `_optional` -/
  inOptional : Bool := false
  /-- the annotation is written as a string literal: `a: "Integer"` -/
  quoted : Bool := false
  /-- (only meaningful in `Scope.enclosing`) the annotation text mentions a name that is a local of the
      enclosing function and that the function containing the class statement does not capture (no evaluated
      expression of that function uses it): a Python-level fact, supplied by the harness from the compiled
      code object (`co_freevars`) -/
  unresolved : Bool := false
deriving Repr, Inhabited

inductive FieldRes where
  /-- no field is declared (the annotation is silently ignored) -/
  | dropped
  /-- a field, whether its name ends up in `_required`, and its default -/
  | field (d : FieldDecl) (required : Bool) (dflt : Option PyVal)
deriving Repr, Inhabited

/-- Python truthiness of a default literal -/
def truthy : PyVal → Bool
  | .none => false
  | .bool b => b
  | .int i => i != 0
  | .float q => q.num != 0
  | .dec q => q.num != 0
  | .str s => s != ""
  | .list xs | .tuple xs | .set _ xs | .deque xs => !xs.isEmpty
  | .dict kvs => !kvs.isEmpty
  | _ => true

/-- default literals of the modelled domain: immutable scalars other than `None` -/
def scalarDefault : PyVal → Bool
  | .bool _ | .int _ | .float _ | .str _ => true
  | _ => false

/-- defaults that can be written after `=`: the scalars, and `None`.  `= None` is validated like any
    other default but is not a default afterwards (`_default is not None` is the test everywhere): the
    field stays required unless it is optional -/
def eqDefault (v : PyVal) : Bool := scalarDefault v || v.isNone

/-- outcome of a validated `= v` -/
def eqResult (d : FieldDecl) (opt : Bool) (v : PyVal) : FieldRes :=
  if v.isNone then .field d (!opt) none else .field d false (some v)

/-- `field._try_default_value(v)`: the exception class of an invalid default is re-raised -/
def tryDefault (O : Oracles) (d : FieldDecl) (v : PyVal) : R Unit :=
  bindE (validate O d v) fun _ => .ok ()

/-- expressions that are a call of a Field class, so that `default=` can be written inside -/
def kwAllowed : Sp → Bool
  | .finst _ | .lit _ _ | .bareInst _ | .call _ _ | .mapCall _ _ | .mapInst | .tupCall _ _ => true
  | _ => false

/-- extra characters `default=v` adds to the call -/
def kwExtra (s : Sp) (n : Nat) : Nat :=
  match s with
  | .finst _ | .bareInst _ | .mapInst => 8 + n
  | .lit _ _ => 0
  | _ => 10 + n

def annLenField (fs : FieldSp) : Nat :=
  match fs.dflt with
  | .kw _ n => annLen fs.ty + kwExtra fs.ty n
  | .kwF _ n => annLen fs.ty + kwExtra fs.ty n
  | _ => annLen fs.ty

/-- defaults that can be written as `default=`: the scalars, and `None` (= the parameter's own default: no default) -/
def kwDefault (v : PyVal) : Bool := scalarDefault v || v.isNone

/-- `Field.__init__(default=v)`: only a truthy default is validated here -/
def applyKw (O : Oracles) (o : Obj) (v : PyVal) : R Obj :=
  match o with
  | .finst d => if truthy v then bindE (tryDefault O d v) fun _ => .ok o else .ok o
  | _ => .error (.other "not-expressible")

/-- `Field.__init__(default=f)`: a callable is truthy, so its product is always validated here -/
def applyKwF (O : Oracles) (o : Obj) (p : PyVal) : R Obj :=
  match o with
  | .finst d => bindE (tryDefault O d p) fun _ => .ok o
  | _ => .error (.other "not-expressible")

/-- evaluation of the declaration's expression including a `default=` keyword -/
def evTop (O : Oracles) (tm : TypeMap) (fs : FieldSp) : R Obj :=
  bindE (ev tm fs.ty) fun o =>
  match fs.dflt with
  | .kw v _ =>
    if !kwAllowed fs.ty || !kwDefault v then .error (.other "not-expressible") else applyKw O o v
  | .kwF p _ => if !kwAllowed fs.ty then .error (.other "not-expressible") else applyKwF O o p
  | _ => .ok o

def isNoneF : FieldDecl → Bool
  | .noneF => true
  | _ => false

/-- `AnyOf._is_optional` -/
def hasNoneOpt : FieldDecl → Bool
  | .anyOf fs => fs.any isNoneF
  | _ => false

/-- a default given with `=` is validated on every path (`Field.__init__` when truthy,
    `_try_default_value`, `_apply_default_and_update_required…` when falsy) -/
def finishField (O : Oracles) (d : FieldDecl) (opt : Bool) (dflt : DefaultSp) : R FieldRes :=
  match dflt with
  | .none => .ok (.field d (!opt) none)
  /- `default=None` is no default at all (`_default is not None` is the test everywhere) -/
  | .kw v _ => if v.isNone then .ok (.field d (!opt) none) else .ok (.field d false (some v))
  | .kwF _ _ => .ok (.field d false (some factoryTag))
  /- a factory given with `=`: its product is validated; the factory itself is kept as `_default` on every
     path (also when the annotation converts to a Field class: `the_type(default=default)`, typedpy d1c0173) -/
  | .eqF p _ => bindE (tryDefault O d p) fun _ => .ok (.field d false (some factoryTag))
  | .eq v _ =>
    if !eqDefault v then .error (.other "unmodelled-default")
    else bindE (tryDefault O d v) fun _ => .ok (eqResult d opt v)

def afterGtli (O : Oracles) (fs : FieldSp) (r : Option FieldDecl) : R FieldRes :=
  match r with
  | none => .ok .dropped
  | some d => finishField O d (hasNoneOpt d || fs.inOptional) fs.dflt

/-- `add_annotations_to_class_dict` for one evaluated annotation -/
def annField (O : Oracles) (tm : TypeMap) (fs : FieldSp) (o : Obj) : R FieldRes :=
  if isFieldObj o || isSclsObj o then bindE (getItem tm o) fun d => finishField O d fs.inOptional fs.dflt
  else bindE (gtli tm o) fun r => afterGtli O fs r

/-- a field object found in the class body (its `default=`, if any, was handled by `applyKw`) -/
def finishFieldNoCheck (d : FieldDecl) (opt : Bool) (dflt : DefaultSp) : R FieldRes :=
  match dflt with
  | .kw v _ => if v.isNone then .ok (.field d (!opt) none) else .ok (.field d false (some v))
  | .kwF _ _ => .ok (.field d false (some factoryTag))
  | _ => .ok (.field d (!opt) none)

/-- `name = <expr>` in the class body -/
def assignField (tm : TypeMap) (fs : FieldSp) (o : Obj) : R FieldRes :=
  match fs.dflt with
  | .eq _ _ => .error (.other "not-expressible")
  | .eqF _ _ => .error (.other "not-expressible")
  | dflt =>
    match o with
    | .finst d => finishFieldNoCheck d fs.inOptional dflt
    | .fcls h => bindE (defaultDecl h) fun d => finishFieldNoCheck d fs.inOptional dflt
    | .ty a => if tm.isClass a || tm.generic a then .error .typeErr else .ok .dropped
    | .alias _ _ _ => .error .typeErr
    | .tUnion _ => .error .typeErr
    /- refused like other bare types (typedpy 173578d) -/
    | .uType _ => .error .typeErr
    | .noneV => .ok .dropped
    | .noneTy => .error .typeErr
    /- `name = Owner`: wrapped in a `ClassReference` -/
    | .scls d => finishFieldNoCheck d fs.inOptional dflt

/-- one field of the class body.  `future` = the module has `from __future__ import annotations`: the
    annotation is then stored as text and evaluated by `_evaluate_if_future_annotations` whatever its
    length (the 50-character guard only applies to string annotations in modules *without* the import,
    which are not in the spelling grammar), so the flag does not influence the result. -/
def elabField (O : Oracles) (tm : TypeMap) (_future : Bool) (fs : FieldSp) : R FieldRes :=
  match fs.mode with
  | .ann => bindE (evTop O tm fs) fun o => annField O tm fs o
  | .assign => bindE (evTop O tm fs) fun o => assignField tm fs o

/-- where the class statement stands relative to the type names its annotations use:
    at module level; inside a function that also defines the names (`function`); the same one function
    deeper (`nested`); or inside a function while the names are locals of an ENCLOSING function -/
inductive Scope where | module | function | nested | enclosing
deriving Repr, DecidableEq, Inhabited

/-- the annotation reaches `StructMeta.__new__` as a string (future import, or written quoted) -/
def stringAnn (future : Bool) (fs : FieldSp) : Bool := fs.mode == .ann && (future || fs.quoted)

/-- One field of a class statement in scope `sc`.  A string annotation is evaluated by
    `_evaluate_if_future_annotations` with the module globals and the locals of the frame executing the
    class statement: names of the module, and of the function that directly contains the class, resolve;
    locals of an enclosing function only if that function's code captures them (otherwise NameError, PEP 563).
    A quoted annotation under the future import is stored as the text of a string literal and is evaluated twice;
    every string annotation is evaluated whatever its length (typedpy fix of `quoted-under-future-import` /
    `quoted-annotation-50`), so quoting does not influence the result. -/
def elabFieldAt (sc : Scope) (O : Oracles) (tm : TypeMap) (future : Bool) (fs : FieldSp) : R FieldRes :=
  if stringAnn future fs && sc == .enclosing && fs.unresolved then .error (.other "NameError")
  else elabField O tm future fs

structure ClassSp where
  future : Bool
  fields : List FieldSp
  scope : Scope := .module
  /-- `_required = [...]` written out in the class body (`none`: not written, typedpy computes it) -/
  required : Option (List String) := none
deriving Repr, Inhabited

def elabFields (O : Oracles) (tm : TypeMap) (sc : Scope) (future : Bool) :
    List FieldSp → R (List (String × FieldRes))
  | [] => .ok []
  | fs :: rest =>
    bindE (elabFieldAt sc O tm future fs) fun r =>
    bindE (elabFields O tm sc future rest) fun rs => .ok ((fs.name, r) :: rs)

def fieldsOf : List (String × FieldRes) → List (String × FieldDecl)
  | [] => []
  | (n, .field d _ _) :: rest => (n, d) :: fieldsOf rest
  | (_, .dropped) :: rest => fieldsOf rest

def defaultsOf : List (String × FieldRes) → List (String × PyVal)
  | [] => []
  | (n, .field _ _ (some v)) :: rest => (n, v) :: defaultsOf rest
  | _ :: rest => defaultsOf rest

/-- `_required`: fields without default that are neither typing-optional nor listed in `_optional` -/
def requiredOf : List (String × FieldRes) → List String
  | [] => []
  | (n, .field _ true none) :: rest => n :: requiredOf rest
  | _ :: rest => requiredOf rest

/-- `_required` given explicitly (`required_fields_predefined`): the listed names stay, except that a field with a
    default is removed; nothing is added -/
def explicitReq (R : List String) : List (String × FieldRes) → List String
  | [] => []
  | (n, .field _ _ none) :: rest => if R.contains n then n :: explicitReq R rest else explicitReq R rest
  | _ :: rest => explicitReq R rest

def isField : FieldRes → Bool
  | .field _ _ _ => true
  | .dropped => false

/-- the name is one of the class's fields (a dropped annotation declares none) -/
def isFieldName (rs : List (String × FieldRes)) (n : String) : Bool := rs.any (fun p => p.1 == n && isField p.2)

/-- a name listed in `_optional` AND in the explicit `_required` whose declaration declares no field at all is never
    taken out of `_required`: refused as well -/
def conflictDropped (R optNames : List String) (rs : List (String × FieldRes)) : Bool :=
  rs.any (fun p => !isField p.2 && optNames.contains p.1 && R.contains p.1)

/-- "optional cannot override prior required": a name that is optional (listed in `_optional`, or annotated with a
    typing union with a None member), has no default, and is listed in the explicit `_required` -/
def conflictOpt (R : List String) : List (String × FieldRes) → Bool
  | [] => false
  | (n, .field _ false none) :: rest => R.contains n || conflictOpt R rest
  | _ :: rest => conflictOpt R rest

def classOfReq (req : List String) (rs : List (String × FieldRes)) : FieldDecl :=
  .struct { name := "K", required := req, addl := true, accepts := ["K"] } (fieldsOf rs) (defaultsOf rs)

def classOf (rs : List (String × FieldRes)) : FieldDecl :=
  .struct { name := "K", required := requiredOf rs, addl := true, accepts := ["K"] } (fieldsOf rs) (defaultsOf rs)

/-- the class statement: the class declaration it creates, or the exception class it raises -/
def finishClass (req : Option (List String)) (optNames : List String) (rs : List (String × FieldRes)) : R FieldDecl :=
  match req with
  | none => .ok (classOf rs)
  | some R =>
    if conflictOpt R rs || conflictDropped R optNames rs then .error .valueErr
    else .ok (classOfReq (explicitReq R rs ++ R.filter (fun n => !isFieldName rs n)) rs)

/-- the names listed in `_optional` -/
def optionalNames (fields : List FieldSp) : List String := (fields.filter (·.inOptional)).map (·.name)

def elabClass (O : Oracles) (tm : TypeMap) (c : ClassSp) : R FieldDecl :=
  bindE (elabFields O tm c.scope c.future c.fields) (finishClass c.required (optionalNames c.fields))

end Typedpy.Elab
