/-
  Sem/Define.lean — executable model of what a `class X(bases): …` statement (equivalently
  `type(name, bases, dict)`) does for a typedpy Structure class.  Mirrors structures.py:
  `Field.__init__` (validation of a truthy `default=`), `StructMeta.__new__`, `get_base_info`,
  `make_signature`, `_apply_default_and_update_required_not_to_include_fields_with_defaults`,
  `_check_for_final_violations`, `_block_invalid_consts`, the non-typedpy-assignment guard, the
  Constant type check, `_get_all_fields_by_name` (MRO merge), Python's C3 linearisation,
  keysof.py (`keys_of`) and abstract_structure.py (`AbstractStructure.__init__`).

  Level of abstraction: the class dictionary *after* annotation processing for field-typed
  annotations (`a: Integer(minimum=1) = 5` is a field entry with an `=` default; the typing-style
  spellings are C13's subject).  A class is identified by its name.  The model mirrors what the
  code does today, defects included.

  Shape: `defineClass` = a flat list of checks (`R Unit`, in the code's order) followed by a total
  `build`.  All intermediate quantities are total functions of `(World, ClassSrc)`.
-/
import TypedpyModel.Sem.Validate
namespace Typedpy

/-! ### defaults, members, class sources -/

/-- a default as written: a literal, or a zero-argument callable returning the value -/
inductive Dflt where
  | lit (v : PyVal)
  | gen (v : PyVal)
deriving Repr, Inhabited

/-- Python truthiness (`if default:`) -/
def pyTruthy : PyVal → Bool
  | .none => false
  | .bool b => b
  | .int i => i != 0
  | .float q => q.num != 0
  | .dec q => q.num != 0
  | .str s => s != ""
  | .list xs => !xs.isEmpty
  | .tuple xs => !xs.isEmpty
  | .deque xs => !xs.isEmpty
  | .set _ xs => !xs.isEmpty
  | .dict kvs => !kvs.isEmpty
  | .enumv _ _ => true
  | .inst _ attrs => attrs.any (fun a => !a.2.isNone)
  | .opaque _ => true

namespace Dflt
/-- the value an instance receives (`default()` if callable) -/
def value : Dflt → PyVal
  | .lit v => v
  | .gen v => v
def truthy : Dflt → Bool
  | .lit v => pyTruthy v
  | .gen _ => true
/-- `isinstance(default, (list, dict, set))` -/
def isMutableLit : Dflt → Bool
  | .lit (.list _) => true
  | .lit (.dict _) => true
  | .lit (.set false _) => true
  | _ => false
end Dflt

def optTruthy : Option Dflt → Bool
  | none => false
  | some d => d.truthy

/-- a Field object (declaration + its current `_default`) or a `Constant` -/
inductive Member where
  | field (decl : FieldDecl) (dflt : Option Dflt)
  | const (v : PyVal)
deriving Repr, Inhabited

namespace Member
def hasDefault : Member → Bool
  | .field _ (some _) => true
  | _ => false
def isConst : Member → Bool
  | .const _ => true
  | _ => false
/-- a Field object without a default (`isinstance(v, Field) and v._default is None`) -/
def needsValue : Member → Bool
  | .field _ none => true
  | _ => false
end Member

/-- the kinds of other values in a class body that the metaclass distinguishes -/
inductive AttrVal where
  | bool | list | dict
  /-- a class object that is not a typedpy type, e.g. `int` or a nested plain class -/
  | bareType
  /-- a parameterised generic such as `list[int]` -/
  | generic
  /-- a PEP 604 union of bare types such as `int | str` (`types.UnionType`); refused like the other
      bare types since /repo 173578d -/
  | union
  /-- anything else (number, string, function …) -/
  | other
deriving Repr, DecidableEq, Inhabited

inductive SrcEntry where
  /-- `name = F(…, default=kw)` and/or an annotation with `= eq` -/
  | field (decl : FieldDecl) (kw eq : Option Dflt)
  /-- an already existing Field / Constant object placed in the class dict -/
  | obj (m : Member)
  | attr (a : AttrVal)
deriving Repr, Inhabited

structure ClassSrc where
  name : String
  bases : List String
  /-- the class dict, in order -/
  entries : List (String × SrcEntry)
  /-- `_required` as written, or absent -/
  required : Option (List String) := none
  /-- `_optional` (absent = `[]`) -/
  optional : List String := []
  /-- `_additional_properties` / `_additionalProperties` as written -/
  addl : Option Bool := none
  ignoreNone : Option Bool := none
  immutable : Option Bool := none
  /-- `@keys_of(E₁, …, Eₖ)`: the member names of each enum class, in argument order
      (`[]` = no decorator) -/
  keysOf : List (List String) := []
deriving Repr, Inhabited

/-- constructor signature: required parameters (a set: their order comes from a Python `set`),
    parameters with `=None` in order, `**kwargs` -/
structure Sig where
  req : List String := []
  opt : List String := []
  kwargs : Bool := true
deriving Repr, Inhabited

structure ClassDef where
  name : String
  /-- `false`: a plain Python mixin class -/
  isStruct : Bool := true
  bases : List String := []
  /-- linearisation, own name first (`object` / `UniqueMixin` omitted) -/
  mro : List String
  /-- `_fields` with the class's own objects -/
  own : List (String × Member) := []
  /-- `_field_by_name` -/
  allFields : List (String × Member) := []
  /-- `_required` (a set) -/
  required : List String := []
  constants : List (String × PyVal) := []
  sig : Sig := {}
  /-- `cls.__dict__.get('_additional_properties')` -/
  ownAddl : Option Bool := none
  ownIgnoreNone : Option Bool := none
  ownImmutable : Option Bool := none
  /-- `getattr(cls, …)`: through the MRO -/
  addl : Bool := true
  /-- `getattr(cls, '_ignore_none', <absent>)`: `none` = no class of the MRO sets it -/
  ignoreNoneAttr : Option Bool := none
  immutable : Bool := false
  /-- which of `_serialization_mapper` / `_deserialization_mapper` the class's own `__dict__` holds -/
  ownMappers : List String := []
deriving Repr, Inhabited

namespace ClassDef
def fieldNames (c : ClassDef) : List String := c.allFields.map (·.1)
/-- `getattr(cls, '_ignore_none', False)` -/
def ignoreNone (c : ClassDef) : Bool := c.ignoreNoneAttr.getD false
end ClassDef

/-- process-wide state relevant to class definition: the classes that exist and the two guards -/
structure World where
  classes : List ClassDef
  /-- `TypedPyDefaults.block_unknown_consts` -/
  blockConsts : Bool := true
  /-- `Structure._block_non_typedpy_field_assignment` -/
  blockNonTypedpy : Bool := true
deriving Repr, Inhabited

def findCls (n : String) : List ClassDef → Option ClassDef
  | [] => none
  | c :: cs => if c.name == n then some c else findCls n cs

namespace World
def find (w : World) (n : String) : Option ClassDef := findCls n w.classes
/-- a new class object; existing ones are untouched -/
def add (w : World) (c : ClassDef) : World := { w with classes := w.classes ++ [c] }

def builtin (name : String) (bases : List String) (imm : Bool) : ClassDef :=
  { name, bases, mro := name :: bases, immutable := imm,
    ownImmutable := if imm then some true else none }

/-- typedpy's own base classes -/
def init : World :=
  { classes := [builtin "Structure" [] false, builtin "ImmutableStructure" ["Structure"] true,
                builtin "FinalStructure" ["Structure"] false,
                builtin "AbstractStructure" ["Structure"] false] }
end World

/-! ### names -/

def startsUnderscore (s : String) : Bool :=
  match s.toList with
  | '_' :: _ => true
  | _ => false

/-- `_is_sunder`: `len(name) > 2 and name[0] == '_' and name[1] != '_'` -/
def isSunder (s : String) : Bool :=
  match s.toList with
  | '_' :: c :: _ :: _ => c != '_'
  | _ => false

def isDunderL (cs : List Char) : Bool :=
  match cs, cs.reverse with
  | '_' :: '_' :: c :: _, '_' :: '_' :: d :: _ => decide (cs.length > 4) && c != '_' && d != '_'
  | _, _ => false

/-- `_is_dunder` -/
def isDunder (s : String) : Bool := isDunderL s.toList

def isCustomAttr (s : String) : Bool := "_custom_attribute_".toList.isPrefixOf s.toList

/-- names `_block_invalid_consts` never looks at -/
def knownAttrs : List String :=
  ["_required", "_additional_properties", "_additionalProperties", "_immutable", "_defaults",
   "_optional", "_serialization_mapper", "_deserialization_mapper", "_ignore_none",
   "_enable_undefined_value", "_versions_mapping", "_fields", "_fail_fast", "_field_by_name",
   "_constants"]

def badFieldName (n : String) : Bool := startsUnderscore n || n == "kwargs"

/-! ### C3 linearisation -/

def notInTails (h : String) (seqs : List (List String)) : Bool :=
  seqs.all fun s => !(s.tail.contains h)

/-- the first head that occurs in no tail -/
def pickHead (all : List (List String)) : List (List String) → Option String
  | [] => none
  | [] :: rest => pickHead all rest
  | (h :: _) :: rest => if notInTails h all then some h else pickHead all rest

def dropHead (h : String) : List String → List String
  | [] => []
  | x :: t => if x == h then t else x :: t

def allEmpty (seqs : List (List String)) : Bool := seqs.all List.isEmpty

/-- C3 merge; `none` = "Cannot create a consistent method resolution order" -/
def c3merge : Nat → List (List String) → Option (List String)
  | 0, seqs => if allEmpty seqs then some [] else none
  | fuel + 1, seqs =>
    if allEmpty seqs then some []
    else match pickHead seqs seqs with
      | none => none
      | some h => (c3merge fuel (seqs.map (dropHead h))).map (h :: ·)

def totalLen : List (List String) → Nat
  | [] => 0
  | s :: rest => s.length + totalLen rest

def c3 (seqs : List (List String)) : Option (List String) := c3merge (totalLen seqs) seqs

/-! ### generic association-list helpers -/

/-- `dict.update` with a list of pairs -/
def updateAll {α} (acc : List (String × α)) : List (String × α) → List (String × α)
  | [] => acc
  | p :: ps => updateAll (assocSet p.1 p.2 acc) ps

/-- `update` with each dict in turn -/
def mergeAll {α} (acc : List (String × α)) : List (List (String × α)) → List (String × α)
  | [] => acc
  | l :: ls => mergeAll (updateAll acc l) ls

/-- keep the first occurrence of every key -/
def dedupKeys {α} : List (String × α) → List (String × α)
  | [] => []
  | p :: ps => p :: (dedupKeys ps).filter (fun q => q.1 != p.1)

def dedupStr : List String → List String
  | [] => []
  | x :: xs => x :: (dedupStr xs).filter (· != x)

/-! ### quantities computed by `StructMeta.__new__` (total functions of world and source) -/

/-- a literal `None` is no default at all: `_default is None` is typedpy's test for "has no
    default" (`default=None`, and `a: F = None` once it has passed validation) -/
def litNone : Option Dflt → Option Dflt
  | some (.lit .none) => none
  | d => d

def entryMember : SrcEntry → Option Member
  | .field d kw eq => some (.field d (litNone (if eq.isSome && !optTruthy kw then eq else kw)))
  | .obj m => some m
  | .attr _ => none

/-- own `_fields`: every Field / Constant entry of the class dict, in order -/
def ownMembers : List (String × SrcEntry) → List (String × Member)
  | [] => []
  | (n, e) :: rest =>
    match entryMember e with
    | some m => (n, m) :: ownMembers rest
    | none => ownMembers rest

def baseDefs (w : World) (src : ClassSrc) : List ClassDef := src.bases.filterMap w.find

/-- `base_structures` of `get_base_info` -/
def structBases (w : World) (src : ClassSrc) : List ClassDef :=
  (baseDefs w src).filter fun b => b.isStruct && b.name != "Structure"

def sigParams (s : Sig) : List (String × Bool) :=
  s.req.map (fun n => (n, true)) ++ s.opt.map (fun n => (n, false))

def allSigParams : List ClassDef → List (String × Bool)
  | [] => []
  | b :: bs => sigParams b.sig ++ allSigParams bs

/-- `bases_params` (name, is-required): a name keeps the position of its first declaration and is
    required as soon as ANY base requires it (a later base that requires what an earlier base
    declares optional upgrades it); `**kwargs` never survives -/
def basesParams (w : World) (src : ClassSrc) : List (String × Bool) :=
  let all := allSigParams (structBases w src)
  (dedupKeys all).map fun p => (p.1, all.any fun q => q.1 == p.1 && q.2)

def basesRequired (w : World) (src : ClassSrc) : List String :=
  ((basesParams w src).filter (·.2)).map (·.1)

def mroSeqs (w : World) (src : ClassSrc) : List (List String) :=
  (baseDefs w src).map (·.mro) ++ [src.bases]

/-- `type.__new__`'s linearisation of the new class -/
def mroOf (w : World) (src : ClassSrc) : Option (List String) :=
  (c3 (mroSeqs w src)).map (src.name :: ·)

def mroTail (w : World) (src : ClassSrc) : List String := (c3 (mroSeqs w src)).getD []

def ownOf (w : World) (n : String) : List (String × Member) :=
  match w.find n with
  | some c => c.own
  | none => []

/-- `_get_all_fields_by_name`: classes in reversed MRO, later (more derived) wins, a key keeps
    the position of its first insertion -/
def allFieldsOf (w : World) (src : ClassSrc) : List (String × Member) :=
  mergeAll [] (((mroTail w src).reverse.map (ownOf w)) ++ [ownMembers src.entries])

/-- the members by name as `StructMeta.__new__` reads them when it collects the Constants: the
    own-dict entries merged along the MRO, i.e. `_field_by_name` itself.  (Until /repo's repair of
    `names-mismatch:constant-shadowed-in-diamond` this was `getattr(clsobj, name)`, which for a Field
    answered from the *inherited* `_field_by_name` — in a diamond another branch's view.) -/
def resolvedFields (w : World) (src : ClassSrc) : List (String × Member) := allFieldsOf w src

def constantsOf (fs : List (String × Member)) : List (String × PyVal) :=
  fs.filterMap fun p => match p.2 with | .const v => some (p.1, v) | _ => none

/-- `cls_dict[_required]` after `_apply_default_and_update_required_…`: fields with a default are
    removed; if `_required` was not written, every other own field not in `_optional` is added -/
def requiredOwn (src : ClassSrc) : List String :=
  let own := ownMembers src.entries
  (src.required.getD []).filter (fun n => !(own.any fun p => p.1 == n && p.2.hasDefault))
  ++ (if src.required.isNone then
        (own.filter fun p => !p.2.hasDefault && !src.optional.contains p.1).map (·.1)
      else [])

/-- `cls_dict[_required]` as `StructMeta.__new__` uses it: after the class object exists, every name
    whose Field object — own or inherited — has a default is dropped ("every field that has a default
    value is, by definition, optional") -/
def requiredEff (w : World) (src : ClassSrc) : List String :=
  (requiredOwn src).filter fun n =>
    match lookup n (allFieldsOf w src) with
    | some m => !m.hasDefault
    | none => true

/-- Constants (as `getattr` sees them) that some base lists in its `_required`: the signatures of
    the bases do not carry them, they are added back -/
def inheritedRequiredConsts (w : World) (src : ClassSrc) : List String :=
  ((constantsOf (resolvedFields w src)).map (·.1)).filter fun n =>
    (baseDefs w src).any fun b => b.required.contains n

def requiredOf (w : World) (src : ClassSrc) : List String :=
  dedupStr (basesRequired w src ++ requiredEff w src ++ inheritedRequiredConsts w src)

/-- first class in the MRO tail that sets the attribute in its own `__dict__` -/
def inheritedOpt (w : World) (get : ClassDef → Option Bool) : List String → Option Bool
  | [] => none
  | n :: rest =>
    match (w.find n).bind get with
    | some b => some b
    | none => inheritedOpt w get rest

def sigOf (w : World) (src : ClassSrc) : Sig :=
  let names := (ownMembers src.entries).map (·.1)
  let consts := (constantsOf (resolvedFields w src)).map (·.1)
  let bp := (basesParams w src).map (·.1)
  let br := basesRequired w src
  let req := requiredEff w src
  { req := dedupStr (bp.filter (fun n => (req.contains n || br.contains n) && !consts.contains n)
                      ++ (names ++ bp).filter (fun n => !consts.contains n && req.contains n))
    opt := dedupStr (bp.filter (fun n => !req.contains n && !br.contains n && !consts.contains n)
                      ++ names.filter (fun n => !req.contains n && !consts.contains n))
    kwargs := (src.addl.orElse fun _ => inheritedOpt w (·.ownAddl) (mroTail w src)).getD true }

def mapperNames : List String := ["_serialization_mapper", "_deserialization_mapper"]

def isAttrEntry : SrcEntry → Bool
  | .attr _ => true
  | _ => false

/-- the mapper attributes written in the class body -/
def ownMappersOf (entries : List (String × SrcEntry)) : List String :=
  (entries.filter fun p => mapperNames.contains p.1 && isAttrEntry p.2).map (·.1)

def build (w : World) (src : ClassSrc) : ClassDef :=
  let tail := mroTail w src
  let all := allFieldsOf w src
  { name := src.name
    bases := src.bases
    mro := src.name :: tail
    own := ownMembers src.entries
    allFields := all
    required := requiredOf w src
    constants := constantsOf (resolvedFields w src)
    sig := sigOf w src
    ownAddl := src.addl
    ownIgnoreNone := src.ignoreNone
    ownImmutable := src.immutable
    ownMappers := ownMappersOf src.entries
    addl := (src.addl.orElse fun _ => inheritedOpt w (·.ownAddl) tail).getD true
    ignoreNoneAttr := src.ignoreNone.orElse fun _ => inheritedOpt w (·.ownIgnoreNone) tail
    immutable := (src.immutable.orElse fun _ => inheritedOpt w (·.ownImmutable) tail).getD false }

/-! ### the checks, in the code's order -/

def okU : R Unit := .ok ()

/-- result of a validation attempt as a check -/
def asCheck (r : R PyVal) : R Unit :=
  match r with
  | .ok _ => .ok ()
  | .error e => .error e

/-- `Field.__init__`: `if default: self._try_default_value(default() if callable …)` -/
def kwDefaultCheck (O : Oracles) : SrcEntry → R Unit
  | .field d (some kw) _ => if kw.truthy then asCheck (validate O d kw.value) else okU
  | _ => okU

def nameCheck (p : String × SrcEntry) : R Unit :=
  if (entryMember p.2).isSome && badFieldName p.1 then .error .valueErr else okU

def isBareType : AttrVal → Bool
  | .bareType => true
  | .generic => true
  | .union => true
  | _ => false

/-- "assigned a non-Typedpy type" -/
def nonTypedpyCheck (w : World) (p : String × SrcEntry) : R Unit :=
  match p.2 with
  | .attr a =>
    if !isSunder p.1 && !isDunder p.1 && isBareType a && w.blockNonTypedpy then .error .typeErr
    else okU
  | _ => okU

/-- `=` default of an annotated field whose `_default` is still falsy: a mutable literal is
    refused, anything else must validate -/
def eqDefaultCheck (O : Oracles) : SrcEntry → R Unit
  | .field d kw (some eq) =>
    if optTruthy kw then okU
    else if eq.isMutableLit then .error .valueErr
    else asCheck (validate O d eq.value)
  | _ => okU

def distinctStr : List String → Bool
  | [] => true
  | x :: xs => !xs.contains x && distinctStr xs

/-- `type.__new__`: "duplicate base class" / "Cannot create a consistent method resolution order" -/
def mroCheck (w : World) (src : ClassSrc) : R Unit :=
  if distinctStr src.bases && (mroOf w src).isSome then okU else .error .typeErr

def unknownBaseCheck (w : World) (src : ClassSrc) : R Unit :=
  if src.bases.all (fun b => (w.find b).isSome) && (baseDefs w src).any (·.isStruct) then okU
  else .error (.other "model-domain: unknown base / not a Structure class")

/-- strict subclass of FinalStructure / ImmutableStructure -/
def sealedCls (w : World) (n : String) : Bool :=
  match w.find n with
  | some c => c.isStruct && (c.mro.tail.contains "FinalStructure"
                              || c.mro.tail.contains "ImmutableStructure")
  | none => false

/-- `_check_for_final_violations(clsobj.mro())` -/
def finalCheck (w : World) (src : ClassSrc) : R Unit :=
  if (mroTail w src).any (sealedCls w) then .error .typeErr else okU

/-- `isinstance(const_val, (int, str, bool, enum.Enum, float))` -/
def constSupported : PyVal → Bool
  | .int _ => true
  | .str _ => true
  | .bool _ => true
  | .enumv _ _ => true
  | .float _ => true
  | _ => false

def constCheck (p : String × Member) : R Unit :=
  match p.2 with
  | .const v => if constSupported v then okU else .error .typeErr
  | _ => okU

/-- "optional cannot override prior required in the class or in a base class" -/
def optionalCheck (w : World) (src : ClassSrc) : R Unit :=
  if src.optional.any (fun f => (requiredEff w src).contains f || (basesRequired w src).contains f)
  then .error .valueErr else okU

def blockedAttr : AttrVal → Bool
  | .bool => true
  | .list => true
  | .dict => true
  | _ => false

/-- `_block_invalid_consts` -/
def blockConstCheck (w : World) (p : String × SrcEntry) : R Unit :=
  match p.2 with
  | .attr a =>
    if w.blockConsts && blockedAttr a && !knownAttrs.contains p.1 && !isDunder p.1
       && !isCustomAttr p.1 then .error .valueErr
    else okU
  | _ => okU

/-- `inspect.Signature(...)`: "duplicate parameter name" -/
def sigCheck (w : World) (src : ClassSrc) : R Unit :=
  if (sigOf w src).req.any (fun n => (sigOf w src).opt.contains n) then .error .valueErr else okU

/-- `@keys_of(E₁, …, Eₖ)`: the member names of *every* enum class must be field names (own or
    inherited), else "missing fields" -/
def keysOfCheck (w : World) (src : ClassSrc) : R Unit :=
  if src.keysOf.all (fun e => e.all fun n => ((allFieldsOf w src).map (·.1)).contains n) then okU
  else .error .typeErr

def checks (O : Oracles) (w : World) (src : ClassSrc) : List (R Unit) :=
  src.entries.map (fun p => kwDefaultCheck O p.2)
  ++ [unknownBaseCheck w src]
  ++ src.entries.map nameCheck
  ++ src.entries.map (nonTypedpyCheck w)
  ++ src.entries.map (fun p => eqDefaultCheck O p.2)
  ++ [mroCheck w src, finalCheck w src]
  ++ (resolvedFields w src).map constCheck
  ++ [optionalCheck w src]
  ++ src.entries.map (blockConstCheck w)
  ++ [sigCheck w src, keysOfCheck w src]

/-- the first failing check decides -/
def runChecks : List (R Unit) → R Unit
  | [] => .ok ()
  | c :: cs => bindE c fun _ => runChecks cs

/-- the class statement: an exception class, or the new class object -/
def defineClass (O : Oracles) (w : World) (src : ClassSrc) : R ClassDef :=
  bindE (runChecks (checks O w src)) fun _ => .ok (build w src)

/-- a plain Python mixin class (no typedpy attributes) -/
def mixinDef (name : String) : ClassDef :=
  { name, isStruct := false, mro := [name] }

/-! ### Field classes: subclassing an ImmutableField class is refused (FieldMeta.__new__) -/

structure FieldCls where
  name : String
  mro : List String
deriving Repr, Inhabited

def findFieldCls (n : String) : List FieldCls → Option FieldCls
  | [] => none
  | c :: cs => if c.name == n then some c else findFieldCls n cs

def sealedFieldCls (fw : List FieldCls) (n : String) : Bool :=
  match findFieldCls n fw with
  | some c => c.mro.tail.contains "ImmutableField"
  | none => false

/-- `class name(bases)` for Field classes -/
def defineFieldClass (fw : List FieldCls) (name : String) (bases : List String) : R FieldCls :=
  match c3 ((bases.filterMap fun b => (findFieldCls b fw).map (·.mro)) ++ [bases]) with
  | none => .error .typeErr
  | some tail => if tail.any (sealedFieldCls fw) then .error .typeErr else .ok { name, mro := name :: tail }

end Typedpy
