/-
  Sem/AliasC17.lean — heap-level model of `typedpy/serialization/versioned_mapping.py`
  (`_convert`, `convert_dict`) for C17 ("convert_dict leaves its input intact"), on the heap / ownership
  model of Sem/Alias.lean (C19).  Core Lean only; everything is executable and total.

  * A dict / list is a `Cell` (tag "dict" / "list", items keyed by key / by index string); scalars are
    `Item.atom` (collapsed).  Decisions that depend on scalar values are the parameters `Atoms`.
  * The three `copy.deepcopy` sites of the code take their `Mode` from `Sites`:
      `doc`   (S1) `mapped_dict = copy.deepcopy(the_dict)` in `convert_dict`,
      `step`  (S2) `out_dict = copy.deepcopy(mapped_dict)` in `_convert`,
      `const` (S3) `out_dict[k] = copy.deepcopy(v())` in the `Constant` branch.
    `.deep` = `Alias.deepCopy fuel`; `.alias` = hand on the same reference (what the code would do without
    the `copy.deepcopy`).  The table is regenerated from the source by `extract/aliasing_c17.py`.
  * `out_dict[k] = x` / `del out_dict[k]` are `Heap.write`s on the cell `out` refers to; `.get` is
    `Alias.lookupItem`.  `R α = Heap × Option α`, `none` = the operation raised (classes not modelled here).
  * A nested mapping is compiled into the heap transformer it denotes (`HCEntry.sub f`), which keeps all
    recursion structural (same trick as Sem/Convert.lean).
-/
import TypedpyModel.Sem.Alias
namespace Typedpy.AliasC17
open Typedpy.Alias

/-- the scalar-dependent decisions of the code -/
structure Atoms where
  /-- the atom standing for `None` (default of `.get`, of `deep_get`) -/
  none : Int
  /-- `content is None` on a scalar -/
  isNone : Int → Bool
  /-- Python truthiness of a scalar (`if d else default` in `deep_get`) -/
  truthyA : Int → Bool
  /-- `k in x` / `del x[k]` on something that is not a dict: `true` = the statement raises
      (`k in 5`, `del "abc"["b"]`), `false` = `k in x` is `False`, nothing happens -/
  delRaises : String → Heap → Item → Bool

/-- the regenerated site table: what the code does at its three copy sites -/
structure Sites where
  doc : Mode
  step : Mode
  const : Mode
  deriving DecidableEq, Repr, Inhabited

/-- all three copy sites copy (the hypothesis of the theorems of Lemmas/AliasC17.lean), as a `Bool` -/
def Sites.allCopy (S : Sites) : Bool := S.doc.copies && S.step.copies && S.const.copies

/-- sequencing of heap transformers (`none` = raised: the rest is skipped, the heap so far is kept) -/
def bindR {α β : Type} (r : R α) (k : Heap → α → R β) : R β :=
  match r with
  | (h, none) => (h, none)
  | (h, some a) => k h a

@[simp] theorem bindR_none {α β : Type} (h : Heap) (k : Heap → α → R β) : bindR (h, none) k = (h, none) := rfl
@[simp] theorem bindR_some {α β : Type} (h : Heap) (a : α) (k : Heap → α → R β) : bindR (h, some a) k = k h a := rfl

/-- a copy site -/
def copyAt (m : Mode) (fuel : Nat) (h : Heap) (i : Item) : R Item := leafAny m fuel h i

/-! ## dict primitives -/

/-- the items of the dict `d` refers to; `none` = not a dict (`.get`, item assignment raise) -/
def dictItems (h : Heap) : Item → Option (List (String × Item))
  | .atom _ => none
  | .ref a => if (h.cells a).tag = "dict" then some (h.cells a).items else none

def isListItem (h : Heap) : Item → Bool
  | .atom _ => false
  | .ref a => (h.cells a).tag == "list"

def isSeqItem (h : Heap) : Item → Bool
  | .atom _ => false
  | .ref a => (h.cells a).tag == "list" || (h.cells a).tag == "tuple"

def isNoneItem (A : Atoms) : Item → Bool
  | .atom v => A.isNone v
  | .ref _ => false

/-- `out[k] = x` -/
def hSet (h : Heap) (out : Item) (k : String) (x : Item) : R Unit :=
  match out with
  | .atom _ => (h, none)
  | .ref a =>
    if (h.cells a).tag = "dict" then (h.write a ⟨(h.cells a).tag, setItem k x (h.cells a).items⟩, some ())
    else (h, none)

/-- `d.get(k)` (default `None`) -/
def hGet (A : Atoms) (h : Heap) (d : Item) (k : String) : R Item :=
  match dictItems h d with
  | none => (h, none)
  | some its => (h, some ((lookupItem k its).getD (.atom A.none)))

/-- `if k in out: del out[k]` -/
def hDel (A : Atoms) (h : Heap) (out : Item) (k : String) : R Unit :=
  match out with
  | .atom _ => if A.delRaises k h out then (h, none) else (h, some ())
  | .ref a =>
    if (h.cells a).tag = "dict" then
      (h.write a ⟨(h.cells a).tag, (h.cells a).items.filter fun p => p.1 != k⟩, some ())
    else if A.delRaises k h out then (h, none) else (h, some ())

/-! ## `deep_get` (typedpy/commons.py), `default=None`, `do_flatten=False` -/

/-- Python truthiness of a value -/
def truthy (A : Atoms) (h : Heap) : Item → Bool
  | .atom v => A.truthyA v
  | .ref a => !(h.cells a).items.isEmpty

/-- the keys of a freshly built list: "0", "1", … -/
def reindexFrom : Nat → List (String × Item) → List (String × Item)
  | _, [] => []
  | n, (_, i) :: r => (toString n, i) :: reindexFrom (n + 1) r

/-- `_get_next_level(d, key, None)`: dict → `.get` (an EXISTING item); list / tuple → a NEW list of the
    per-element results over the non-`None` elements (`rec` = the recursive call, `none` = recursion limit);
    anything else → `None`.  Never writes an existing cell. -/
def getNextShape (A : Atoms) (rec : Option (Heap → Item → R Item)) (key : String) (h : Heap) (d : Item) : R Item :=
  match dictItems h d with
  | some its => (h, some ((lookupItem key its).getD (.atom A.none)))
  | none =>
    match d with
    | .atom _ => (h, some (.atom A.none))
    | .ref a =>
      if isSeqItem h d then
        match rec with
        | none => (h, none)
        | some f =>
          bindR (mapItems f h ((h.cells a).items.filter fun p => !isNoneItem A p.2)) fun h1 its =>
            allocLike h1 "list" (reindexFrom 0 its)
      else (h, some (.atom A.none))

def getNext (A : Atoms) : Nat → String → Heap → Item → R Item
  | 0, key, h, d => getNextShape A none key h d
  | n + 1, key, h, d => getNextShape A (some (getNext A n key)) key h d

/-- `deep_get(d, "k1.k2…")` on the already split path -/
def hDeepGet (A : Atoms) (fuel : Nat) : List String → Heap → Item → R Item
  | [], h, d => (h, some d)
  | key :: rest, h, d =>
    bindR (if truthy A h d then getNext A fuel key h d else (h, some (.atom A.none))) fun h1 d1 =>
      hDeepGet A fuel rest h1 d1

/-! ## mappings -/

/-- one value of a version mapping, at heap level.  `const c`: `c` is the item (atom, or reference to a cell
    that belongs to the mapping object) stored in the `Constant`; `sub` stands for the key
    `"<field>._mapper"` and is keyed by `<field>`; `move` carries the split source path; `fn f args` is a
    `FunctionCall` whose function is the heap transformer `f` (it receives references into `out_dict`). -/
inductive HEntry where
  | const (c : Item)
  | deleted
  | move (path : List String)
  | sub (m : List (String × HEntry))
  | fn (f : Heap → List Item → R Item) (args : List String)

abbrev HMapping := List (String × HEntry)

/-- a mapping whose nested mappings have been turned into the transformers they denote -/
inductive HCEntry where
  | const (c : Item)
  | deleted
  | move (path : List String)
  | sub (f : Heap → Item → R Item)
  | fn (f : Heap → List Item → R Item) (args : List String)

abbrev HCMapping := List (String × HCEntry)

/-- the `._mapper` branch once the content has been read: `None` is skipped, a list is converted
    element-wise into a NEW list cell, anything else is converted as a document -/
def hSub (A : Atoms) (f : Heap → Item → R Item) (k : String) (out : Item) (h : Heap) (content : Item) : R Unit :=
  if isNoneItem A content then (h, some ())
  else if isListItem h content then
    match content with
    | .atom _ => (h, some ())
    | .ref a =>
      bindR (mapItems f h (h.cells a).items) fun h1 its =>
        bindR (allocLike h1 "list" its) fun h2 l => hSet h2 out k l
  else bindR (f h content) fun h1 x => hSet h1 out k x

/-- `[out_dict.get(x) for x in args]` -/
def hArgs (A : Atoms) (args : List String) (h : Heap) (out : Item) : R (List Item) :=
  match dictItems h out with
  | none => (h, none)
  | some its => (h, some (args.map fun x => (lookupItem x its).getD (.atom A.none)))

/-- loop 1, one entry -/
def hStep1 (A : Atoms) (S : Sites) (fuel : Nat) (inp out : Item) (k : String) (e : HCEntry) (h : Heap) : R Unit :=
  match e with
  | .const c => bindR (copyAt S.const fuel h c) fun h1 x => hSet h1 out k x
  | .sub f =>
    match dictItems h inp with
    | none => (h, none)
    | some its =>
      match lookupItem k its with
      | none => (h, some ())
      | some content => hSub A f k out h content
  | .fn f args =>
    bindR (hArgs A (if args.isEmpty then [k] else args) h out) fun h1 xs =>
      bindR (f h1 xs) fun h2 r => hSet h2 out k r
  | .move _ => (h, some ())
  | .deleted => (h, some ())

/-- loop 2, one entry: `out[k] = deep_get(out, v)` -/
def hStep2 (A : Atoms) (fuel : Nat) (out : Item) (k : String) (e : HCEntry) (h : Heap) : R Unit :=
  match e with
  | .move p => bindR (hDeepGet A fuel p h out) fun h1 x => hSet h1 out k x
  | _ => (h, some ())

/-- loop 3, one entry -/
def hStep3 (A : Atoms) (out : Item) (k : String) (e : HCEntry) (h : Heap) : R Unit :=
  match e with
  | .deleted => hDel A h out k
  | _ => (h, some ())

/-- `for k, v in mapping.items(): step` -/
def hLoop (step : String → HCEntry → Heap → R Unit) : HCMapping → Heap → R Unit
  | [], h => (h, some ())
  | (k, e) :: r, h => bindR (step k e h) fun h1 _ => hLoop step r h1

/-- `_convert(mapped_dict, mapping)` for a mapping with resolved nested converters -/
def hConvShape (A : Atoms) (S : Sites) (fuel : Nat) (m : HCMapping) (h : Heap) (inp : Item) : R Item :=
  bindR (copyAt S.step fuel h inp) fun h1 out =>
    bindR (hLoop (hStep1 A S fuel inp out) m h1) fun h2 _ =>
      bindR (hLoop (hStep2 A fuel out) m h2) fun h3 _ =>
        bindR (hLoop (hStep3 A out) m h3) fun h4 _ => (h4, some out)

mutual
def HEntry.compile (A : Atoms) (S : Sites) (fuel : Nat) : HEntry → HCEntry
  | .const c => .const c
  | .deleted => .deleted
  | .move p => .move p
  | .fn f a => .fn f a
  | .sub m => .sub (hConvShape A S fuel (compileMap A S fuel m))
termination_by structural x => x
def compileMap (A : Atoms) (S : Sites) (fuel : Nat) : List (String × HEntry) → HCMapping
  | [] => []
  | (k, e) :: r => (k, e.compile A S fuel) :: compileMap A S fuel r
termination_by structural x => x
end

/-- `_convert(mapped_dict, mapping)` -/
def hConvert (A : Atoms) (S : Sites) (fuel : Nat) (m : HMapping) (h : Heap) (inp : Item) : R Item :=
  hConvShape A S fuel (compileMap A S fuel m) h inp

/-- the loop of `convert_dict` over the (already sliced) mappings; `ver i` = the atom written to
    `mapped_dict["version"]` after step `i` -/
def hRunSteps (A : Atoms) (S : Sites) (fuel : Nat) (ver : Nat → Int) : List HMapping → Nat → Heap → Item → R Item
  | [], _, h, d => (h, some d)
  | m :: ms, i, h, d =>
    bindR (hConvert A S fuel m h d) fun h1 d1 =>
      bindR (hSet h1 d1 "version" (.atom (ver i))) fun h2 _ => hRunSteps A S fuel ver ms (i + 1) h2 d1

/-- `convert_dict(the_dict, versions_mapping)` after slicing (`the_dict.get("version", 1)` raises on a non-dict) -/
def hConvertDict (A : Atoms) (S : Sites) (fuel : Nat) (ver : Nat → Int) (ms : List HMapping) (h : Heap)
    (doc : Item) : R Item :=
  match dictItems h doc with
  | none => (h, none)
  | some _ => bindR (copyAt S.doc fuel h doc) fun h1 d => hRunSteps A S fuel ver ms 0 h1 d

/-- roots of an item (as in Props/C19) -/
def roots : Item → List Nat
  | .ref a => [a]
  | .atom _ => []

/-! ## sample user functions (for `FunctionCall` entries in examples and in the driver) -/

/-- `lambda x, *_: x` — hands back (a reference to) its first argument -/
def fnIdent (A : Atoms) : Heap → List Item → R Item := fun h args => (h, some (args.headD (.atom A.none)))

/-- `lambda *xs: [*xs]` — builds a new list holding (references to) its arguments -/
def fnWrap : Heap → List Item → R Item :=
  fun h args => allocLike h "list" (reindexFrom 0 (args.map fun a => ("", a)))

/-- a function outside the capability discipline: it returns a global object (cell `g`) -/
def fnGlobal (g : Nat) : Heap → List Item → R Item := fun h _ => (h, some (.ref g))

end Typedpy.AliasC17
