/-
  Sem/StubText.lean — the TEXT of a generated `.pyi`: a typed AST of annotations, the token sequences the stub
  generator writes for the `__init__`, the three helper methods, attribute lines, class headers and for the
  methods / functions it re-renders from `inspect.signature`, and a recogniser of the Python subset they live in
  (a `def` header: parameter list with the ordering rules of Python signatures, annotation / default expressions).

  Generator side (typedpy/stubs):
    * `type_info_getter.get_all_type_info` (the `Optional[…] = None` wrapping)      → `fieldItem`
    * `methods_info_getter.get_init`                                                → `initToks`
    * `methods_info_getter.get_additional_structure_methods`                        → `helperToks`
    * `type_helpers.get_stubs_of_structures` (`class X(bases):`, `    name: type`)  → `classToks`, `attrToks`
    * `methods_info_getter._get_list_of_params_with_type` / `_get_method_code`      → `sigItems`, `methodToks`
  Python side (the language reference, "Function definitions", "Primaries", "Subscriptions", "List displays"):
    * `lexPy`      characters → tokens (names, literals, the punctuation that occurs in headers)
    * `splitParams` the parameter list cut at its top-level commas (bracket depth)
    * `classify`    one item: `/`, `*`, `*name[: e]`, `**name[: e]`, `name[: e][= e]`, `exprOk` for `e`
    * `orderItems`  the ordering rules: no parameter without default after one with default (before `*`), `/` once,
                    after a parameter and before `*`; one `*`/`*args`; a bare `*` needs a named parameter after it;
                    `**kw` last and without default
    * `parseDef`    `def NAME ( … ) [-> e] : ...` → name and `[name, kind, has default]` of every parameter
                    (the view `inspect.signature` / `ast.arguments` give)
  Expressions are the subset the generator can write: dotted names, `None`/`True`/`False`, `...`, literals,
  subscriptions `x[a, b]` (non-empty), list displays `[a, b]` (for `Callable[[a, b], r]`); no operators, calls,
  slices, starred items or parentheses (the harness corresponds the recogniser with CPython only inside this subset).
-/
import TypedpyModel.Sem.Stub
namespace Typedpy.StubText
open Typedpy.Stub

/-! ### tokens -/

inductive Tok where
  | name (s : String)
  /-- number or string literal -/
  | lit
  | lpar | rpar | lsq | rsq | comma | colon | eq | star | dstar | slash | dot | arrow | ellipsis
deriving Repr, DecidableEq, Inhabited

/-- Python's (hard) keywords -/
def keywords : List String :=
  ["False", "None", "True", "and", "as", "assert", "async", "await", "break", "class", "continue", "def", "del",
   "elif", "else", "except", "finally", "for", "from", "global", "if", "import", "in", "is", "lambda", "nonlocal",
   "not", "or", "pass", "raise", "return", "try", "while", "with", "yield"]

def isIdStart (c : Char) : Bool := c.isAlpha || c == '_' || c.toNat ≥ 128
def isIdChar (c : Char) : Bool := c.isAlphanum || c == '_' || c.toNat ≥ 128

def identChars : List Char → Bool
  | [] => false
  | c :: cs => isIdStart c && cs.all isIdChar

/-- a name that can be bound (parameter, attribute, class name): identifier, not a keyword -/
def identOk (s : String) : Bool := identChars s.toList && !keywords.contains s

/-- a name in operand position: identifier or one of the three constant keywords -/
def atomOk (s : String) : Bool := identOk s || s == "None" || s == "True" || s == "False"

/-! ### annotation AST and its tokens -/

inductive Ann where
  /-- dotted name `a.b.c` (also `None`, `Any`) -/
  | name (parts : List String)
  /-- `head[args]` -/
  | sub (head : List String) (args : List Ann)
  /-- list display `[a, b]` -/
  | lst (items : List Ann)
  | ellipsis
  | lit
deriving Repr, Inhabited

def dottedTail : List String → List Tok
  | [] => []
  | a :: rest => .dot :: .name a :: dottedTail rest

def dottedToks : List String → List Tok
  | [] => []
  | a :: rest => .name a :: dottedTail rest

mutual
def annToks : Ann → List Tok
  | .name ps => dottedToks ps
  | .sub h args => dottedToks h ++ (.lsq :: (annsToks args ++ [.rsq]))
  | .lst items => .lsq :: (annsToks items ++ [.rsq])
  | .ellipsis => [.ellipsis]
  | .lit => [.lit]
termination_by structural a => a
def annsToks : List Ann → List Tok
  | [] => []
  | a :: rest => annToks a ++ annsTail rest
termination_by structural as => as
def annsTail : List Ann → List Tok
  | [] => []
  | a :: rest => .comma :: (annToks a ++ annsTail rest)
termination_by structural as => as
end

def dottedOk : List String → Bool
  | [] => false
  | a :: rest => atomOk a && rest.all identOk

mutual
/-- well-formed: names are names, subscriptions have at least one argument -/
def Ann.wf : Ann → Bool
  | .name ps => dottedOk ps
  | .sub h args => dottedOk h && !args.isEmpty && Ann.wfL args
  | .lst items => Ann.wfL items
  | .ellipsis => true
  | .lit => true
termination_by structural a => a
def Ann.wfL : List Ann → Bool
  | [] => true
  | a :: rest => Ann.wf a && Ann.wfL rest
termination_by structural as => as
end

/-- `type_info_str.startswith("Optional[")` -/
def isOptHead : Ann → Bool
  | .sub ["Optional"] _ => true
  | _ => false

/-! ### expression recogniser (a bracket-stack machine over tokens) -/

inductive EPos where
  /-- an operand is expected; `canClose`: a `]` is legal here (empty list display / trailing comma) -/
  | operand (canClose : Bool)
  | afterOp
  | afterDot
deriving Repr, DecidableEq, Inhabited

/-- stack entry `true` = list display, `false` = subscription -/
abbrev ESt := List Bool × EPos

def stepE (st : ESt) (t : Tok) : Option ESt :=
  match st.2 with
  | .operand c =>
    match t with
    | .name s => if atomOk s then some (st.1, .afterOp) else none
    | .lit => some (st.1, .afterOp)
    | .ellipsis => some (st.1, .afterOp)
    | .lsq => some (true :: st.1, .operand true)
    | .rsq => if c then (match st.1 with | [] => none | _ :: rest => some (rest, .afterOp)) else none
    | _ => none
  | .afterOp =>
    match t with
    | .dot => some (st.1, .afterDot)
    | .lsq => some (false :: st.1, .operand false)
    | .comma => (match st.1 with | [] => none | _ :: _ => some (st.1, .operand true))
    | .rsq => (match st.1 with | [] => none | _ :: rest => some (rest, .afterOp))
    | _ => none
  | .afterDot =>
    match t with
    | .name s => if identOk s then some (st.1, .afterOp) else none
    | _ => none

def runE : ESt → List Tok → Option ESt
  | st, [] => some st
  | st, t :: ts => match stepE st t with
    | some st' => runE st' ts
    | none => none

/-- `ts` is one expression of the subset -/
def exprOk (ts : List Tok) : Bool :=
  match runE ([], .operand false) ts with
  | some ([], .afterOp) => true
  | _ => false

/-! ### the parameter list -/

inductive PKind where | po | pk | va | ko | vk
deriving Repr, DecidableEq, Inhabited

/-- what `inspect.signature` / `ast.arguments` say about a parameter -/
structure PInfo where
  name : String
  kind : PKind
  hasDefault : Bool
deriving Repr, DecidableEq, Inhabited

def isOpenTok (t : Tok) : Bool := t == .lsq || t == .lpar

/-- cut at the top-level commas up to the closing `)`: (items, what follows the `)`) -/
def splitGo : List Tok → Nat → List Tok → List (List Tok) → Option (List (List Tok) × List Tok)
  | [], _, _, _ => none
  | t :: ts, d, cur, acc =>
    if t = .comma then (if d = 0 then splitGo ts 0 [] (acc ++ [cur]) else splitGo ts d (cur ++ [t]) acc)
    else if isOpenTok t then splitGo ts (d + 1) (cur ++ [t]) acc
    else if t = .rsq then (if d = 0 then none else splitGo ts (d - 1) (cur ++ [t]) acc)
    else if t = .rpar then (if d = 0 then some (acc ++ [cur], ts) else splitGo ts (d - 1) (cur ++ [t]) acc)
    else splitGo ts d (cur ++ [t]) acc

def splitParams (ts : List Tok) : Option (List (List Tok) × List Tok) := splitGo ts 0 [] []

inductive Item where
  | slash | star
  | va (n : String) | vk (n : String)
  | param (n : String) (hasDefault : Bool)
deriving Repr, DecidableEq, Inhabited

/-- `[]` or `: e` -/
def annPartOk : List Tok → Bool
  | [] => true
  | .colon :: e => exprOk e
  | _ => false

/-- the tokens before the first `=` and, if there is one, those after it -/
def splitEq : List Tok → List Tok × Option (List Tok)
  | [] => ([], none)
  | t :: ts => if t = .eq then ([], some ts) else (t :: (splitEq ts).1, (splitEq ts).2)

def classify : List Tok → Option Item
  | [.slash] => some .slash
  | [.star] => some .star
  | .star :: .name n :: rest => if identOk n && annPartOk rest then some (.va n) else none
  | .dstar :: .name n :: rest => if identOk n && annPartOk rest then some (.vk n) else none
  | .name n :: rest =>
    if identOk n && annPartOk (splitEq rest).1 then
      (match (splitEq rest).2 with
       | none => some (.param n false)
       | some d => if exprOk d then some (.param n true) else none)
    else none
  | _ => none

def classifyAll : List (List Tok) → Option (List Item)
  | [] => some []
  | x :: xs => match classify x, classifyAll xs with
    | some i, some is => some (i :: is)
    | _, _ => none

/-- section of the parameter list -/
inductive Sect where
  /-- positional parameters, `/` not seen -/
  | p0
  /-- positional parameters after `/` -/
  | p1
  /-- after `*` / `*args`; `need`: a bare `*` still waits for its first named parameter -/
  | kw (need : Bool)
  /-- after `**kw` -/
  | done
deriving Repr, DecidableEq, Inhabited

def setPo (p : PInfo) : PInfo := { p with kind := .po }

/-- the ordering rules of Python signatures; `acc` is reversed -/
def orderGo : Sect → Bool → List PInfo → List Item → Option (List PInfo)
  | s, _, acc, [] => if s = .kw true then none else some acc.reverse
  | s, seenD, acc, it :: rest =>
    match it with
    | .param n d =>
      if s = .p0 ∨ s = .p1 then
        (if !d && seenD then none else orderGo s (seenD || d) (⟨n, .pk, d⟩ :: acc) rest)
      else if s = .done then none
      else orderGo (.kw false) seenD (⟨n, .ko, d⟩ :: acc) rest
    | .slash => if s = .p0 && !acc.isEmpty then orderGo .p1 seenD (acc.map setPo) rest else none
    | .star => if s = .p0 ∨ s = .p1 then orderGo (.kw true) seenD acc rest else none
    | .va n => if s = .p0 ∨ s = .p1 then orderGo (.kw false) seenD (⟨n, .va, false⟩ :: acc) rest else none
    | .vk n => if s = .done ∨ s = .kw true then none else orderGo .done seenD (⟨n, .vk, false⟩ :: acc) rest

def orderItems (items : List Item) : Option (List PInfo) := orderGo .p0 false [] items

/-- drop the empty item a trailing comma leaves -/
def dropTrailing : List (List Tok) → List (List Tok)
  | [] => []
  | [x] => [x]
  | x :: y :: rest => if (y :: rest).getLast? = some [] then x :: (y :: rest).dropLast else x :: y :: rest

/-- the parameter list between `(` and `)`, already cut into items -/
def parseItems (items : List (List Tok)) : Option (List PInfo) :=
  if items = [[]] then some []
  else match classifyAll (dropTrailing items) with
    | some is => orderItems is
    | none => none

structure DefInfo where
  name : String
  params : List PInfo
deriving Repr, DecidableEq, Inhabited

/-- what may follow the `)`: `: ...` or `-> e : ...` -/
def tailOk (ts : List Tok) : Bool :=
  match ts with
  | [.colon, .ellipsis] => true
  | .arrow :: rest =>
    (match rest.reverse with
     | .ellipsis :: .colon :: erev => exprOk erev.reverse
     | _ => false)
  | _ => false

/-- `def NAME ( parameters ) [-> e] : ...` -/
def parseDef : List Tok → Option DefInfo
  | .name "def" :: .name f :: .lpar :: rest =>
    if identOk f then
      match splitParams rest with
      | some (items, tail) =>
        if tailOk tail then (match parseItems items with
          | some ps => some ⟨f, ps⟩
          | none => none)
        else none
      | none => none
    else none
  | _ => none

/-- no two parameters share a name (checked by CPython's symbol table pass, i.e. by `compile`, not by `ast.parse`) -/
def dupFree : List String → Bool
  | [] => true
  | x :: xs => !xs.contains x && dupFree xs

/-- `class NAME :` / `class NAME ( e, … ) :` -/
def parseClass : List Tok → Option (String × Nat)
  | [.name "class", .name c, .colon] => if identOk c then some (c, 0) else none
  | .name "class" :: .name c :: .lpar :: rest =>
    if identOk c then
      match splitParams rest with
      | some (items, [.colon]) =>
        if items = [[]] then some (c, 0)
        else if (dropTrailing items).all exprOk then some (c, (dropTrailing items).length) else none
      | _ => none
    else none
  | _ => none

/-- `name: e` / `name: e = e` (an annotated assignment of the class body; same shape as a parameter) -/
def parseAttr (ts : List Tok) : Option (String × Bool) :=
  match ts with
  | .name n :: .colon :: _ => (match classify ts with
    | some (.param _ d) => some (n, d)
    | _ => none)
  | _ => none

/-! ### lexer (characters → tokens) -/

inductive LSt where
  | idle
  | ident (rev : List Char)
  | num
  | str (q : Char) (esc : Bool)
  | dots (n : Nat)
  | minus
  | star
deriving Repr, Inhabited

def isSpace (c : Char) : Bool := c == ' ' || c == '\n' || c == '\t' || c == '\r'

def punct (c : Char) : Option Tok :=
  if c == '(' then some .lpar else if c == ')' then some .rpar else if c == '[' then some .lsq
  else if c == ']' then some .rsq else if c == ',' then some .comma else if c == ':' then some .colon
  else if c == '=' then some .eq else if c == '/' then some .slash else none

/-- close the pending token of state `st` (tokens accumulate reversed) -/
def flush (st : LSt) (acc : List Tok) : Option (List Tok) :=
  match st with
  | .idle => some acc
  | .ident rev => some (.name (String.ofList rev.reverse) :: acc)
  | .num => some (.lit :: acc)
  | .str _ _ => none
  | .dots 1 => some (.dot :: acc)
  | .dots 3 => some (.ellipsis :: acc)
  | .dots _ => none
  | .minus => none
  | .star => some (.star :: acc)

/-- start a token with `c` from the idle state -/
def startTok (c : Char) (acc : List Tok) : Option (LSt × List Tok) :=
  if isSpace c then some (.idle, acc)
  else if isIdStart c then some (.ident [c], acc)
  else if c.isDigit then some (.num, acc)
  else if c == '\'' || c == '"' then some (.str c false, acc)
  else if c == '.' then some (.dots 1, acc)
  else if c == '-' then some (.minus, acc)
  else if c == '*' then some (.star, acc)
  else match punct c with
    | some t => some (.idle, t :: acc)
    | none => none

def lexGo : List Char → LSt → List Tok → Option (List Tok)
  | [], st, acc => (flush st acc).map List.reverse
  | c :: cs, st, acc =>
    match st with
    | .idle => (match startTok c acc with | some (st', acc') => lexGo cs st' acc' | none => none)
    | .ident rev =>
      if isIdChar c then lexGo cs (.ident (c :: rev)) acc
      else (match startTok c (.name (String.ofList rev.reverse) :: acc) with
            | some (st', acc') => lexGo cs st' acc' | none => none)
    | .num =>
      if c.isAlphanum || c == '.' || c == '_' then lexGo cs .num acc
      else (match startTok c (.lit :: acc) with | some (st', acc') => lexGo cs st' acc' | none => none)
    | .str q esc =>
      if esc then lexGo cs (.str q false) acc
      else if c == '\\' then lexGo cs (.str q true) acc
      else if c == q then lexGo cs .idle (.lit :: acc)
      else if c == '\n' then none
      else lexGo cs (.str q false) acc
    | .dots n =>
      if c == '.' then lexGo cs (.dots (n + 1)) acc
      else (match flush (.dots n) acc with
            | some acc1 => (match startTok c acc1 with | some (st', acc') => lexGo cs st' acc' | none => none)
            | none => none)
    | .minus => if c == '>' then lexGo cs .idle (.arrow :: acc) else none
    | .star =>
      if c == '*' then lexGo cs .idle (.dstar :: acc)
      else (match startTok c (.star :: acc) with | some (st', acc') => lexGo cs st' acc' | none => none)

def lexPy (s : String) : Option (List Tok) := lexGo s.toList .idle []

/-! ### printing tokens (canonical spacing) -/

def tokText : Tok → String
  | .name s => s
  | .lit => "0"
  | .lpar => "(" | .rpar => ")" | .lsq => "[" | .rsq => "]" | .comma => "," | .colon => ":" | .eq => "="
  | .star => "*" | .dstar => "**" | .slash => "/" | .dot => "." | .arrow => "->" | .ellipsis => "..."

/-- tokens separated by one blank each (always re-lexes to the same tokens) -/
def toksText (ts : List Tok) : String := " ".intercalate (ts.map tokText)

/-! ### what the generator writes -/

def joinTail : List (List Tok) → List Tok
  | [] => []
  | y :: rest => .comma :: (y ++ joinTail rest)

/-- `", ".join(items)` -/
def joinComma : List (List Tok) → List Tok
  | [] => []
  | x :: rest => x ++ joinTail rest

def noneDefault : List Tok := [.eq, .name "None"]

/-- `get_all_type_info` + `f"{k}: {v}"`: the parameter of one field in `__init__`; `a` is what `get_type_info`
    rendered for the field, `hasDefault` = the name is not in `_required` -/
def fieldItem (a : Ann) (p : Param) : List Tok :=
  .name p.name :: .colon ::
    (if p.hasDefault then
      (if isOptHead a then annToks a ++ noneDefault else annToks (.sub ["Optional"] [a]) ++ noneDefault)
     else annToks a)

/-- the same parameter in a helper method: `v if v.endswith("= None") else f"{v} = None"` -/
def helperItem (a : Ann) (p : Param) : List Tok :=
  if p.hasDefault then fieldItem a p else .name p.name :: .colon :: (annToks a ++ noneDefault)

/-- `_var_keyword_name`: the var-keyword of the generated methods is called `kwargs` when a field is called `kw`
    (since the repair of "uncompilable-stub:parameter-name-clash") -/
def kwName (ps : List Param) : String := if ps.any (fun p => p.name == "kw") then "kwargs" else "kw"

def kwItem (n : String) : List Tok := [.dstar, .name n]


def defToks (f : String) (items : List (List Tok)) : List Tok :=
  .name "def" :: .name f :: .lpar :: (joinComma items ++ [.rpar, .colon, .ellipsis])

/-- `get_init` -/
def initToks (anns : String → Ann) (s : Sig) : List Tok :=
  defToks "__init__" ([[.name "self"]] ++ s.params.map (fun p => fieldItem (anns p.name) p)
    ++ (if s.kw then [kwItem (kwName s.params)] else []))

def anyAnn : Ann := .name ["Any"]
def iterStrAnn : Ann := .sub ["Iterable"] [.name ["str"]]

def helperName : Helper → String
  | .shallowClone => "shallow_clone_with_overrides"
  | .fromOtherClass => "from_other_class"
  | .fromTrustedData => "from_trusted_data"

/-- the fixed leading items of the three helper methods -/
def helperLead : Helper → List (List Tok)
  | .shallowClone => [[.name "self"]]
  | .fromOtherClass =>
    [[.name "cls"], .name "source_object" :: .colon :: annToks anyAnn, [.star],
     .name "ignore_props" :: .colon :: (annToks iterStrAnn ++ noneDefault)]
  | .fromTrustedData =>
    [[.name "cls"], .name "source_object" :: .colon :: (annToks anyAnn ++ noneDefault), [.star],
     .name "ignore_props" :: .colon :: (annToks iterStrAnn ++ noneDefault)]

/-- the field keywords of a helper method: a field called like one of the fixed parameters of the two classmethods
    cannot be passed as an override at run time (the name binds to the fixed parameter) and is left out -/
def helperFields : Helper → List Param → List Param := helperKeep

/-- `get_additional_structure_methods`; `s` is the `__init__` signature (`stubInit`) -/
def helperToks (anns : String → Ann) (h : Helper) (s : Sig) : List Tok :=
  defToks (helperName h) (helperLead h ++ (helperFields h s.params).map (fun p => helperItem (anns p.name) p)
    ++ (if s.kw then [kwItem (kwName s.params)] else []))

/-- `    {field_name}: {type_name}` -/
def attrToks (a : Ann) (p : Param) : List Tok := fieldItem a p

/-- `class X(bases):` with the bases as rendered names (`_get_bases_for_structure` appends `Structure`) -/
def classToks (c : String) (bases : List (List String)) : List Tok :=
  if bases.isEmpty then [.name "class", .name c, .colon]
  else .name "class" :: .name c :: .lpar :: (joinComma (bases.map dottedToks) ++ [.rpar, .colon])

/-- the names are bindable identifiers and the annotations are well-formed -/
def textDomain (anns : String → Ann) (ps : List Param) : Bool :=
  ps.all (fun p => identOk p.name && (anns p.name).wf)

/-! ### methods and functions re-rendered from `inspect.signature` (`_get_list_of_params_with_type`) -/

/-- one parameter as `inspect.signature` reports it, with the annotation / default the generator will print -/
structure RParam where
  name : String
  kind : PKind
  ann : Option Ann := none
  /-- `""`, `" = None"` or `" = <class name>"` -/
  dflt : Option Ann := none
deriving Repr, Inhabited

def RParam.info (p : RParam) : PInfo := ⟨p.name, p.kind, p.dflt.isSome⟩

/-- `: annotation` or nothing -/
def annPart : Option Ann → List Tok
  | some a => .colon :: annToks a
  | none => []

/-- ` = default` or nothing -/
def dfltPart : Option Ann → List Tok
  | some d => .eq :: annToks d
  | none => []

/-- `get_optional_globe`: `*` / `**` -/
def kindPrefix : PKind → List Tok
  | .va => [.star]
  | .vk => [.dstar]
  | _ => []

/-- `f"{get_optional_globe(v)}{p}{type_annotation}{default}"` -/
def rparamToks (p : RParam) : List Tok :=
  kindPrefix p.kind ++ (.name p.name :: (annPart p.ann ++ dfltPart p.dflt))

/-- the loop of `_get_list_of_params_with_type`: `pending` = `pending_positional_only`,
    `found` = `found_last_positional` -/
def sigItemsGo : Bool → Bool → List RParam → List (List Tok)
  | pending, _, [] => if pending then [[.slash]] else []
  | pending, found, p :: rest =>
    let slashNow := pending && p.kind != .po
    let pending' := p.kind == .po
    let found1 := found || p.kind == .va
    let starNow := p.kind == .ko && !found1
    (if slashNow then [[.slash]] else []) ++ (if starNow then [[.star]] else []) ++
      (rparamToks p :: sigItemsGo pending' (found1 || starNow) rest)

def sigItems (ps : List RParam) : List (List Tok) := sigItemsGo false false ps

/-- ` -> annotation` or nothing -/
def retPart : Option Ann → List Tok
  | some r => .arrow :: annToks r
  | none => []

/-- `def {name}({params}){return_annotations}: ...` -/
def methodToks (f : String) (ps : List RParam) (ret : Option Ann) : List Tok :=
  .name "def" :: .name f :: .lpar :: (joinComma (sigItems ps) ++ (.rpar :: (retPart ret ++ [.colon, .ellipsis])))

/-! ### `get_type_info` for the field kinds whose rendering nests other renderings -/

/-- the shape of a field as `get_type_info` dispatches on it: `AnyOf/OneOf/AllOf` with exactly two options the second
    of which is a `NoneField` (`opt`), any other `AnyOf/OneOf/AllOf` (`union`), `Map` with item fields (`map`), and
    everything else as the annotation it renders to (`leaf`: a module attribute's name, an enum class, the python type
    of a scalar field, a typing generic, `dict` for a Map without items …) -/
inductive FTy where
  | leaf (a : Ann)
  | opt (x : FTy)
  | union (xs : List FTy)
  | map (xs : List FTy)
deriving Repr, Inhabited

mutual
/-- `get_type_info` / `_get_anyof_typing`: never a default inside an annotation (fix 08ea09e) -/
def typeInfo : FTy → Ann
  | .leaf a => a
  | .opt x => .sub ["Optional"] [typeInfo x]
  | .union xs => .sub ["Union"] (typeInfoL xs)
  | .map xs => .sub ["dict"] (typeInfoL xs)
termination_by structural t => t
def typeInfoL : List FTy → List Ann
  | [] => []
  | x :: rest => typeInfo x :: typeInfoL rest
termination_by structural ts => ts
end

mutual
def FTy.wf : FTy → Bool
  | .leaf a => a.wf
  | .opt x => FTy.wf x
  | .union xs => !xs.isEmpty && FTy.wfL xs
  | .map xs => !xs.isEmpty && FTy.wfL xs
termination_by structural t => t
def FTy.wfL : List FTy → Bool
  | [] => true
  | x :: rest => FTy.wf x && FTy.wfL rest
termination_by structural ts => ts
end

/-! ### legal `inspect.Signature` parameter lists -/

def optWf : Option Ann → Bool
  | some a => a.wf
  | none => true

/-- phases of a legal `inspect.Signature` parameter list -/
inductive VPhase where
  /-- nothing yet -/
  | po0
  /-- only positional-only parameters so far (at least one) -/
  | po1
  | pk
  /-- after `*args` or a keyword-only parameter -/
  | ko
  | done
deriving Repr, DecidableEq

/-- what `inspect.Signature.__init__` enforces: kinds in order, no parameter without default after one with
    default among the positional ones, no default on `*args` / `**kw` -/
def validGo : VPhase → Bool → List RParam → Bool
  | _, _, [] => true
  | ph, seenD, p :: rest =>
    match p.kind with
    | .po => (ph = .po0 || ph = .po1) && !(!p.dflt.isSome && seenD) && validGo .po1 (seenD || p.dflt.isSome) rest
    | .pk => (ph = .po0 || ph = .po1 || ph = .pk) && !(!p.dflt.isSome && seenD) &&
               validGo .pk (seenD || p.dflt.isSome) rest
    | .va => (ph = .po0 || ph = .po1 || ph = .pk) && p.dflt.isNone && validGo .ko seenD rest
    | .ko => (ph != .done) && validGo .ko seenD rest
    | .vk => (ph != .done) && p.dflt.isNone && validGo .done seenD rest

def validSig (ps : List RParam) : Bool := validGo .po0 false ps

/-- names are bindable, annotations / defaults are expressions of the subset -/
def rparamOk (p : RParam) : Bool := identOk p.name && optWf p.ann && optWf p.dflt

/-- `*args` / `**kw` never carry a default in a signature -/
def noVarDefault (p : RParam) : Bool :=
  match p.kind with
  | .va => p.dflt.isNone
  | .vk => p.dflt.isNone
  | _ => true

end Typedpy.StubText
