/-
  Sem/Schema.lean — executable model of the code → schema direction of
  `typedpy/json_schema/json_schema_mapping.py` as it is today (including its defects):
  `structure_to_schema`, `_generate_schema_for_fields_internal`, `convert_to_schema`,
  `_map_class_reference` and the `to_schema` of every per-field mapper.

  * Schemas and `definitions` are raw JSON values (the JSON subset of `PyVal`: `.dict` with `.str`
    keys, `.list`, `.str`, `.int`, `.float`, `.bool`, `.none`), exactly what the Python functions
    return, so an ill-formed emission (e.g. `patternProperties: <value schema>`) is representable.
  * `emit fx f` = `convert_to_schema(f)`; `fx = false` is typedpy's dialect (`multiplesOf`,
    list-valued `not`), `fx = true` the same emission with the two draft-4 spellings.
    `dialectFix` is the schema-position-aware two-rule rewrite the property statement allows;
    `Lemmas/SchemaDialect.lean` proves `dialectFix (emit false f) = emit true f` for every
    declaration.
  * `raises f` = the mapping raises (`NotImplementedError` for Deque / Anything / NoneField,
    `TypeError` for a non-String map key or a non-scalar enum literal).
  * `defsAcc` threads the `definitions_schema` dict in the code's write order
    (`definitions[name] = …` after the nested call).
  A key-renaming serialization mapper is modelled at the top-level class only (`classSchemaM`).
-/
import TypedpyModel.Core.Field
namespace Typedpy.Sch
open Typedpy

/-! ### raw JSON objects -/

def kw (k : String) (v : PyVal) : PyVal × PyVal := (.str k, v)

def optKw (k : String) : Option PyVal → List (PyVal × PyVal)
  | none => []
  | some v => [kw k v]

def keyIs (k : String) : PyVal → Bool
  | .str s => s == k
  | _ => false

/-- `d.get(k)` on a JSON object (first entry wins) -/
def getKw (k : String) : List (PyVal × PyVal) → Option PyVal
  | [] => none
  | (k', v) :: rest => if keyIs k k' then some v else getKw k rest

/-- `d[k] = v`: in place when the key exists, appended otherwise -/
def setKw (k : String) (v : PyVal) : List (PyVal × PyVal) → List (PyVal × PyVal)
  | [] => [kw k v]
  | (k', v') :: rest => if keyIs k k' then (k', v) :: rest else (k', v') :: setKw k v rest

/-- a number as Python writes it into the schema: compared by value, so integral values are
    normalised to `int` -/
def numJ (q : Q) : PyVal := if q.den == 1 then .int q.num else .float q
def natJ (n : Nat) : PyVal := .int (Int.ofNat n)

/-! ### per-field mappers (`to_schema`) -/

/-- the double `0.000001` of `NumberMapper.to_schema`, as the exact rational it denotes -/
def tiny : Q := ⟨4722366482869645, 4722366482869645213696⟩
def negTiny : Q := ⟨-4722366482869645, 4722366482869645213696⟩

/-- `get_min`: the declared minimum, else the bound implied by the sign class -/
def effMin (isInt : Bool) (o : NumOpts) : Option Q :=
  match o.min with
  | some m => some m
  | none => match o.sign with
    | .nonneg => some (Q.ofInt 0)
    | .pos => some (if isInt then Q.ofInt 1 else tiny)
    | _ => none

/-- `get_max` -/
def effMax (isInt : Bool) (o : NumOpts) : Option Q :=
  match o.max with
  | some m => some m
  | none => match o.sign with
    | .nonpos => some (Q.ofInt 0)
    | .neg => some (if isInt then Q.ofInt (-1) else negTiny)
    | _ => none

def multKey (fx : Bool) : String := if fx then "multipleOf" else "multiplesOf"

/-- `exclusiveMaximum` is emitted only together with a declared `maximum` (the runtime ignores the
    flag otherwise) -/
def exclEff (o : NumOpts) : Bool := o.exclMax && o.max.isSome

/-- `abs(value.multiplesOf)` -/
def absJ (m : Int) : PyVal := .int (Int.ofNat m.natAbs)

/-- `NumberMapper.to_schema` / `IntegerMapper.to_schema` (entries that are `None` are dropped) -/
def numKws (fx : Bool) (ty : String) (isInt : Bool) (o : NumOpts) : List (PyVal × PyVal) :=
  [kw "type" (.str ty)]
  ++ optKw (multKey fx) (o.mult.map absJ)
  ++ optKw "minimum" ((effMin isInt o).map numJ)
  ++ optKw "maximum" ((effMax isInt o).map numJ)
  ++ optKw "exclusiveMaximum" (if exclEff o then some (.bool true) else none)

/-- `StringMapper.to_schema` -/
def strKws (lo hi : Option Nat) (pat : Option String) : List (PyVal × PyVal) :=
  [kw "type" (.str "string")]
  ++ optKw "minLength" (lo.map natJ)
  ++ optKw "maxLength" (hi.map natJ)
  ++ optKw "pattern" (pat.map PyVal.str)

/-- `ArrayMapper.to_schema`, the `Array` branch -/
def arrKws (sz : SizeOpts) (addl : Option PyVal) (items : Option PyVal) : List (PyVal × PyVal) :=
  [kw "type" (.str "array")]
  ++ optKw "uniqueItems" (if sz.uniq then some (.bool true) else none)
  ++ optKw "additionalItems" addl
  ++ optKw "maxItems" (sz.max.map natJ)
  ++ optKw "minItems" (sz.min.map natJ)
  ++ optKw "items" items

/-- the `Set` branch: `uniqueItems: True` always -/
def setKws (sz : SizeOpts) (items : Option PyVal) : List (PyVal × PyVal) :=
  [kw "type" (.str "array"), kw "uniqueItems" (.bool true)]
  ++ optKw "maxItems" (sz.max.map natJ)
  ++ optKw "minItems" (sz.min.map natJ)
  ++ optKw "items" items

/-- the positional `Tuple` branch (two or more item fields): `additionalItems: False` always,
    `items` a list; `Tuple[X]` (one item field) goes through `arrKws` with `items: X` -/
def tupKws (uniq : Bool) (items : List PyVal) : List (PyVal × PyVal) :=
  [kw "type" (.str "array")]
  ++ optKw "uniqueItems" (if uniq then some (.bool true) else none)
  ++ [kw "additionalItems" (.bool false), kw "items" (.list items)]

def natTruthy : Option Nat → Bool
  | some n => n != 0
  | none => false
def natOrEmpty : Option Nat → String
  | some n => if n != 0 then toString n else ""
  | none => ""

/-- `pattern_props = f"{keys.pattern or ''}{suffix}" or None` of `MapMapper.to_schema`, where
    `suffix = "{min, max}"` when `maxLength or minLength` -/
def mapKeyPattern (k : FieldDecl) : String :=
  match k with
  | .string lo hi pat =>
    (pat.getD "")
      ++ (if natTruthy hi || natTruthy lo then "{" ++ natOrEmpty lo ++ ", " ++ natOrEmpty hi ++ "}" else "")
  | _ => ""

def isStringField : FieldDecl → Bool
  | .string _ _ _ => true
  | _ => false

/-- `MapMapper.to_schema`: `patternProperties: {<key pattern>: <value schema>}` when the key field
    is constrained, `additionalProperties: <value schema>` otherwise; the sizes are emitted as
    `maxProperties` / `minProperties` -/
def mapKws (key : Option FieldDecl) (valSchema : Option PyVal) (sz : SizeOpts) : List (PyVal × PyVal) :=
  [kw "type" (.str "object")]
  ++ (match key, valSchema with
      | some k, some vs =>
        if mapKeyPattern k != "" then [kw "patternProperties" (.dict [kw (mapKeyPattern k) vs])]
        else [kw "additionalProperties" vs]
      | _, _ => [])
  ++ optKw "maxProperties" (sz.max.map natJ)
  ++ optKw "minProperties" (sz.min.map natJ)

/-- an enum literal that is a JSON scalar other than null: an int, str or float (`True` / `False` are
    ints) -/
def enumScalar : PyVal → Bool
  | .str _ | .int _ | .float _ | .bool _ => true
  | _ => false

/-- `EnumMapper.to_schema.adjust` raises TypeError unless the literal is an int, str, float or None
    (None is JSON null, a legal enum member) -/
def enumValOk : PyVal → Bool
  | .none => true
  | v => enumScalar v

def refTo (name : String) : PyVal := .dict [kw "$ref" (.str ("#/definitions/" ++ name))]

/-- typedpy's `not: [a, b, …]`, or after the dialect fix `not: {anyOf: [a, b, …]}` -/
def notVal (fx : Bool) (ss : List PyVal) : PyVal :=
  if fx then .dict [kw "anyOf" (.list ss)] else .list ss

/-- `AnyOfMapper.to_schema`: `AnyOf[X, None]` is mapped to the schema of `X` -/
def anyOfShape (fs : List FieldDecl) (ss : List PyVal) : PyVal :=
  match fs, ss with
  | [_, .noneF], [s, _] => s
  | _, _ => .dict [kw "anyOf" (.list ss)]

/-! ### class level (`structure_to_schema`) -/

def sameSet (a b : List String) : Bool := a.all b.contains && b.all a.contains

/-- `len(field_by_name) == 1 and set(required) == set(field_by_name) and additional_props is False`:
    the "field wrapper" form — the schema of the class is the schema of its only field -/
def collapses (c : ClassOpts) (names : List String) : Bool :=
  names.length == 1 && sameSet c.required names && !c.addl

mutual
/-- the value written under `default`: its JSON form, i.e. what the Serializer writes for it (an enum
    member by its name, a set / tuple / list as an array of the elements' forms, a dict value-wise);
    anything else (a Decimal, an instance, …) is left as it is — then the schema is not JSON -/
def defaultJ : PyVal → PyVal
  | .enumv _ n => .str n
  | .list xs => .list (defaultJL xs)
  | .tuple xs => .list (defaultJL xs)
  | .set _ xs => .list (defaultJL xs)
  | .dict kvs => .dict (defaultJP kvs)
  | v => v
termination_by structural v => v
def defaultJL : List PyVal → List PyVal
  | [] => []
  | x :: xs => defaultJ x :: defaultJL xs
termination_by structural xs => xs
def defaultJP : List (PyVal × PyVal) → List (PyVal × PyVal)
  | [] => []
  | (k, v) :: rest => (k, defaultJ v) :: defaultJP rest
termination_by structural kvs => kvs
end

/-- `sub_schema["default"] = default_val` -/
def addDefault (s : PyVal) (d : Option PyVal) : PyVal :=
  match d with
  | none => s
  | some v => (match s with
    | .dict kvs => .dict (setKw "default" (defaultJ v) kvs)
    | other => other)

/-- `_generate_schema_for_fields_internal`: one property per field, with its default -/
def propsOf (defaults : List (String × PyVal)) : List (String × PyVal) → List (PyVal × PyVal)
  | [] => []
  | (n, s) :: rest => kw n (addDefault s (lookup n defaults)) :: propsOf defaults rest

/-- the emitted `required`: `_required` plus every field that has a default (the code sorts the
    list; the comparison is up to order) -/
def schemaRequired (c : ClassOpts) (defaults : List (String × PyVal)) : List String :=
  c.required ++ (defaults.map (·.1)).filter (fun n => !c.required.contains n)

def classObj (c : ClassOpts) (defaults : List (String × PyVal)) (fields : List (String × PyVal)) : PyVal :=
  .dict [kw "type" (.str "object"),
         kw "properties" (.dict (propsOf defaults fields)),
         kw "required" (.list ((schemaRequired c defaults).map PyVal.str)),
         kw "additionalProperties" (.bool c.addl)]

/-- `StructureReferenceMapper.to_schema`: `schema["type"] = "object"` -/
def retype : PyVal → PyVal
  | .dict kvs => .dict (setKw "type" (.str "object") kvs)
  | other => other

/-- `structure_to_schema(cls)` at top level (`allow_field_wrapper=True`) given the schemas of the
    fields (in `get_all_fields_by_name` order); nested structures use `classObj` directly -/
def structShape (c : ClassOpts) (defaults : List (String × PyVal)) (fields : List (String × PyVal)) : PyVal :=
  if collapses c (fields.map (·.1)) then
    (match fields with
     | (_, s) :: _ => s
     | [] => .none)
  else classObj c defaults fields

def isNoneF : FieldDecl → Bool
  | .noneF => true
  | _ => false

/-- `len(fields) == 2 and fields[1].__class__ == NoneField` (with a first option that is not itself
    a NoneField) -/
def optShape : List FieldDecl → Bool
  | [f, .noneF] => !isNoneF f
  | _ => false

/-- `AnyOf[X, None]` (`Optional[X]`) -/
def isOptional : FieldDecl → Bool
  | .anyOf fs => optShape fs
  | _ => false

def nullSchema : PyVal := .dict [kw "type" (.str "null")]

/-- `_element_schema`: the schema of a field in ELEMENT position (array / tuple / set item, map value).
    There an `Optional[X]` holding None is serialized as null (at class level a None attribute is not
    serialized), so null is admitted next to X -/
def elemWrap (f : FieldDecl) (s : PyVal) : PyVal :=
  if isOptional f then (match s with
    | .dict kvs => .dict [kw "anyOf" (.list [.dict kvs, nullSchema])]
    | other => other)
  else s

mutual
/-- `convert_to_schema(field)` -/
def emit (fx : Bool) : FieldDecl → PyVal
  | .number o => .dict (numKws fx "number" false o)
  | .integer o => .dict (numKws fx "integer" true o)
  | .float o => .dict (numKws fx "number" false o)
  | .string lo hi p => .dict (strKws lo hi p)
  | .boolean => .dict [kw "type" (.str "boolean")]
  | .enumLit vs => .dict [kw "enum" (.list vs)]
  | .enumCls _ names => .dict [kw "enum" (.list (names.map PyVal.str))]
  | .seqAny _ sz => .dict (arrKws sz none none)
  | .seqOf _ f sz => .dict (arrKws sz none (some (elemWrap f (emit fx f))))
  | .seqPos _ fs addl sz =>
    .dict (arrKws sz (if addl then none else some (.bool false)) (some (.list (emitLW fx fs))))
  | .setAny _ sz => .dict (setKws sz none)
  | .setOf _ f sz => .dict (setKws sz (some (elemWrap f (emit fx f))))
  | .tupleOf f u => .dict (arrKws { uniq := u } none (some (elemWrap f (emit fx f))))
  | .tuplePos fs u => .dict (tupKws u (emitLW fx fs))
  | .mapAny sz => .dict (mapKws none none sz)
  | .mapOf k v sz => .dict (mapKws (some k) (some (elemWrap v (emit fx v))) sz)
  | .struct c fields defaults =>
    -- a nested structure is always exported as an object (`allow_field_wrapper=False`)
    if c.inline then retype (classObj c defaults (emitP fx fields)) else refTo c.name
  | .anyOf fs => anyOfShape fs (emitL fx fs)
  | .oneOf fs => .dict [kw "oneOf" (.list (emitL fx fs))]
  | .allOf fs => .dict [kw "allOf" (.list (emitL fx fs))]
  | .notF fs => .dict [kw "not" (notVal fx (emitL fx fs))]
  | .noneF => .none
  | .anything => .none
termination_by structural f => f
def emitL (fx : Bool) : List FieldDecl → List PyVal
  | [] => []
  | f :: fs => emit fx f :: emitL fx fs
termination_by structural fs => fs
/-- the schemas of positional items (element position) -/
def emitLW (fx : Bool) : List FieldDecl → List PyVal
  | [] => []
  | f :: fs => elemWrap f (emit fx f) :: emitLW fx fs
termination_by structural fs => fs
def emitP (fx : Bool) : List (String × FieldDecl) → List (String × PyVal)
  | [] => []
  | (n, f) :: ps => (n, emit fx f) :: emitP fx ps
termination_by structural ps => ps
end

mutual
/-- the mapping raises for this field -/
def raises : FieldDecl → Bool
  | .enumLit vs => !vs.all enumValOk
  | .seqAny k _ => k == .deque
  | .seqOf k f _ => k == .deque || raises f
  | .seqPos k fs _ _ => k == .deque || raisesL fs
  | .setOf _ f _ => raises f
  | .tupleOf f _ => raises f
  | .tuplePos fs _ => raisesL fs
  | .mapOf k v _ => !isStringField k || raises v
  | .struct _ fields _ => raisesP fields
  | .anyOf fs => if optShape fs then raisesOpt fs else raisesL fs
  | .oneOf fs => raisesL fs
  | .allOf fs => raisesL fs
  | .notF fs => raisesL fs
  | .noneF => true
  | .anything => true
  | _ => false
termination_by structural f => f
def raisesL : List FieldDecl → Bool
  | [] => false
  | f :: fs => raises f || raisesL fs
termination_by structural fs => fs
/-- as `raisesL`, skipping `NoneField` entries (which `AnyOf[X, None]` never converts) -/
def raisesOpt : List FieldDecl → Bool
  | [] => false
  | f :: fs => (!isNoneF f && raises f) || raisesOpt fs
termination_by structural fs => fs
def raisesP : List (String × FieldDecl) → Bool
  | [] => false
  | (_, f) :: ps => raises f || raisesP ps
termination_by structural ps => ps
end

/-- `structure_to_schema(cls, {})[0]` -/
def classSchema (fx : Bool) : FieldDecl → PyVal
  | .struct c fields defaults => structShape c defaults (emitP fx fields)
  | _ => .none

/-! ### a key-renaming `_serialization_mapper` on the top-level class

  `km` is the string-valued part of the aggregated mapper restricted to renames of the class's own
  keys (`mapper[key]` when it is a `str`): for one dict mapper `d` that is `d.get(key, key)`
  (Sem/Mappers.lean proves the aggregate pointwise for mapper lists).  `<field>._mapper` entries,
  `DoNotSerialize`, `FunctionCall`, `Constant` and the case converters are not modelled here. -/

abbrev KeyMap := List (String × String)

/-- `mapper[key] if key in mapper and isinstance(mapper[key], str) else key` -/
def mapName (km : KeyMap) (n : String) : String := (lookup n km).getD n

/-- `declared_required.index(a)` -/
def indexOfS (a : String) : List String → Option Nat
  | [] => none
  | x :: xs => if x == a then some 0 else (indexOfS a xs).map (· + 1)

/-- `required[i] = b` -/
def setAt (b : String) : Nat → List String → List String
  | _, [] => []
  | 0, _ :: xs => b :: xs
  | i + 1, x :: xs => x :: setAt b i xs

/-- the walk over the fields: which entry is renamed is decided on the DECLARED names (a snapshot taken
    before any renaming); a field with a default is appended under its mapped key -/
def requiredMGo (km : KeyMap) (defaults : List (String × PyVal)) (declared : List String) :
    List String → List String → List String
  | [], req => req
  | n :: ns, req =>
    let req1 := match indexOfS n declared with
      | some i => setAt (mapName km n) i req
      | none => req
    let req2 := if (lookup n defaults).isSome && !req1.contains (mapName km n) then req1 ++ [mapName km n] else req1
    requiredMGo km defaults declared ns req2

/-- the `required` list after `_generate_schema_for_fields_internal` -/
def requiredM (km : KeyMap) (defaults : List (String × PyVal)) (names req : List String) : List String :=
  requiredMGo km defaults req names req

/-- `properties[mapped_key] = sub_schema`, one entry per field (mapped keys that collide overwrite
    each other in the code: outside the model, the correspondence run skips such classes) -/
def propsOfM (km : KeyMap) (defaults : List (String × PyVal)) : List (String × PyVal) → List (PyVal × PyVal)
  | [] => []
  | (n, s) :: rest => kw (mapName km n) (addDefault s (lookup n defaults)) :: propsOfM km defaults rest

def classObjM (km : KeyMap) (c : ClassOpts) (defaults : List (String × PyVal)) (fields : List (String × PyVal)) : PyVal :=
  .dict [kw "type" (.str "object"),
         kw "properties" (.dict (propsOfM km defaults fields)),
         kw "required" (.list ((requiredM km defaults (fields.map (·.1)) c.required).map PyVal.str)),
         kw "additionalProperties" (.bool c.addl)]

/-- `structure_to_schema(cls, {})[0]` for a class with key map `km` (the field-wrapper form does not
    look at the mapper) -/
def classSchemaM (fx : Bool) (km : KeyMap) : FieldDecl → PyVal
  | .struct c fields defaults =>
    if collapses c (fields.map (·.1)) then
      (match emitP fx fields with
       | (_, s) :: _ => s
       | [] => .none)
    else classObjM km c defaults (emitP fx fields)
  | _ => .none

/-- `serialize_internal` with the key map: every attribute under its mapped key -/
def renameKeys (km : KeyMap) : List (PyVal × PyVal) → List (PyVal × PyVal)
  | [] => []
  | (k, v) :: rest => ((match k with | .str n => PyVal.str (mapName km n) | o => o), v) :: renameKeys km rest

def renameDoc (km : KeyMap) : PyVal → PyVal
  | .dict kvs => .dict (renameKeys km kvs)
  | o => o

abbrev Defs := List (String × PyVal)

mutual
/-- the `definitions_schema` dict after converting the field, in the code's write order -/
def defsAcc (fx : Bool) : FieldDecl → Defs → Defs
  | .seqOf _ f _, D => defsAcc fx f D
  | .seqPos _ fs _ _, D => defsAccL fx fs D
  | .setOf _ f _, D => defsAcc fx f D
  | .tupleOf f _, D => defsAcc fx f D
  | .tuplePos fs _, D => defsAccL fx fs D
  | .mapOf _ v _, D => defsAcc fx v D
  | .struct c fields defaults, D =>
    if c.inline then defsAccP fx fields D
    else assocSet c.name (classObj c defaults (emitP fx fields)) (defsAccP fx fields D)
  | .anyOf fs, D => defsAccL fx fs D
  | .oneOf fs, D => defsAccL fx fs D
  | .allOf fs, D => defsAccL fx fs D
  | .notF fs, D => defsAccL fx fs D
  | _, D => D
termination_by structural f _ => f
def defsAccL (fx : Bool) : List FieldDecl → Defs → Defs
  | [], D => D
  | f :: fs, D => defsAccL fx fs (defsAcc fx f D)
termination_by structural fs _ => fs
def defsAccP (fx : Bool) : List (String × FieldDecl) → Defs → Defs
  | [], D => D
  | (_, f) :: ps, D => defsAccP fx ps (defsAcc fx f D)
termination_by structural ps _ => ps
end

/-- `structure_to_schema(cls, {})[1]` -/
def classDefs (fx : Bool) : FieldDecl → Defs
  | .struct _ fields _ => defsAccP fx fields []
  | _ => []

/-- `structure_to_schema(cls, {})` in typedpy's dialect -/
def toSchema (cls : FieldDecl) : PyVal × Defs := (classSchema false cls, classDefs false cls)

/-! ### the dialect rewrite the property statement allows

  `multiplesOf` → `multipleOf`, list-valued `not: [a, b, …]` → `not: {anyOf: [a, b, …]}`, applied at
  schema positions only (property names, enum members and defaults are left alone). -/

mutual
def dialectFix : PyVal → PyVal
  | .dict kvs => .dict (fixKws kvs)
  | other => other
termination_by structural s => s
/-- the keywords of one schema object (the keyword value is rewritten by a per-position function, so
    that every equation of `fixKws` is unconditional) -/
def fixKws : List (PyVal × PyVal) → List (PyVal × PyVal)
  | [] => []
  | (k, v) :: rest =>
    (if keyIs "multiplesOf" k then (PyVal.str "multipleOf", v)
     else if keyIs "not" k then (k, fixNotV v)
     else if keyIs "items" k then (k, fixItemsV v)
     else if keyIs "allOf" k || keyIs "anyOf" k || keyIs "oneOf" k then (k, fixListV v)
     else if keyIs "properties" k || keyIs "patternProperties" k || keyIs "definitions" k then (k, fixPropsV v)
     else if keyIs "additionalProperties" k || keyIs "additionalItems" k then (k, dialectFix v)
     else (k, v)) :: fixKws rest
termination_by structural kvs => kvs
/-- the value of `not`: typedpy's list becomes `{anyOf: [...]}` -/
def fixNotV : PyVal → PyVal
  | .list ss => .dict [kw "anyOf" (.list (fixList ss))]
  | .dict kvs => .dict (fixKws kvs)
  | other => other
termination_by structural v => v
/-- the value of `items`: one schema or a list of schemas -/
def fixItemsV : PyVal → PyVal
  | .list ss => .list (fixList ss)
  | .dict kvs => .dict (fixKws kvs)
  | other => other
termination_by structural v => v
/-- the value of `allOf` / `anyOf` / `oneOf` -/
def fixListV : PyVal → PyVal
  | .list ss => .list (fixList ss)
  | other => other
termination_by structural v => v
/-- the value of `properties` / `patternProperties` / `definitions` -/
def fixPropsV : PyVal → PyVal
  | .dict ps => .dict (fixProps ps)
  | other => other
termination_by structural v => v
def fixList : List PyVal → List PyVal
  | [] => []
  | s :: ss => dialectFix s :: fixList ss
termination_by structural ss => ss
/-- a name → schema map -/
def fixProps : List (PyVal × PyVal) → List (PyVal × PyVal)
  | [] => []
  | (k, v) :: rest => (k, dialectFix v) :: fixProps rest
termination_by structural ps => ps
end

def fixDefs : Defs → Defs
  | [] => []
  | (n, s) :: rest => (n, dialectFix s) :: fixDefs rest

/-- the `$ref` strings of the definitions: `#/definitions/<name>` ↦ schema -/
def ptrDefs : Defs → Defs
  | [] => []
  | (n, s) :: rest => ("#/definitions/" ++ n, s) :: ptrDefs rest

end Typedpy.Sch
