/-
  Sem/Mutate.lean — the mutation state machine of a Structure instance:
  attribute assignment (`Structure.__setattr__` + `Field.__set__`), item deletion
  (`Structure.__delitem__`), and every mutating method / operator of the typed collection wrappers
  (`_ListStruct`, `_DictStruct`, `_DequeStruct`, collections_impl.py), interpreted from the
  per-method records that extract/wrappers.py regenerates from the working tree.
-/
import TypedpyModel.Sem.Validate
import TypedpyModel.Sem.Native
import TypedpyModel.Core.Tables
namespace Typedpy

inductive MErr where
  | typeErr | valueErr | both | indexErr | keyErr
  | other (name : String)
deriving Repr, DecidableEq, Inhabited

def MErr.ofErrCls : ErrCls → MErr
  | .typeErr => .typeErr | .valueErr => .valueErr | .both => .both | .other n => .other n

def MErr.ofNErr : NErr → MErr
  | .indexErr => .indexErr | .keyErr => .keyErr | .valueErr => .valueErr | .typeErr => .typeErr

inductive Outcome where
  | ok
  | err (e : MErr)
deriving Repr, DecidableEq, Inhabited

inductive Op where
  /-- `x.f = v` -/
  | setattr (f : String) (v : PyVal)
  /-- `del x[f]` -/
  | delitem (f : String)
  /-- `x.f.<m>(args)` on the wrapper of an Array / Map / Deque field (re-fetched through `x`) -/
  | call (f : String) (m : NOp)
  /-- `x.f[k].<m>(args)` on a typed wrapper nested one level inside the field value -/
  | callNested (f : String) (k : PyVal) (m : NOp)
deriving Repr, Inhabited

abbrev Attrs := List (String × PyVal)

/-- native base type of the wrapper a field's value is stored in -/
def wrapperKind : FieldDecl → Option String
  | .seqAny .list _ | .seqOf .list _ _ | .seqPos .list _ _ _ => some "list"
  | .seqAny .deque _ | .seqOf .deque _ _ | .seqPos .deque _ _ _ => some "deque"
  | .mapAny _ | .mapOf _ _ _ => some "dict"
  | _ => none

/-- the wrapper a field's CURRENT value is stored in: for `AnyOf` / `Optional` it is the wrapper built
    by the option that holds the value (the first option accepting it), bound - like any other
    wrapper - to the instance and to the `AnyOf` field itself -/
def wrapperKindAt (O : Oracles) (fd : FieldDecl) (cur : PyVal) : Option String :=
  match fd with
  | .anyOf fs =>
    (fs.find? (fun f => match validate O f cur with | .ok _ => true | .error _ => false)).bind wrapperKind
  | _ => wrapperKind fd

/-- apply a native mutator to the payload of a wrapper value -/
def applyNative (kind : String) (m : NOp) (cur : PyVal) : Except NErr PyVal :=
  match cur with
  | .list xs => if kind == "list" then (nativeSeq false m xs).map .list else .error .typeErr
  | .deque xs => if kind == "deque" then (nativeSeq true m xs).map .deque else .error .typeErr
  | .dict kvs => if kind == "dict" then (nativeDict m kvs).map .dict else .error .typeErr
  | _ => .error .typeErr

/-- `Structure.__setattr__` followed by `Field.__set__` on an instantiated instance -/
def setattrStep (O : Oracles) (c : ClassOpts) (fields : List (String × FieldDecl)) (s : Attrs)
    (f : String) (v : PyVal) : Attrs × Outcome :=
  if c.immutable then (s, .err .valueErr)
  else match lookup f fields with
    | none =>
      if !c.addl then (s, .err .valueErr)
      else if v.isNone && c.ignoreNone then (s, .ok)
      else (assocSet f v s, .ok)
    | some fd =>
      if v.isNone && c.ignoreNone && !c.required.contains f then (s, .ok)
      else match validate O fd v with
        | .error e => (s, .err (MErr.ofErrCls e))
        | .ok v' =>
          -- `Field.__set__` (reached after the field's own validation) refuses an immutable
          -- field that is already set
          if c.immFields.contains f && (lookup f s).isSome then (s, .err .valueErr)
          -- the class's `__validate__` hook sees the new state; when it raises the assignment is
          -- rolled back (the hooks of the correspondence suite raise ValueError)
          else if O.hookOk (assocSet f v' s) then (assocSet f v' s, .ok)
          else (s, .err .valueErr)

/-- `Structure.__delitem__` -/
def delitemStep (c : ClassOpts) (s : Attrs) (f : String) : Attrs × Outcome :=
  if c.immutable then (s, .err .valueErr)
  else if c.immFields.contains f then (s, .err .valueErr)
  else if c.required.contains f then (s, .err .valueErr)
  else if (lookup f s).isNone then (s, .err .keyErr)
  else (assocDel f s, .ok)

/-- a mutating wrapper method called on the value of field `f`, from its table record -/
def callStep (O : Oracles) (c : ClassOpts) (fields : List (String × FieldDecl)) (s : Attrs)
    (f : String) (kind : String) (r : MethodRec) (m : NOp) (cur : PyVal) : Attrs × Outcome :=
  if r.guarded && (c.immutable || c.immFields.contains f) then (s, .err .valueErr)
  else match applyNative kind m cur with
    | .error e => (s, .err (MErr.ofNErr e))
    | .ok new =>
      if r.validated then
        -- the natively mutated copy goes through a validated assignment; an immutable *field*
        -- (not structure) can be re-assigned by its own wrapper only through this path
        (if c.immFields.contains f then (s, .err .valueErr) else setattrStep O c fields s f new)
      else if !r.overridden || r.superCall then (assocSet f new s, .ok)   -- in place, unvalidated
      else (s, .ok)

/-- element `k` of a sequence / map payload -/
def elemAt (cur : PyVal) (k : PyVal) : Option PyVal :=
  match cur with
  | .list xs | .deque xs => (intOf k).bind (fun i => (normIndex xs.length i).bind (fun j => xs[j]?))
  | .dict kvs => dictGet k kvs
  | _ => none

def setElemAt (cur : PyVal) (k : PyVal) (v : PyVal) : PyVal :=
  match cur with
  | .list xs => match (intOf k).bind (normIndex xs.length) with
    | some j => .list (setAt xs j v) | none => cur
  | .deque xs => match (intOf k).bind (normIndex xs.length) with
    | some j => .deque (setAt xs j v) | none => cur
  | .dict kvs => .dict (dictSetN k v kvs)
  | _ => cur

/-- declaration of element `k` of a collection field -/
def elemDecl (fd : FieldDecl) (k : PyVal) : Option FieldDecl :=
  match fd with
  | .seqOf _ item _ => some item
  | .seqPos _ items _ _ => (intOf k).bind (fun i => if i < 0 then none else items[i.toNat]?)
  | .mapOf _ vf _ => some vf
  | _ => none

/-- a wrapper nested inside another collection is bound to the scratch structure used while its
    parent was validated: its "validated assignment" goes nowhere; only an in-place native call
    (`super().<m>` or an inherited mutator) acts, unvalidated -/
def nestedStep (c : ClassOpts) (s : Attrs) (f : String) (k : PyVal) (kind : String) (r : MethodRec)
    (m : NOp) (cur elem : PyVal) : Attrs × Outcome :=
  if r.guarded && c.immFields.contains f then (s, .err .valueErr)
  else match applyNative kind m elem with
    | .error e => (s, .err (MErr.ofNErr e))
    | .ok new =>
      -- an immutable structure hands out a defensive copy of the nested wrapper
      if c.immutable then (s, .ok)
      else if !r.overridden || r.superCall then (assocSet f (setElemAt cur k new) s, .ok)
      else (s, .ok)

def step (tbl : List MethodRec) (O : Oracles) (c : ClassOpts) (fields : List (String × FieldDecl))
    (s : Attrs) : Op → Attrs × Outcome
  | .setattr f v => setattrStep O c fields s f v
  | .delitem f => delitemStep c s f
  | .call f m =>
    match lookup f fields, lookup f s with
    | some fd, some cur =>
      (match wrapperKindAt O fd cur with
        | none => (s, .err (.other "AttributeError"))
        | some kind => match findRec tbl kind m.name with
          | none => (s, .err (.other "AttributeError"))
          | some r => callStep O c fields s f kind r m cur)
    | _, _ => (s, .err (.other "AttributeError"))
  | .callNested f k m =>
    match lookup f fields, lookup f s with
    | some fd, some cur =>
      (match elemDecl fd k, elemAt cur k with
        | some ed, some elem =>
          (match wrapperKind ed with
            | none => (s, .err (.other "AttributeError"))
            | some kind => match findRec tbl kind m.name with
              | none => (s, .err (.other "AttributeError"))
              | some r => nestedStep c s f k kind r m cur elem)
        | _, _ => (s, .err (match cur with | .dict _ => .keyErr | _ => .indexErr)))
    | _, _ => (s, .err (.other "AttributeError"))

/-- run a history of operations; the outcomes are collected, failed ones included -/
def run (tbl : List MethodRec) (O : Oracles) (c : ClassOpts) (fields : List (String × FieldDecl)) :
    Attrs → List Op → Attrs × List Outcome
  | s, [] => (s, [])
  | s, op :: rest =>
    let r := step tbl O c fields s op
    let t := run tbl O c fields r.1 rest
    (t.1, r.2 :: t.2)

end Typedpy
