/-
  Sem/Mutate.lean — the mutation state machine of a Structure instance:
  attribute assignment (`Structure.__setattr__` + `Field.__set__`), item deletion
  (`Structure.__delitem__`), and every mutating method / operator of the typed collection wrappers
  (`_ListStruct`, `_DictStruct`, `_DequeStruct`, collections_impl.py), interpreted from the
  per-method records that extract/wrappers.py regenerates from the working tree.
-/
import TypedpyModel.Sem.Validate
import TypedpyModel.Sem.Native
import TypedpyModel.Core.Tables
namespace Typedpy

inductive MErr where
  | typeErr | valueErr | both | indexErr | keyErr
  | other (name : String)
deriving Repr, DecidableEq, Inhabited

def MErr.ofErrCls : ErrCls → MErr
  | .typeErr => .typeErr | .valueErr => .valueErr | .both => .both | .other n => .other n

def MErr.ofNErr : NErr → MErr
  | .indexErr => .indexErr | .keyErr => .keyErr | .valueErr => .valueErr | .typeErr => .typeErr

inductive Outcome where
  | ok
  | err (e : MErr)
deriving Repr, DecidableEq, Inhabited

inductive Op where
  /-- `x.f = v` -/
  | setattr (f : String) (v : PyVal)
  /-- `del x[f]` -/
  | delitem (f : String)
  /-- `x.f.<m>(args)` on the wrapper of an Array / Map / Deque field (re-fetched through `x`) -/
  | call (f : String) (m : NOp)
  /-- `x.f[k].<m>(args)` on a typed wrapper nested one level inside the field value -/
  | callNested (f : String) (k : PyVal) (m : NOp)
deriving Repr, Inhabited

abbrev Attrs := List (String × PyVal)

/-- native base type of the wrapper a field's value is stored in -/
def wrapperKind : FieldDecl → Option String
  | .seqAny .list _ | .seqOf .list _ _ | .seqPos .list _ _ _ => some "list"
  | .seqAny .deque _ | .seqOf .deque _ _ | .seqPos .deque _ _ _ => some "deque"
  | .mapAny _ | .mapOf _ _ _ => some "dict"
  | _ => none

/-- the wrapper a field's CURRENT value is stored in: for `AnyOf` / `Optional` it is the wrapper built
    by the option that holds the value (the first option accepting it), bound - like any other
    wrapper - to the instance and to the `AnyOf` field itself -/
def wrapperKindAt (O : Oracles) (fd : FieldDecl) (cur : PyVal) : Option String :=
  match fd with
  | .anyOf fs =>
    (fs.find? (fun f => match validate O f cur with | .ok _ => true | .error _ => false)).bind wrapperKind
  | _ => wrapperKind fd

/-- apply a native mutator to the payload of a wrapper value -/
def applyNative (kind : String) (m : NOp) (cur : PyVal) : Except NErr PyVal :=
  match cur with
  | .list xs => if kind == "list" then (nativeSeq false m xs).map .list else .error .typeErr
  | .deque xs => if kind == "deque" then (nativeSeq true m xs).map .deque else .error .typeErr
  | .dict kvs => if kind == "dict" then (nativeDict m kvs).map .dict else .error .typeErr
  | _ => .error .typeErr

/-- `Structure.__setattr__` followed by `Field.__set__` on an instantiated instance -/
def setattrStep (O : Oracles) (c : ClassOpts) (fields : List (String × FieldDecl)) (s : Attrs)
    (f : String) (v : PyVal) : Attrs × Outcome :=
  if c.immutable then (s, .err .valueErr)
  else match lookup f fields with
    | none =>
      if !c.addl then (s, .err .valueErr)
      else if v.isNone && c.ignoreNone then (s, .ok)
      else (assocSet f v s, .ok)
    | some fd =>
      if v.isNone && c.ignoreNone && !c.required.contains f then (s, .ok)
      else match validate O fd v with
        | .error e => (s, .err (MErr.ofErrCls e))
        | .ok v' =>
          -- `Field.__set__` (reached after the field's own validation) refuses an immutable
          -- field that is already set
          if c.immFields.contains f && (lookup f s).isSome then (s, .err .valueErr)
          -- the class's `__validate__` hook sees the new state; when it raises the assignment is
          -- rolled back (the hooks of the correspondence suite raise ValueError)
          else if O.hookOk (assocSet f v' s) then (assocSet f v' s, .ok)
          else (s, .err .valueErr)

/-- `Structure.__delitem__` -/
def delitemStep (c : ClassOpts) (s : Attrs) (f : String) : Attrs × Outcome :=
  if c.immutable then (s, .err .valueErr)
  else if c.immFields.contains f then (s, .err .valueErr)
  else if c.required.contains f then (s, .err .valueErr)
  else if (lookup f s).isNone then (s, .err .keyErr)
  else (assocDel f s, .ok)

/-- a mutating wrapper method called on the value of field `f`, from its table record -/
def callStep (O : Oracles) (c : ClassOpts) (fields : List (String × FieldDecl)) (s : Attrs)
    (f : String) (kind : String) (r : MethodRec) (m : NOp) (cur : PyVal) : Attrs × Outcome :=
  if r.guarded && (c.immutable || c.immFields.contains f) then (s, .err .valueErr)
  else match applyNative kind m cur with
    | .error e => (s, .err (MErr.ofNErr e))
    | .ok new =>
      if r.validated then
        -- the natively mutated copy goes through a validated assignment; an immutable *field*
        -- (not structure) can be re-assigned by its own wrapper only through this path
        (if c.immFields.contains f then (s, .err .valueErr) else setattrStep O c fields s f new)
      else if !r.overridden || r.superCall then (assocSet f new s, .ok)   -- in place, unvalidated
      else (s, .ok)

/-- element `k` of a sequence / map payload (one level) -/
def elemAt1 (cur : PyVal) (k : PyVal) : Option PyVal :=
  match cur with
  | .list xs | .deque xs => (intOf k).bind (fun i => (normIndex xs.length i).bind (fun j => xs[j]?))
  | .dict kvs => dictGet k kvs
  | _ => none

def setElemAt1 (cur : PyVal) (k : PyVal) (v : PyVal) : PyVal :=
  match cur with
  | .list xs => match (intOf k).bind (normIndex xs.length) with
    | some j => .list (setAt xs j v) | none => cur
  | .deque xs => match (intOf k).bind (normIndex xs.length) with
    | some j => .deque (setAt xs j v) | none => cur
  | .dict kvs => .dict (dictSetN k v kvs)
  | _ => cur

/-- declaration of element `k` of a collection field (one level) -/
def elemDecl1 (fd : FieldDecl) (k : PyVal) : Option FieldDecl :=
  match fd with
  | .seqOf _ item _ => some item
  | .seqPos _ items _ _ => (intOf k).bind (fun i => if i < 0 then none else items[i.toNat]?)
  | .mapOf _ vf _ => some vf
  | _ => none

/-! A nested wrapper at depth >= 2 (`x.f[i][j].append(v)`) is addressed by a PATH of keys; on the wire
    and in `Op.callNested` the path is the key `.list [k₁, k₂, …]` (a list is never a valid index or a
    hashable map key, so the encoding is unambiguous). -/

def elemAtPath : PyVal → List PyVal → Option PyVal
  | cur, [] => some cur
  | cur, k :: ks => (elemAt1 cur k).bind (fun e => elemAtPath e ks)

def setElemAtPath : PyVal → List PyVal → PyVal → PyVal
  | _, [], v => v
  | cur, k :: ks, v => match elemAt1 cur k with
    | some e => setElemAt1 cur k (setElemAtPath e ks v)
    | none => cur

def elemDeclPath : FieldDecl → List PyVal → Option FieldDecl
  | fd, [] => some fd
  | fd, k :: ks => (elemDecl1 fd k).bind (fun d => elemDeclPath d ks)

/-- the error of `cur[k]` when there is no such element: KeyError for a map, for a sequence
    IndexError (an integer out of range) or TypeError (not an integer) -/
def lookupErr1 (cur : PyVal) (k : PyVal) : MErr :=
  match cur with
  | .dict _ => .keyErr
  | _ => if (intOf k).isSome then .indexErr else .typeErr

/-- … along a path: the error of the first lookup that fails -/
def lookupErrPath : PyVal → List PyVal → MErr
  | _, [] => .indexErr
  | cur, k :: ks => match elemAt1 cur k with
    | some e => lookupErrPath e ks
    | none => lookupErr1 cur k

def elemAt (cur : PyVal) (k : PyVal) : Option PyVal :=
  match k with
  | .list ks => elemAtPath cur ks
  | _ => elemAt1 cur k

def setElemAt (cur : PyVal) (k : PyVal) (v : PyVal) : PyVal :=
  match k with
  | .list ks => setElemAtPath cur ks v
  | _ => setElemAt1 cur k v

def elemDecl (fd : FieldDecl) (k : PyVal) : Option FieldDecl :=
  match k with
  | .list ks => elemDeclPath fd ks
  | _ => elemDecl1 fd k

/-- the error of a nested lookup that finds no element -/
def lookupErr (cur : PyVal) (k : PyVal) : MErr :=
  match k with
  | .list ks => lookupErrPath cur ks
  | _ => lookupErr1 cur k

/-- a wrapper nested inside another collection is bound to the scratch structure used while its
    parent was validated: its "validated assignment" goes nowhere; only an in-place native call
    (`super().<m>` or an inherited mutator) acts, unvalidated -/
def nestedStep (c : ClassOpts) (s : Attrs) (f : String) (k : PyVal) (kind : String) (r : MethodRec)
    (m : NOp) (cur elem : PyVal) : Attrs × Outcome :=
  if r.guarded && c.immFields.contains f then (s, .err .valueErr)
  else match applyNative kind m elem with
    | .error e => (s, .err (MErr.ofNErr e))
    | .ok new =>
      -- an immutable structure hands out a defensive copy of the nested wrapper
      if c.immutable then (s, .ok)
      else if !r.overridden || r.superCall then (assocSet f (setElemAt cur k new) s, .ok)
      else (s, .ok)

def step (tbl : List MethodRec) (O : Oracles) (c : ClassOpts) (fields : List (String × FieldDecl))
    (s : Attrs) : Op → Attrs × Outcome
  | .setattr f v => setattrStep O c fields s f v
  | .delitem f => delitemStep c s f
  | .call f m =>
    match lookup f fields, lookup f s with
    | some fd, some cur =>
      (match wrapperKindAt O fd cur with
        | none => (s, .err (.other "AttributeError"))
        | some kind => match findRec tbl kind m.name with
          | none => (s, .err (.other "AttributeError"))
          | some r => callStep O c fields s f kind r m cur)
    | _, _ => (s, .err (.other "AttributeError"))
  | .callNested f k m =>
    match lookup f fields, lookup f s with
    | some fd, some cur =>
      (match elemDecl fd k, elemAt cur k with
        | some ed, some elem =>
          (match wrapperKind ed with
            | none => (s, .err (.other "AttributeError"))
            | some kind => match findRec tbl kind m.name with
              | none => (s, .err (.other "AttributeError"))
              | some r => nestedStep c s f k kind r m cur elem)
        | _, _ => (s, .err (lookupErr cur k)))
    | _, _ => (s, .err (.other "AttributeError"))

/-- run a history of operations; the outcomes are collected, failed ones included -/
def run (tbl : List MethodRec) (O : Oracles) (c : ClassOpts) (fields : List (String × FieldDecl)) :
    Attrs → List Op → Attrs × List Outcome
  | s, [] => (s, [])
  | s, op :: rest =>
    let r := step tbl O c fields s op
    let t := run tbl O c fields r.1 rest
    (t.1, r.2 :: t.2)

/-! ### nested wrappers bound to their parent (the proposed repair of `unvalidated:nested-*`)

  `bound = false` is the code as it is today (`nestedStep`: the nested wrapper belongs to the scratch
  structure its parent was validated on).  `bound = true` is the code after
  proposed_fixes/C03-nested-wrapper-binding.diff: the mutated copy of the element replaces the element
  in a copy of the parent's payload, and that goes through the parent's validated assignment; the
  nested wrapper reads immutability from the real owner.  Which of the two the working tree
  implements is probed by extract/wrappers.py (`Generated.nestedBound`). -/

def nestedBoundStep (O : Oracles) (c : ClassOpts) (fields : List (String × FieldDecl)) (s : Attrs)
    (f : String) (k : PyVal) (kind : String) (r : MethodRec) (m : NOp) (cur elem : PyVal) :
    Attrs × Outcome :=
  if r.guarded && (c.immutable || c.immFields.contains f) then (s, .err .valueErr)
  else match applyNative kind m elem with
    | .error e => (s, .err (MErr.ofNErr e))
    | .ok new =>
      if r.validated then
        (if c.immFields.contains f then (s, .err .valueErr)
         else setattrStep O c fields s f (setElemAt cur k new))
      else if !r.overridden || r.superCall then (assocSet f (setElemAt cur k new) s, .ok)
      else (s, .ok)

/-- `Structure.__delitem__` when it runs the class's `__validate__` hook after the deletion and restores
    the instance when the hook raises (`dh = true`: proposed_fixes/C03-delitem-runs-hook.diff; today
    `dh = false`: no hook on deletion).  Probed from the working tree (`Generated.delitemHook`). -/
def delitemStepH (dh : Bool) (O : Oracles) (c : ClassOpts) (s : Attrs) (f : String) : Attrs × Outcome :=
  if dh then
    (match delitemStep c s f with
      | (s', .ok) => if O.hookOk s' then (s', .ok) else (s, .err .valueErr)
      | r => r)
  else delitemStep c s f

def stepB (bound dh : Bool) (tbl : List MethodRec) (O : Oracles) (c : ClassOpts)
    (fields : List (String × FieldDecl)) (s : Attrs) (op : Op) : Attrs × Outcome :=
  match bound, op with
  | true, .callNested f k m =>
    (match lookup f fields, lookup f s with
    | some fd, some cur =>
      (match elemDecl fd k, elemAt cur k with
        | some ed, some elem =>
          (match wrapperKind ed with
            | none => (s, .err (.other "AttributeError"))
            | some kind => match findRec tbl kind m.name with
              | none => (s, .err (.other "AttributeError"))
              | some r => nestedBoundStep O c fields s f k kind r m cur elem)
        | _, _ => (s, .err (lookupErr cur k)))
    | _, _ => (s, .err (.other "AttributeError")))
  | _, .delitem f => delitemStepH dh O c s f
  | _, op => step tbl O c fields s op

/-! ### wrapper references kept across operations (stale wrappers)

  `w = x.f` hands out the wrapper object itself; the caller may keep it while the field is
  re-assigned (every validated mutator re-assigns: the instance then holds a NEW wrapper) and call a
  mutator on it later.  A reference is the field it is bound to, its native kind and its own payload.
  A mutator called on it works on the reference's payload: guard, native call on a copy, validated
  assignment of that copy to the field of the instance (whatever the field holds by then is
  replaced); rows with a `super()` call then also mutate the reference's own payload. -/

structure WRef where
  field : String
  kind : String
  payload : PyVal
  /-- identity of the wrapper object: two references taken while the field was not re-assigned are
      the same object -/
  obj : Nat
deriving Repr, Inhabited

inductive ROp where
  | plain (op : Op)
  /-- `w_i = x.f` (appended to the list of references) -/
  | take (f : String)
  /-- `w_i.<m>(args)` -/
  | callRef (i : Nat) (m : NOp)
  /-- `x.f = w_i`: a kept wrapper object (whatever it holds by now) is assigned to a field -/
  | assignRef (f : String) (i : Nat)
deriving Repr, Inhabited

structure MState where
  attrs : Attrs
  refs : List WRef := []
  /-- the identity of the wrapper object the instance currently holds in a field, once somebody took
      a reference to it (dropped when the field is re-assigned: the instance then holds a new object) -/
  cur : List (String × Nat) := []
  next : Nat := 0
deriving Repr, Inhabited

/-- an object was mutated in place: every reference to it sees the new content -/
def updObj (refs : List WRef) (o : Nat) (p : PyVal) : List WRef :=
  refs.map (fun w => if w.obj == o then { w with payload := p } else w)

def unlive (f : String) (cur : List (String × Nat)) : List (String × Nat) :=
  cur.filter (fun p => p.1 != f)

/-- content of the wrapper object currently held in `f` after a successful `x.f.<m>(…)`, when the
    table row also applies the native mutator to that object itself (`super()` call / inherited) -/
def inPlaceNew (tbl : List MethodRec) (O : Oracles) (fields : List (String × FieldDecl)) (attrs : Attrs)
    (f : String) (m : NOp) : Option PyVal :=
  match lookup f fields, lookup f attrs with
  | some fd, some cur =>
    (match wrapperKindAt O fd cur with
      | some kind => (match findRec tbl kind m.name with
        | some r =>
          if !r.overridden || r.superCall then
            (match applyNative kind m cur with | .ok new => some new | .error _ => none)
          else none
        | none => none)
      | none => none)
  | _, _ => none

/-- the same for a nested call under the parent binding: the (now replaced) parent object holds the
    child object the native mutator was also applied to -/
def nestedInPlaceNew (tbl : List MethodRec) (fields : List (String × FieldDecl)) (attrs : Attrs)
    (f : String) (k : PyVal) (m : NOp) : Option PyVal :=
  match lookup f fields, lookup f attrs with
  | some fd, some cur =>
    (match elemDecl fd k, elemAt cur k with
      | some ed, some elem => (match wrapperKind ed with
        | some kind => (match findRec tbl kind m.name with
          | some r =>
            if !r.overridden || r.superCall then
              (match applyNative kind m elem with | .ok new => some (setElemAt cur k new) | .error _ => none)
            else none
          | none => none)
        | none => none)
      | _, _ => none)
  | _, _ => none

/-- what a successful plain operation does to the kept references and to the identity table -/
def afterPlain (bound : Bool) (tbl : List MethodRec) (O : Oracles) (c : ClassOpts)
    (fields : List (String × FieldDecl)) (st : MState) (op : Op) (attrs' : Attrs) :
    List WRef × List (String × Nat) :=
  match op with
  | .setattr f v =>
    if (lookup f fields).isSome && !(v.isNone && c.ignoreNone && !c.required.contains f)
    then (st.refs, unlive f st.cur) else (st.refs, st.cur)
  | .delitem f => (st.refs, unlive f st.cur)
  | .call f m =>
    ((match lookup f st.cur, inPlaceNew tbl O fields st.attrs f m with
      | some o, some new => updObj st.refs o new
      | _, _ => st.refs), unlive f st.cur)
  | .callNested f k m =>
    if bound then
      ((match lookup f st.cur, nestedInPlaceNew tbl fields st.attrs f k m with
        | some o, some new => updObj st.refs o new
        | _, _ => st.refs), if c.immutable then st.cur else unlive f st.cur)
    else
      -- scratch-bound: the nested object is mutated in place; the parent object stays the same
      ((match lookup f st.cur, lookup f attrs' with
        | some o, some v => updObj st.refs o v
        | _, _ => st.refs), st.cur)

/-- `Structure.__bool__`: some attribute holds a value -/
def instTruthy (attrs : Attrs) : Bool := attrs.any (fun p => !p.2.isNone)

/-- a mutator called on a kept reference: as `callStep` on the reference's payload, except that a row
    whose re-assignment is conditional on the instance's truth value skips it on a falsy instance
    (guard and native errors first; the update is silently lost) -/
def refCallStep (O : Oracles) (c : ClassOpts) (fields : List (String × FieldDecl)) (s : Attrs)
    (f : String) (kind : String) (r : MethodRec) (m : NOp) (payload : PyVal) : Attrs × Outcome :=
  if r.condInstance && !instTruthy s then
    (if r.guarded && (c.immutable || c.immFields.contains f) then (s, .err .valueErr)
     else match applyNative kind m payload with
      | .error e => (s, .err (MErr.ofNErr e))
      | .ok _ => (s, .ok))
  else callStep O c fields s f kind r m payload

/-- a `take` that found no wrapper still occupies its position in the list of references (so that
    the positions of later references do not depend on it); nothing can be called on it -/
def deadRef (st : MState) (f : String) : MState :=
  { st with refs := st.refs ++ [⟨f, "", .none, st.next⟩], next := st.next + 1 }

def stepR (bound dh : Bool) (tbl : List MethodRec) (O : Oracles) (c : ClassOpts)
    (fields : List (String × FieldDecl)) (st : MState) : ROp → MState × Outcome
  | .plain op =>
    let r := stepB bound dh tbl O c fields st.attrs op
    let b := match r.2 with
      | .ok => afterPlain bound tbl O c fields st op r.1
      | .err _ => (st.refs, st.cur)
    ({ st with attrs := r.1, refs := b.1, cur := b.2 }, r.2)
  | .take f =>
    match lookup f fields, lookup f st.attrs with
    | some fd, some cur =>
      (match wrapperKindAt O fd cur with
        | some kind =>
          (match lookup f st.cur with
            | some o => ({ st with refs := st.refs ++ [⟨f, kind, cur, o⟩] }, .ok)
            | none => ({ st with refs := st.refs ++ [⟨f, kind, cur, st.next⟩], cur := (f, st.next) :: st.cur,
                                  next := st.next + 1 }, .ok))
        | none => (deadRef st f, .err (.other "AttributeError")))
    | _, _ => (deadRef st f, .err (.other "AttributeError"))
  | .callRef i m =>
    match st.refs[i]? with
    | none => (st, .err (.other "AttributeError"))
    | some w =>
      match findRec tbl w.kind m.name with
      | none => (st, .err (.other "AttributeError"))
      | some r =>
        let res := refCallStep O c fields st.attrs w.field w.kind r m w.payload
        let b := match res.2, applyNative w.kind m w.payload with
          | .ok, .ok new =>
            (if !r.overridden || r.superCall then updObj st.refs w.obj new else st.refs,
             if r.validated && !(r.condInstance && !instTruthy st.attrs) then unlive w.field st.cur else st.cur)
          | _, _ => (st.refs, st.cur)
        ({ st with attrs := res.1, refs := b.1, cur := b.2 }, res.2)

  | .assignRef f i =>
    match st.refs[i]? with
    | none => (st, .err (.other "AttributeError"))
    | some w =>
      if w.kind == "" then (st, .err (.other "AttributeError")) else   -- a take that found no wrapper
      -- an ordinary validated assignment of the reference's content (a new wrapper is built)
      let r := setattrStep O c fields st.attrs f w.payload
      let b := match r.2 with
        | .ok => afterPlain bound tbl O c fields st (.setattr f w.payload) r.1
        | .err _ => (st.refs, st.cur)
      ({ st with attrs := r.1, refs := b.1, cur := b.2 }, r.2)

def runR (bound dh : Bool) (tbl : List MethodRec) (O : Oracles) (c : ClassOpts)
    (fields : List (String × FieldDecl)) : MState → List ROp → MState × List Outcome
  | st, [] => (st, [])
  | st, op :: rest =>
    let r := stepR bound dh tbl O c fields st op
    let t := runR bound dh tbl O c fields r.1 rest
    (t.1, r.2 :: t.2)

end Typedpy
