/-
  Sem/SharedWrite.lean — record type of the generated shared-write table (C20).
  One record per site in typedpy that writes state shared by all instances of a class (and hence by all threads):
  an attribute of a Field object reachable from a class, or an entry of a module-level cache.
  The table itself is regenerated from the working tree by extract/shared_writes.py on every check.
-/
namespace Typedpy.Sched

inductive ValueKind where
  /-- the written value is computed from the arguments of this call (e.g. the element index of the caller's value) -/
  | perCall
  /-- the written value is the owner field's own `_name` (itself a shared scratch attribute when the owner is nested) -/
  | ownerName
  /-- the written value is a function of the field's definition only (e.g. a cached serializer closure):
      every thread writes an equivalent value -/
  | definitionOnly
  /-- write-once entry of a module-level cache keyed by what determines the value -/
  | keyedCache
  /-- an entry of a module-level cache that is stored BEFORE the stored object is complete (publish-before-fill): another
      thread can take the half-built object out of the cache -/
  | publishedIncomplete
  /-- a process-wide container (module level, or captured by a wrapper that outlives its decorator) to which some function
      adds entries and from which some function removes / clears them: its content reflects the operations in flight in
      ALL threads (an "in progress" set, a bounded / evicting cache) -/
  | transientEntries
  /-- `if k in C: … C[k]` on such a container: another thread can remove `k` in between -/
  | checkThenGet
  /-- a process-wide mode flag (class-level configuration such as `Structure._fail_fast`, `TypedPyDefaults.*`) that an
      operation flips for its own duration: every other thread runs in the wrong mode meanwhile -/
  | modeToggle
  /-- the written value is computed from what the SAME shared location held (`x.n += 1`, `x.a = x.a + …`,
      `D[k] = D.get(k, 0) + 1`, `x.items.append(…)`): between the load and the store (two bytecodes, even inside one
      statement) another thread's update is lost -/
  | readModifyWrite
  deriving DecidableEq, Repr

structure SharedWrite where
  path : String
  file : String
  func : String
  attr : String
  target : String
  valueKind : ValueKind
  /-- the written value is later read back (by the same function, or by the `__set__` it hands the object to) -/
  readBack : Bool
  deriving DecidableEq, Repr

/-- a shared write is harmless under any interleaving iff every thread writes an equivalent value -/
def SharedWrite.safe (r : SharedWrite) : Bool :=
  match r.valueKind with
  | .definitionOnly => true
  | .keyedCache => true
  | .perCall => false
  | .ownerName => false
  | .publishedIncomplete => false
  | .transientEntries => false
  | .checkThenGet => false
  | .modeToggle => false
  | .readModifyWrite => false

/-- known-finding key of a site -/
def SharedWrite.key (r : SharedWrite) : String := "shared-" ++ r.attr ++ ":" ++ r.file ++ ":" ++ r.func

/-- one row of the generated alias table (extract/field_aliases.py): a Field object that the LIBRARY made reachable from
    two different field declarations (so its scratch `_name` is a cell shared by calls on different fields / classes) -/
structure FieldAlias where
  objType : String
  /-- "same-class" (two fields of one class) or "cross-class" -/
  scope : String
  /-- declaration spellings through which the object is reached -/
  spellings : String
  path : String
  deriving DecidableEq, Repr

def FieldAlias.key (r : FieldAlias) : String := "field-object-aliased:" ++ r.objType

end Typedpy.Sched
