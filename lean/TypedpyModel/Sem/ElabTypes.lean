/-
  Sem/ElabTypes.lean — vocabulary of declaration elaboration (C13): spelling atoms, field-class
  heads and the row type of the regenerated table `Generated/TypeMap.lean` (image of
  `convert_basic_types`, `type_is_generic`, `__origin__`, `get_typing_lib_info`,
  `FieldMeta.__getitem__`, `_or_fields` on every atom of the vocabulary).
  Everything here has `DecidableEq`, so `Generated.typeMap = Pinned.typeMap` is closed by `decide`.
-/
import TypedpyModel.Core.Field
namespace Typedpy

/-- Field classes that the builtin → field mapping can produce -/
inductive Head where
  | integer | string | float | boolean | anything
  | array | map | set | immSet | deque | tuple | anyOf
  | dateField | dateTime | timeField
  /-- any other class name (only ever produced by a changed mapping) -/
  | other (name : String)
deriving Repr, DecidableEq, Inhabited

/-- abstract spelling atoms: builtin classes, `typing` aliases and specials -/
inductive Atom where
  | int | str | float | bool | list | dict | set | frozenset | tuple | deque
  | date | datetime | time
  | tAny | tUnion | tOptional
  | tList | tDict | tSet | tFrozenSet | tDeque | tTuple
  | noneType
deriving Repr, DecidableEq, Inhabited

/-- outcome of probing one of the real conversion functions on an atom -/
inductive Probe where
  /-- returned `None` -/
  | none
  /-- returned the Field class -/
  | cls (h : Head)
  /-- returned an instance of the Field class (no arguments) -/
  | inst (h : Head)
  /-- raised the named exception -/
  | err (name : String)
deriving Repr, DecidableEq, Inhabited

/-- one row of the regenerated table -/
structure TMRow where
  atom : Atom
  /-- `convert_basic_types(atom)` -/
  cbt : Option Head
  /-- `type_is_generic(atom)` -/
  generic : Bool
  /-- `getattr(atom, "__origin__", None)` when it is an atom of the vocabulary -/
  origin : Option Atom
  /-- `isinstance(atom, type)` -/
  isClass : Bool
  /-- `get_typing_lib_info(atom)` -/
  gtli : Probe
  /-- `Field[atom]` (`FieldMeta.__getitem__`) -/
  item : Probe
  /-- second option of `_or_fields(Integer, atom)` -/
  orRight : Probe
deriving Repr, DecidableEq, Inhabited

abbrev TypeMap := List TMRow

namespace TypeMap
def row? (tm : TypeMap) (a : Atom) : Option TMRow := tm.find? (fun r => r.atom == a)
/-- `convert_basic_types` (a `dict.get`: atoms not in the table map to `None`) -/
def cbt (tm : TypeMap) (a : Atom) : Option Head := (tm.row? a).bind (·.cbt)
def generic (tm : TypeMap) (a : Atom) : Bool := match tm.row? a with | some r => r.generic | none => false
def origin (tm : TypeMap) (a : Atom) : Option Atom := (tm.row? a).bind (·.origin)
def isClass (tm : TypeMap) (a : Atom) : Bool := match tm.row? a with | some r => r.isClass | none => false
end TypeMap

/-- the result of probing a depth-one form (e.g. `list[int]`, `Optional[int]`, `int | str`) with the
    real functions, rendered as canonical text (kept as strings so that the table is decidable) -/
structure FormRow where
  form : String
  gtli : String
  item : String
  orRight : String
  /-- class-level outcome of `a: <form>`: fields / required -/
  ann : String
deriving Repr, DecidableEq, Inhabited

end Typedpy
