/-
  Sem/PyLex.lean — CPython's lexing of ONE string literal (non-raw `str`): the short forms `'…'`,
  `"…"` and the long form `"""…"""`, written from the language reference ("String and Bytes
  literals", "Escape sequences") and spot-checked against CPython 3.12 by the `schemacode` suite.

  `pyLexStr src = some v`  iff  `src` is exactly one string literal and denotes the string `v`;
  `none` means: not a single well-formed literal (unterminated, closes early, malformed escape,
  raw newline in a short literal, NUL in the source).

  Also the two *producers* of literal text used by typedpy's schema→code generator:
  `docWrap` (the docstring template of `schema_to_struct_code` with the escaping of
  `_docstring_text`) and `pyRepr` (`repr(str)`: `_str_literal` for patterns and `str` defaults, and
  what `f"{a_list}"` applies to list elements: enum values, `_required`, list/dict defaults).

  Not modelled (stated assumptions, avoided by the generators): `\N{name}` escapes (need the Unicode
  name table; the model answers `none`), escapes denoting lone surrogates (not representable as a
  Lean `Char`; the model answers `none`), string prefixes (`r`, `b`, `f`, `u`).

  Everything is defined on `List Char` by *structural* recursion over the source (a state machine),
  so the definitions reduce in the kernel and the safety theorems are plain inductions.
-/
namespace Typedpy.PyLex

/-! ### characters -/

def cNUL : Char := Char.ofNat 0
def cBS : Char := '\\'
def cSQ : Char := '\''
def cDQ : Char := '"'
def cLF : Char := '\n'
def cCR : Char := '\r'

def hexVal (c : Char) : Option Nat :=
  let n := c.toNat
  if 48 ≤ n ∧ n ≤ 57 then some (n - 48)
  else if 97 ≤ n ∧ n ≤ 102 then some (n - 87)
  else if 65 ≤ n ∧ n ≤ 70 then some (n - 55)
  else none

def octVal (c : Char) : Option Nat :=
  let n := c.toNat
  if 48 ≤ n ∧ n ≤ 55 then some (n - 48) else none

/-- code point → character; lone surrogates and values above U+10FFFF have no `Char` -/
def ofCode (n : Nat) : Option Char :=
  if n < 0xd800 ∨ (0xdfff < n ∧ n < 0x110000) then some (Char.ofNat n) else none

/-- what a character means right after a backslash -/
inductive Esc where
  /-- backslash-newline: both ignored -/
  | drop
  /-- simple escape denoting one character -/
  | char (c : Char)
  /-- `\x` / `\u` / `\U`: exactly `n` hex digits follow -/
  | hex (n : Nat)
  /-- first digit of an octal escape (up to three digits) -/
  | oct (d : Nat)
  /-- `\N{…}`: not modelled -/
  | bad
  /-- unrecognised escape: backslash and character are both kept (SyntaxWarning only) -/
  | keep
deriving Repr, DecidableEq

def escKind (c : Char) : Esc :=
  if c = cLF then .drop
  else if c = cBS then .char cBS
  else if c = cSQ then .char cSQ
  else if c = cDQ then .char cDQ
  else if c = 'a' then .char (Char.ofNat 7)
  else if c = 'b' then .char (Char.ofNat 8)
  else if c = 'f' then .char (Char.ofNat 12)
  else if c = 'n' then .char cLF
  else if c = 'r' then .char cCR
  else if c = 't' then .char (Char.ofNat 9)
  else if c = 'v' then .char (Char.ofNat 11)
  else if c = 'x' then .hex 2
  else if c = 'u' then .hex 4
  else if c = 'U' then .hex 8
  else if c = 'N' then .bad
  else match octVal c with
    | some d => .oct d
    | none => .keep

/-! ### the literal body as a state machine -/

inductive St where
  | norm
  /-- just after a backslash -/
  | esc
  /-- inside `\x`/`\u`/`\U`: `left` digits still to read, value so far `acc` -/
  | hex (left acc : Nat)
  /-- inside an octal escape: at most `left` more digits, value so far `acc` -/
  | oct (left acc : Nat)
deriving Repr

def emit (c : Char) (k : Option (List Char)) : Option (List Char) :=
  match k with
  | none => none
  | some w => some (c :: w)

/-- does the closing delimiter start at `c :: r`? (`q` alone, or `"""` in long mode) -/
def isClose (long : Bool) (q c : Char) (r : List Char) : Bool :=
  c == q && (!long || r.take 2 == [q, q])

/-- after the first character of the closing delimiter nothing but the rest of it may follow -/
def atEnd (long : Bool) (q : Char) (r : List Char) : Bool :=
  if long then r == [q, q] else r.isEmpty

/-- one character in the normal state; `recN`/`recE` are the results for the rest of the source
    continued in state `norm` / `esc` (thunks: the compiled driver is strict, and evaluating both
    continuations at every character would be exponential) -/
def normCase (long : Bool) (q c : Char) (r : List Char) (recN recE : Unit → Option (List Char)) :
    Option (List Char) :=
  if isClose long q c r then (if atEnd long q r then some [] else none)
  else if c = cBS then recE ()
  else if c = cLF ∧ long = false then none
  else emit c (recN ())

/-- one character right after a backslash; `recN` = rest continued in `norm`,
    `recH n` = rest continued inside an `n`-digit hex escape, `recO d` = inside an octal escape -/
def escCase (c : Char) (recN : Unit → Option (List Char)) (recH : Nat → Option (List Char))
    (recO : Nat → Option (List Char)) : Option (List Char) :=
  match escKind c with
  | .drop => recN ()
  | .char d => emit d (recN ())
  | .hex n => recH n
  | .oct d => recO d
  | .bad => none
  | .keep => emit cBS (emit c (recN ()))

/-- one hex digit of an escape with `left+1` digits to go -/
def hexCase (left acc : Nat) (c : Char) (recN : Unit → Option (List Char))
    (recH : Nat → Option (List Char)) : Option (List Char) :=
  match hexVal c with
  | none => none
  | some d =>
    if left = 0 then
      (match ofCode (acc * 16 + d) with
       | none => none
       | some ch => emit ch (recN ()))
    else recH (acc * 16 + d)

/-- the body of a literal opened with `q` (long = triple-quoted), from state `st`; the result is
    the denoted string if the literal closes exactly at the end of the source -/
def lexS (long : Bool) (q : Char) : St → List Char → Option (List Char)
  | _, [] => none
  | .norm, c :: r =>
    normCase long q c r (fun _ => lexS long q .norm r) (fun _ => lexS long q .esc r)
  | .esc, c :: r =>
    escCase c (fun _ => lexS long q .norm r) (fun n => lexS long q (.hex (n - 1) 0) r)
      (fun d => lexS long q (.oct 2 d) r)
  | .hex left acc, c :: r =>
    hexCase left acc c (fun _ => lexS long q .norm r) (fun a => lexS long q (.hex (left - 1) a) r)
  | .oct left acc, c :: r =>
    match (if left = 0 then none else octVal c) with
    | some d => lexS long q (.oct (left - 1) (acc * 8 + d)) r
    | none =>
      -- the escape ends here; `c` is an ordinary character of the normal state
      emit (Char.ofNat acc)
        (normCase long q c r (fun _ => lexS long q .norm r) (fun _ => lexS long q .esc r))
termination_by structural _ cs => cs

/-- universal newlines: CPython's tokenizer reads `\r\n` and a lone `\r` as `\n`
    (`afterCR`: the previous character was a `\r`) -/
def nnl (afterCR : Bool) : List Char → List Char
  | [] => []
  | c :: r =>
    if c = cCR then cLF :: nnl true r
    else if c = cLF ∧ afterCR = true then nnl false r
    else c :: nnl false r
termination_by structural cs => cs

def normNewlines (cs : List Char) : List Char := nnl false cs

/-- one literal, on character lists -/
def lexSrc (src : List Char) : Option (List Char) :=
  if src.contains cNUL then none
  else
    match normNewlines src with
    | c :: r =>
      if c = cSQ then lexS false cSQ .norm r
      else if c = cDQ then
        (if r.take 2 == [cDQ, cDQ] then lexS true cDQ .norm (r.drop 2) else lexS false cDQ .norm r)
      else none
    | [] => none

/-- source text of a single string literal ↦ the string it denotes -/
def pyLexStr (src : String) : Option String := (lexSrc src.toList).map String.ofList

/-! ### producers of literal text in the generator -/

def indent4 : List Char := [' ', ' ', ' ', ' ']

/-- `_docstring_text`: `.replace("\\", "\\\\").replace('"""', '\\"\\"\\"').replace("\r", "\\r").replace("\x00", "\\x00")`
    as one left-to-right pass (the replacements act on disjoint characters and `str.replace` is
    leftmost, non-overlapping).  `k` = number of following characters that belong to a `"""`
    whose first quote has just been escaped; in that state a `"` is written `\"`.
    (A non-quote character in state `k > 0` cannot occur; it is treated as in state 0.) -/
def docEsc : Nat → List Char → List Char
  | _, [] => []
  | k, c :: r =>
    if c = cDQ then
      (if 0 < k then cBS :: cDQ :: docEsc (k - 1) r
       else if r.take 2 == [cDQ, cDQ] then cBS :: cDQ :: docEsc 2 r
       else cDQ :: docEsc 0 r)
    else if c = cBS then cBS :: cBS :: docEsc 0 r
    else if c = cCR then cBS :: 'r' :: docEsc 0 r
    else if c = cNUL then cBS :: 'x' :: '0' :: '0' :: docEsc 0 r
    else c :: docEsc 0 r
termination_by structural _ cs => cs

/-- the docstring literal of `schema_to_struct_code`:
    `"""\n    {_docstring_text(description)}\n    """` -/
def docWrapL (d : List Char) : List Char :=
  [cDQ, cDQ, cDQ, cLF] ++ indent4 ++ docEsc 0 d ++ [cLF] ++ indent4 ++ [cDQ, cDQ, cDQ]
def docWrap (d : String) : String := String.ofList (docWrapL d.toList)
/-- the `__doc__` the template is meant to produce -/
def docValueL (d : List Char) : List Char := [cLF] ++ indent4 ++ d ++ [cLF] ++ indent4
def docValue (d : String) : String := String.ofList (docValueL d.toList)

def hexDigit (n : Nat) : Char := if n < 10 then Char.ofNat (48 + n) else Char.ofNat (87 + n)

def hex2 (n : Nat) : List Char := [hexDigit (n / 16 % 16), hexDigit (n % 16)]
def hex4 (n : Nat) : List Char := hex2 (n / 256) ++ hex2 n
def hex8 (n : Nat) : List Char := hex4 (n / 65536) ++ hex4 n

/-- `repr(str)` picks `"` only when the string has a `'` and no `"` -/
def reprQuote (cs : List Char) : Char := if cs.contains cSQ && !cs.contains cDQ then cDQ else cSQ

/-- one character of `repr(str)`; `pr` = `str.isprintable` on non-ASCII characters (an oracle:
    the Unicode database is not part of the model) -/
def reprChar (pr : Char → Bool) (q c : Char) : List Char :=
  let n := c.toNat
  if c = q ∨ c = cBS then [cBS, c]
  else if n = 9 then [cBS, 't']
  else if n = 10 then [cBS, 'n']
  else if n = 13 then [cBS, 'r']
  else if n < 32 ∨ n = 127 then cBS :: 'x' :: hex2 n
  else if n < 127 then [c]
  else if pr c then [c]
  else if n < 256 then cBS :: 'x' :: hex2 n
  else if n < 65536 then cBS :: 'u' :: hex4 n
  else cBS :: 'U' :: hex8 n

def reprBody (pr : Char → Bool) (q : Char) : List Char → List Char
  | [] => []
  | c :: r => reprChar pr q c ++ reprBody pr q r

def pyReprL (pr : Char → Bool) (cs : List Char) : List Char :=
  let q := reprQuote cs
  q :: (reprBody pr q cs ++ [q])
def pyRepr (pr : Char → Bool) (s : String) : String := String.ofList (pyReprL pr s.toList)

end Typedpy.PyLex
