/-
  Sem/Native.lean — the mutators of Python's list / deque / dict as pure functions on the payload
  (the "natively mutated copy").  Errors are the containers' usual IndexError / KeyError /
  ValueError (`remove`) / TypeError (`sort` on incomparable elements, wrong argument types).
-/
import TypedpyModel.Core.Value
namespace Typedpy
open PyVal (pyEq)

inductive NErr where | indexErr | keyErr | valueErr | typeErr
deriving Repr, DecidableEq, Inhabited

/-- a mutating call with its arguments -/
inductive NOp where
  | setitem (k v : PyVal)
  | delitem (k : PyVal)
  | append (v : PyVal)
  | appendleft (v : PyVal)
  | extend (vs : List PyVal)
  | extendleft (vs : List PyVal)
  | insert (i : Int) (v : PyVal)
  | remove (v : PyVal)
  /-- `pop()` / `pop(i)` / `pop(k)` / `pop(k, default)` -/
  | pop (k : Option PyVal) (dflt : Option PyVal)
  | popleft
  | popitem
  | clear
  | sort
  | reverse
  | rotate (n : Int)
  | iadd (vs : List PyVal)
  | imul (n : Int)
  | update (kvs : List (PyVal × PyVal))
  | setdefault (k v : PyVal)
  | ior (kvs : List (PyVal × PyVal))
  /-- `xs[lo:hi:step] = vs` (`none` = the bound is left out) -/
  | setslice (lo hi step : Option Int) (vs : List PyVal)
  /-- `del xs[lo:hi:step]` -/
  | delslice (lo hi step : Option Int)
  /-- `sort(key=<one of a fixed menu of key functions>, reverse=…)`:
      key "" = none, "neg" = `lambda v: -v`, "abs" = `abs`, "const" = `lambda v: 0` -/
  | sortWith (key : String) (reverse : Bool)
deriving Repr, Inhabited

def NOp.name : NOp → String
  | .setitem _ _ => "__setitem__" | .delitem _ => "__delitem__" | .append _ => "append"
  | .appendleft _ => "appendleft" | .extend _ => "extend" | .extendleft _ => "extendleft"
  | .insert _ _ => "insert" | .remove _ => "remove" | .pop _ _ => "pop" | .popleft => "popleft"
  | .popitem => "popitem" | .clear => "clear" | .sort => "sort" | .reverse => "reverse"
  | .rotate _ => "rotate" | .iadd _ => "__iadd__" | .imul _ => "__imul__" | .update _ => "update"
  | .setdefault _ _ => "setdefault" | .ior _ => "__ior__"
  | .setslice _ _ _ _ => "__setitem__" | .delslice _ _ _ => "__delitem__" | .sortWith _ _ => "sort"

/-- Python index normalisation for item access: negative counts from the end; out of range = none -/
def normIndex (len : Nat) (i : Int) : Option Nat :=
  let j := if i < 0 then i + len else i
  if 0 ≤ j ∧ j < len then some j.toNat else none

def setAt : List PyVal → Nat → PyVal → List PyVal
  | [], _, _ => []
  | _ :: xs, 0, v => v :: xs
  | x :: xs, n + 1, v => x :: setAt xs n v

def delAt : List PyVal → Nat → List PyVal
  | [], _ => []
  | _ :: xs, 0 => xs
  | x :: xs, n + 1 => x :: delAt xs n

/-- `list.insert`: index clamped into `[0, len]` after adding `len` to negatives -/
def insertAt (xs : List PyVal) (i : Int) (v : PyVal) : List PyVal :=
  let j := if i < 0 then i + xs.length else i
  let k := if j < 0 then 0 else if j > xs.length then xs.length else j.toNat
  xs.take k ++ [v] ++ xs.drop k

def removeFirst : List PyVal → PyVal → Option (List PyVal)
  | [], _ => none
  | x :: xs, v => if pyEq x v then some xs else (removeFirst xs v).map (x :: ·)

mutual
/-- Python `<` on the modelled fragment: numbers, strings, and sequences (lexicographic: the first
    position where the elements are not `==` decides); `none` = TypeError (unorderable) -/
def pyLt : PyVal → PyVal → Option Bool
  | .str a, w => match w with | .str b => some (decide (a < b)) | _ => none
  | .list a, w => match w with | .list b => pyLtList a b | _ => none
  | .tuple a, w => match w with | .tuple b => pyLtList a b | _ => none
  | .deque a, w => match w with | .deque b => pyLtList a b | _ => none
  | .bool a, w => match w.asNum with | some q => some (Q.lt (Q.ofInt (if a then 1 else 0)) q) | none => none
  | .int a, w => match w.asNum with | some q => some (Q.lt (Q.ofInt a) q) | none => none
  | .float a, w => match w.asNum with | some q => some (Q.lt a q) | none => none
  | .dec a, w => match w.asNum with | some q => some (Q.lt a q) | none => none
  | _, _ => none
termination_by structural x _ => x
def pyLtList : List PyVal → List PyVal → Option Bool
  | [], w => some (!w.isEmpty)
  | x :: xs, w => match w with
    | [] => some false
    | y :: ys => if pyEq x y then pyLtList xs ys else pyLt x y
termination_by structural x _ => x
end

/-- insert `x` (which preceded the list's elements) into a sorted list, before the first element
    that is not smaller (stable); `none` = an unorderable pair -/
def insertSorted (x : PyVal) : List PyVal → Option (List PyVal)
  | [] => some [x]
  | y :: ys => match pyLt y x with
    | none => none
    | some true => (insertSorted x ys).map (y :: ·)
    | some false => some (x :: y :: ys)

/-- stable insertion sort (processing from the right keeps equal elements in order) -/
def sortList : List PyVal → Option (List PyVal)
  | [] => some []
  | x :: xs => (sortList xs).bind (insertSorted x)

/-- `list.sort()`: TypeError when two elements cannot be ordered -/
def pySort (xs : List PyVal) : Except NErr (List PyVal) :=
  match xs with
  | [] => .ok []
  | [x] => .ok [x]
  | _ => match sortList xs with
    | some ys => .ok ys
    | none => .error .typeErr

def repeatList (xs : List PyVal) : Nat → List PyVal
  | 0 => []
  | n + 1 => xs ++ repeatList xs n

def rotateRight (xs : List PyVal) (n : Int) : List PyVal :=
  if xs.isEmpty then xs
  else
    let k := (n % xs.length).toNat
    xs.drop (xs.length - k) ++ xs.take (xs.length - k)

def intOf : PyVal → Option Int
  | .int i => some i
  | .bool b => some (if b then 1 else 0)
  | _ => none

/-! ### slices (`slice.indices`) -/

/-- a slice bound clamped the way `slice.indices(len)` does it -/
def clampBound (len : Nat) (neg : Bool) (i : Int) : Int :=
  if i < 0 then
    (if i + len < 0 then (if neg then -1 else 0) else i + len)
  else
    (if neg then (if i ≥ len then (len : Int) - 1 else i) else (if i > len then (len : Int) else i))

/-- `start, start+step, …` while before `stop` (`fuel` bounds the count by the list length) -/
def sliceWalk : Nat → Int → Int → Int → List Nat
  | 0, _, _, _ => []
  | fuel + 1, cur, stop, step =>
    if (step > 0 ∧ cur < stop) ∨ (step < 0 ∧ cur > stop) then cur.toNat :: sliceWalk fuel (cur + step) stop step
    else []

/-- the positions selected by `[lo:hi:step]` on a sequence of length `len`, in slice order;
    `none` = `step == 0` (ValueError) -/
def sliceIdx (len : Nat) (lo hi step : Option Int) : Option (List Nat) :=
  let st := step.getD 1
  if st == 0 then none
  else
    let neg := decide (st < 0)
    let start := match lo with | some i => clampBound len neg i | none => if neg then (len : Int) - 1 else 0
    let stop := match hi with | some i => clampBound len neg i | none => if neg then -1 else (len : Int)
    some (sliceWalk len start stop st)

def delIdxs (xs : List PyVal) (idxs : List Nat) : List PyVal :=
  ((List.range xs.length).zip xs).filterMap (fun p => if idxs.contains p.1 then none else some p.2)

def setIdxs : List PyVal → List Nat → List PyVal → List PyVal
  | xs, i :: is, v :: vs => setIdxs (setAt xs i v) is vs
  | xs, _, _ => xs

/-- `xs[lo:hi:step] = vs`: a plain slice (step left out or 1) is replaced by any number of
    elements, an extended slice only by exactly as many as it selects (else ValueError) -/
def setSlice (xs : List PyVal) (lo hi step : Option Int) (vs : List PyVal) : Except NErr (List PyVal) :=
  match sliceIdx xs.length lo hi step with
  | none => .error .valueErr
  | some idxs =>
    if step.getD 1 == 1 then
      let start := match lo with | some i => (clampBound xs.length false i).toNat | none => 0
      let stop := match hi with | some i => (clampBound xs.length false i).toNat | none => xs.length
      .ok (xs.take start ++ vs ++ xs.drop (if stop < start then start else stop))
    else if vs.length != idxs.length then .error .valueErr
    else .ok (setIdxs xs idxs vs)

def delSlice (xs : List PyVal) (lo hi step : Option Int) : Except NErr (List PyVal) :=
  match sliceIdx xs.length lo hi step with
  | none => .error .valueErr
  | some idxs => .ok (delIdxs xs idxs)

/-! ### `sort(key=, reverse=)` -/

def qNeg (q : Q) : Q := ⟨-q.num, q.den⟩

def negVal : PyVal → Option PyVal
  | .int i => some (.int (-i))
  | .bool b => some (.int (if b then -1 else 0))
  | .float q => some (.float (qNeg q))
  | .dec q => some (.dec (qNeg q))
  | _ => none

def absVal : PyVal → Option PyVal
  | .int i => some (.int (if i < 0 then -i else i))
  | .bool b => some (.int (if b then 1 else 0))
  | .float q => some (.float (if Q.lt q (Q.ofInt 0) then qNeg q else q))
  | .dec q => some (.dec (if Q.lt q (Q.ofInt 0) then qNeg q else q))
  | _ => none

/-- the key functions of the menu; `none` = the key function raises TypeError -/
def sortKey (key : String) (v : PyVal) : Option PyVal :=
  if key == "" then some v
  else if key == "neg" then negVal v
  else if key == "abs" then absVal v
  else some (.int 0)

/-- stable insertion of a keyed element -/
def insertSortedK (x : PyVal × PyVal) : List (PyVal × PyVal) → Option (List (PyVal × PyVal))
  | [] => some [x]
  | y :: ys => match pyLt y.1 x.1 with
    | none => none
    | some true => (insertSortedK x ys).map (y :: ·)
    | some false => some (x :: y :: ys)

def sortListK : List (PyVal × PyVal) → Option (List (PyVal × PyVal))
  | [] => some []
  | x :: xs => (sortListK xs).bind (insertSortedK x)

def keyAll (key : String) : List PyVal → Option (List (PyVal × PyVal))
  | [] => some []
  | v :: vs => match sortKey key v with
    | none => none
    | some k => (keyAll key vs).map ((k, v) :: ·)

/-- `list.sort(key=…, reverse=…)`: the keys are computed first (a raising key function is a
    TypeError), then a stable sort by key; `reverse=True` keeps equal elements in their original
    order (= reverse, stable sort, reverse) -/
def pySortWith (key : String) (reverse : Bool) (xs : List PyVal) : Except NErr (List PyVal) :=
  match keyAll key xs with
  | none => .error .typeErr
  | some kvs =>
    match kvs with
    | [] => .ok []
    | [p] => .ok [p.2]
    | _ =>
      match sortListK (if reverse then kvs.reverse else kvs) with
      | none => .error .typeErr
      | some ys => .ok (if reverse then (ys.map (·.2)).reverse else ys.map (·.2))

/-- mutators of `list` and `collections.deque` on the element list -/
def nativeSeq (isDeque : Bool) (op : NOp) (xs : List PyVal) : Except NErr (List PyVal) :=
  match op with
  | .setitem k v => match intOf k with
    | none => .error .typeErr
    | some i => match normIndex xs.length i with
      | none => .error .indexErr
      | some j => .ok (setAt xs j v)
  | .delitem k => match intOf k with
    | none => .error .typeErr
    | some i => match normIndex xs.length i with
      | none => .error .indexErr
      | some j => .ok (delAt xs j)
  | .append v => .ok (xs ++ [v])
  | .appendleft v => if isDeque then .ok (v :: xs) else .error .typeErr
  | .extend vs => .ok (xs ++ vs)
  | .extendleft vs => if isDeque then .ok (vs.reverse ++ xs) else .error .typeErr
  | .insert i v => .ok (insertAt xs i v)
  | .remove v => match removeFirst xs v with
    | none => .error .valueErr
    | some ys => .ok ys
  | .pop k dflt =>
    if isDeque then
      (if xs.isEmpty then .error .indexErr else .ok xs.dropLast)
    else if dflt.isSome then .error .typeErr     -- `list.pop` takes at most one argument
    else match k with
      | none => if xs.isEmpty then .error .indexErr else .ok xs.dropLast
      | some kv => match intOf kv with
        | none => .error .typeErr
        | some i => match normIndex xs.length i with
          | none => .error .indexErr
          | some j => .ok (delAt xs j)
  | .popleft => if isDeque then (match xs with | [] => .error .indexErr | _ :: r => .ok r) else .error .typeErr
  | .clear => .ok []
  | .sort => if isDeque then .error .typeErr else pySort xs
  | .reverse => .ok xs.reverse
  | .rotate n => if isDeque then .ok (rotateRight xs n) else .error .typeErr
  | .iadd vs => .ok (xs ++ vs)
  | .imul n => .ok (repeatList xs n.toNat)
  | .setslice lo hi step vs => if isDeque then .error .typeErr else setSlice xs lo hi step vs
  | .delslice lo hi step => if isDeque then .error .typeErr else delSlice xs lo hi step
  | .sortWith key reverse => if isDeque then .error .typeErr else pySortWith key reverse xs
  | _ => .error .typeErr

def dictDel (k : PyVal) : List (PyVal × PyVal) → Option (List (PyVal × PyVal))
  | [] => none
  | (k', v') :: rest => if pyEq k k' then some rest else (dictDel k rest).map ((k', v') :: ·)

def dictGet (k : PyVal) : List (PyVal × PyVal) → Option PyVal
  | [] => none
  | (k', v') :: rest => if pyEq k k' then some v' else dictGet k rest

def dictSetN (k v : PyVal) : List (PyVal × PyVal) → List (PyVal × PyVal)
  | [] => [(k, v)]
  | (k', v') :: rest => if pyEq k k' then (k', v) :: rest else (k', v') :: dictSetN k v rest

def dictUpdate (kvs : List (PyVal × PyVal)) (d : List (PyVal × PyVal)) : List (PyVal × PyVal) :=
  kvs.foldl (fun acc kv => dictSetN kv.1 kv.2 acc) d

/-- mutators of `dict` on the association list -/
def nativeDict (op : NOp) (d : List (PyVal × PyVal)) : Except NErr (List (PyVal × PyVal)) :=
  match op with
  | .setitem k v => .ok (dictSetN k v d)
  | .delitem k => match dictDel k d with
    | none => .error .keyErr
    | some r => .ok r
  | .update kvs => .ok (dictUpdate kvs d)
  | .ior kvs => .ok (dictUpdate kvs d)
  | .pop (some k) dflt => match dictDel k d with
    | some r => .ok r
    | none => match dflt with
      | some _ => .ok d
      | none => .error .keyErr
  | .pop none _ => .error .typeErr
  | .popitem => if d.isEmpty then .error .keyErr else .ok d.dropLast
  | .setdefault k v => match dictGet k d with
    | some _ => .ok d
    | none => .ok (d ++ [(k, v)])
  | .clear => .ok []
  | _ => .error .typeErr

end Typedpy
