/-
  Sem/Native.lean — the mutators of Python's list / deque / dict as pure functions on the payload
  (the "natively mutated copy").  Errors are the containers' usual IndexError / KeyError /
  ValueError (`remove`) / TypeError (`sort` on incomparable elements, wrong argument types).
-/
import TypedpyModel.Core.Value
namespace Typedpy
open PyVal (pyEq)

inductive NErr where | indexErr | keyErr | valueErr | typeErr
deriving Repr, DecidableEq, Inhabited

/-- a mutating call with its arguments -/
inductive NOp where
  | setitem (k v : PyVal)
  | delitem (k : PyVal)
  | append (v : PyVal)
  | appendleft (v : PyVal)
  | extend (vs : List PyVal)
  | extendleft (vs : List PyVal)
  | insert (i : Int) (v : PyVal)
  | remove (v : PyVal)
  /-- `pop()` / `pop(i)` / `pop(k)` / `pop(k, default)` -/
  | pop (k : Option PyVal) (dflt : Option PyVal)
  | popleft
  | popitem
  | clear
  | sort
  | reverse
  | rotate (n : Int)
  | iadd (vs : List PyVal)
  | imul (n : Int)
  | update (kvs : List (PyVal × PyVal))
  | setdefault (k v : PyVal)
  | ior (kvs : List (PyVal × PyVal))
deriving Repr, Inhabited

def NOp.name : NOp → String
  | .setitem _ _ => "__setitem__" | .delitem _ => "__delitem__" | .append _ => "append"
  | .appendleft _ => "appendleft" | .extend _ => "extend" | .extendleft _ => "extendleft"
  | .insert _ _ => "insert" | .remove _ => "remove" | .pop _ _ => "pop" | .popleft => "popleft"
  | .popitem => "popitem" | .clear => "clear" | .sort => "sort" | .reverse => "reverse"
  | .rotate _ => "rotate" | .iadd _ => "__iadd__" | .imul _ => "__imul__" | .update _ => "update"
  | .setdefault _ _ => "setdefault" | .ior _ => "__ior__"

/-- Python index normalisation for item access: negative counts from the end; out of range = none -/
def normIndex (len : Nat) (i : Int) : Option Nat :=
  let j := if i < 0 then i + len else i
  if 0 ≤ j ∧ j < len then some j.toNat else none

def setAt : List PyVal → Nat → PyVal → List PyVal
  | [], _, _ => []
  | _ :: xs, 0, v => v :: xs
  | x :: xs, n + 1, v => x :: setAt xs n v

def delAt : List PyVal → Nat → List PyVal
  | [], _ => []
  | _ :: xs, 0 => xs
  | x :: xs, n + 1 => x :: delAt xs n

/-- `list.insert`: index clamped into `[0, len]` after adding `len` to negatives -/
def insertAt (xs : List PyVal) (i : Int) (v : PyVal) : List PyVal :=
  let j := if i < 0 then i + xs.length else i
  let k := if j < 0 then 0 else if j > xs.length then xs.length else j.toNat
  xs.take k ++ [v] ++ xs.drop k

def removeFirst : List PyVal → PyVal → Option (List PyVal)
  | [], _ => none
  | x :: xs, v => if pyEq x v then some xs else (removeFirst xs v).map (x :: ·)

mutual
/-- Python `<` on the modelled fragment: numbers, strings, and sequences (lexicographic: the first
    position where the elements are not `==` decides); `none` = TypeError (unorderable) -/
def pyLt : PyVal → PyVal → Option Bool
  | .str a, w => match w with | .str b => some (decide (a < b)) | _ => none
  | .list a, w => match w with | .list b => pyLtList a b | _ => none
  | .tuple a, w => match w with | .tuple b => pyLtList a b | _ => none
  | .deque a, w => match w with | .deque b => pyLtList a b | _ => none
  | .bool a, w => match w.asNum with | some q => some (Q.lt (Q.ofInt (if a then 1 else 0)) q) | none => none
  | .int a, w => match w.asNum with | some q => some (Q.lt (Q.ofInt a) q) | none => none
  | .float a, w => match w.asNum with | some q => some (Q.lt a q) | none => none
  | .dec a, w => match w.asNum with | some q => some (Q.lt a q) | none => none
  | _, _ => none
termination_by structural x _ => x
def pyLtList : List PyVal → List PyVal → Option Bool
  | [], w => some (!w.isEmpty)
  | x :: xs, w => match w with
    | [] => some false
    | y :: ys => if pyEq x y then pyLtList xs ys else pyLt x y
termination_by structural x _ => x
end

/-- insert `x` (which preceded the list's elements) into a sorted list, before the first element
    that is not smaller (stable); `none` = an unorderable pair -/
def insertSorted (x : PyVal) : List PyVal → Option (List PyVal)
  | [] => some [x]
  | y :: ys => match pyLt y x with
    | none => none
    | some true => (insertSorted x ys).map (y :: ·)
    | some false => some (x :: y :: ys)

/-- stable insertion sort (processing from the right keeps equal elements in order) -/
def sortList : List PyVal → Option (List PyVal)
  | [] => some []
  | x :: xs => (sortList xs).bind (insertSorted x)

/-- `list.sort()`: TypeError when two elements cannot be ordered -/
def pySort (xs : List PyVal) : Except NErr (List PyVal) :=
  match xs with
  | [] => .ok []
  | [x] => .ok [x]
  | _ => match sortList xs with
    | some ys => .ok ys
    | none => .error .typeErr

def repeatList (xs : List PyVal) : Nat → List PyVal
  | 0 => []
  | n + 1 => xs ++ repeatList xs n

def rotateRight (xs : List PyVal) (n : Int) : List PyVal :=
  if xs.isEmpty then xs
  else
    let k := (n % xs.length).toNat
    xs.drop (xs.length - k) ++ xs.take (xs.length - k)

def intOf : PyVal → Option Int
  | .int i => some i
  | .bool b => some (if b then 1 else 0)
  | _ => none

/-- mutators of `list` and `collections.deque` on the element list -/
def nativeSeq (isDeque : Bool) (op : NOp) (xs : List PyVal) : Except NErr (List PyVal) :=
  match op with
  | .setitem k v => match intOf k with
    | none => .error .typeErr
    | some i => match normIndex xs.length i with
      | none => .error .indexErr
      | some j => .ok (setAt xs j v)
  | .delitem k => match intOf k with
    | none => .error .typeErr
    | some i => match normIndex xs.length i with
      | none => .error .indexErr
      | some j => .ok (delAt xs j)
  | .append v => .ok (xs ++ [v])
  | .appendleft v => if isDeque then .ok (v :: xs) else .error .typeErr
  | .extend vs => .ok (xs ++ vs)
  | .extendleft vs => if isDeque then .ok (vs.reverse ++ xs) else .error .typeErr
  | .insert i v => .ok (insertAt xs i v)
  | .remove v => match removeFirst xs v with
    | none => .error .valueErr
    | some ys => .ok ys
  | .pop k _ =>
    if isDeque then
      (if xs.isEmpty then .error .indexErr else .ok xs.dropLast)
    else match k with
      | none => if xs.isEmpty then .error .indexErr else .ok xs.dropLast
      | some kv => match intOf kv with
        | none => .error .typeErr
        | some i => match normIndex xs.length i with
          | none => .error .indexErr
          | some j => .ok (delAt xs j)
  | .popleft => if isDeque then (match xs with | [] => .error .indexErr | _ :: r => .ok r) else .error .typeErr
  | .clear => .ok []
  | .sort => if isDeque then .error .typeErr else pySort xs
  | .reverse => .ok xs.reverse
  | .rotate n => if isDeque then .ok (rotateRight xs n) else .error .typeErr
  | .iadd vs => .ok (xs ++ vs)
  | .imul n => .ok (repeatList xs n.toNat)
  | _ => .error .typeErr

def dictDel (k : PyVal) : List (PyVal × PyVal) → Option (List (PyVal × PyVal))
  | [] => none
  | (k', v') :: rest => if pyEq k k' then some rest else (dictDel k rest).map ((k', v') :: ·)

def dictGet (k : PyVal) : List (PyVal × PyVal) → Option PyVal
  | [] => none
  | (k', v') :: rest => if pyEq k k' then some v' else dictGet k rest

def dictSetN (k v : PyVal) : List (PyVal × PyVal) → List (PyVal × PyVal)
  | [] => [(k, v)]
  | (k', v') :: rest => if pyEq k k' then (k', v) :: rest else (k', v') :: dictSetN k v rest

def dictUpdate (kvs : List (PyVal × PyVal)) (d : List (PyVal × PyVal)) : List (PyVal × PyVal) :=
  kvs.foldl (fun acc kv => dictSetN kv.1 kv.2 acc) d

/-- mutators of `dict` on the association list -/
def nativeDict (op : NOp) (d : List (PyVal × PyVal)) : Except NErr (List (PyVal × PyVal)) :=
  match op with
  | .setitem k v => .ok (dictSetN k v d)
  | .delitem k => match dictDel k d with
    | none => .error .keyErr
    | some r => .ok r
  | .update kvs => .ok (dictUpdate kvs d)
  | .ior kvs => .ok (dictUpdate kvs d)
  | .pop (some k) dflt => match dictDel k d with
    | some r => .ok r
    | none => match dflt with
      | some _ => .ok d
      | none => .error .keyErr
  | .pop none _ => .error .typeErr
  | .popitem => if d.isEmpty then .error .keyErr else .ok d.dropLast
  | .setdefault k v => match dictGet k d with
    | some _ => .ok d
    | none => .ok (d ++ [(k, v)])
  | .clear => .ok []
  | _ => .error .typeErr

end Typedpy
