/-
  Sem/Entry.lean — the validating entry points that produce an instance from an existing one
  (structures.py: __copy__, __deepcopy__, pickling via __getstate__, shallow_clone_with_overrides,
  from_other_class, cast_to).  On the value level copy / deepcopy / unpickle return an equal
  instance; the others rebuild the keyword arguments from the declared fields and go through the
  constructor again.
-/
import TypedpyModel.Sem.Validate
namespace Typedpy

inductive EntryOp where
  | copy | deepcopy | pickle
  /-- `x.shallow_clone_with_overrides(**kw)` -/
  | shallowClone (kw : List (String × PyVal))
  /-- `cls.from_other_class(x, ignore_props=ignore, **kw)` with the instance itself as source -/
  | fromOtherClass (ignore : List String) (kw : List (String × PyVal))
  /-- `cls.from_other_class(m, ignore_props=ignore, **kw)` with a MAPPING of the instance's set attributes
      as source: a missing key reads as None (a mapping has no defaults) -/
  | fromMapping (ignore : List String) (kw : List (String × PyVal))
  /-- `x.cast_to(cls)` for the instance's own class -/
  | castTo
deriving Repr, Inhabited

def fieldNames : FieldDecl → List String
  | .struct _ fields _ => fields.map (·.1)
  | _ => []

def classDefaults : FieldDecl → List (String × PyVal)
  | .struct _ _ defaults => defaults
  | _ => []

def instAttrs : PyVal → List (String × PyVal)
  | .inst _ attrs => attrs
  | _ => []

/-- declared fields that currently hold a non-None value -/
def setFields (cls : FieldDecl) (x : PyVal) : List (String × PyVal) :=
  (fieldNames cls).filterMap fun n =>
    match lookup n (instAttrs x) with
    | some v => if v.isNone then none else some (n, v)
    | none => none

/-- `{**base, **kw}` -/
def overrideKw (base kw : List (String × PyVal)) : List (String × PyVal) :=
  base.filter (fun a => (lookup a.1 kw).isNone) ++ kw

def applyEntry (O : Oracles) (cls : FieldDecl) (x : PyVal) : EntryOp → R PyVal
  | .copy => .ok x
  | .deepcopy => .ok x
  | .pickle => .ok x
  | .shallowClone kw => construct O cls (overrideKw (setFields cls x) kw)
  | .fromOtherClass ignore kw =>
    -- every declared field is read with getattr (an unset field reads as its default, else None)
    -- and passed explicitly
    construct O cls
      (((fieldNames cls).filter (fun n => !ignore.contains n && (lookup n kw).isNone)).map
          (fun n => (n, (lookup n (instAttrs x)).getD ((lookup n (classDefaults cls)).getD .none))) ++ kw)
  | .fromMapping ignore kw =>
    construct O cls
      (((fieldNames cls).filter (fun n => !ignore.contains n && (lookup n kw).isNone)).map
          (fun n => (n, (lookup n (instAttrs x)).getD .none)) ++ kw)
  | .castTo => construct O cls (setFields cls x)

/-- the keyword arguments a rebuilding entry point hands to the constructor (`none` for the copying ones) -/
def entryKw (cls : FieldDecl) (x : PyVal) : EntryOp → Option (List (String × PyVal))
  | .copy => none
  | .deepcopy => none
  | .pickle => none
  | .shallowClone kw => some (overrideKw (setFields cls x) kw)
  | .fromOtherClass ignore kw =>
    some (((fieldNames cls).filter (fun n => !ignore.contains n && (lookup n kw).isNone)).map
          (fun n => (n, (lookup n (instAttrs x)).getD ((lookup n (classDefaults cls)).getD .none))) ++ kw)
  | .fromMapping ignore kw =>
    some (((fieldNames cls).filter (fun n => !ignore.contains n && (lookup n kw).isNone)).map
          (fun n => (n, (lookup n (instAttrs x)).getD .none)) ++ kw)
  | .castTo => some (setFields cls x)

/-- every rebuilding entry point IS the constructor applied to `entryKw` -/
theorem applyEntry_eq_construct (O : Oracles) (cls : FieldDecl) (x : PyVal) (op : EntryOp)
    (kw : List (String × PyVal)) (h : entryKw cls x op = some kw) :
    applyEntry O cls x op = construct O cls kw := by
  cases op <;> simp only [entryKw, Option.some.injEq, reduceCtorEq] at h <;> subst h <;> rfl

/-- apply a chain of entry points; the first failure aborts -/
def runChain (O : Oracles) (cls : FieldDecl) : PyVal → List EntryOp → R PyVal
  | x, [] => .ok x
  | x, op :: rest => bindE (applyEntry O cls x op) fun y => runChain O cls y rest

/-! ### the class's own `__validate__` hook

`Structure.__init__` calls `self.__validate__()` after all fields are set.  The hook is an oracle of the
model (`Oracles.hookOk`, a verdict on the attribute list), universally quantified in the theorems; with the
default oracle (no hook) the hooked functions coincide with the plain ones. -/

/-- keyword construction followed by the class's `__validate__` hook (its exceptions surface as ValueError
    in the correspondence suites) -/
def constructH (O : Oracles) (cls : FieldDecl) (kw : List (String × PyVal)) : R PyVal :=
  bindE (construct O cls kw) fun x => if O.hookOk (instAttrs x) then .ok x else .error .valueErr

/-- the entry points with the hook: copies keep the instance, the rebuilding ones go through the hooked
    constructor -/
def applyEntryH (O : Oracles) (cls : FieldDecl) (x : PyVal) (op : EntryOp) : R PyVal :=
  match op with
  | .copy | .deepcopy | .pickle => .ok x
  | _ => bindE (applyEntry O cls x op) fun y => if O.hookOk (instAttrs y) then .ok y else .error .valueErr

def runChainH (O : Oracles) (cls : FieldDecl) : PyVal → List EntryOp → R PyVal
  | x, [] => .ok x
  | x, op :: rest => bindE (applyEntryH O cls x op) fun y => runChainH O cls y rest

end Typedpy
