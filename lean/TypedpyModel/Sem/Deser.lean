/-
  Sem/Deser.lean — executable model of mapper-free deserialization (serialization.py:
  deserialize_single_field and helpers, construct_fields_map, deserialize_structure_internal):
  the document is pre-processed field by field into keyword arguments and then handed to the
  constructor (Sem/Validate.construct), which does the real validation.
-/
import TypedpyModel.Sem.Serde
namespace Typedpy
open PyVal (pyEq)

/-- flags of `Deserializer.deserialize` / TypedPyDefaults that matter without mappers -/
structure DeserOpts where
  /-- `keep_undefined` after the wrapper's adjustment (None counts as false) -/
  keepUndefined : Bool := true
  /-- `TypedPyDefaults.ignore_invalid_additional_properties_in_deserialization` -/
  ignoreInvalidAddl : Bool := true
deriving Repr, Inhabited

/-- item errors of list-like deserialization are re-raised as ValueError -/
def toValueErr {α} (r : R α) : R α :=
  match r with
  | .error .typeErr => .error .valueErr
  | .error .both => .error .valueErr
  | other => other

/-- `field._validate(v)`: the value is returned as it is (no conversion) -/
def dValidated (chk : R PyVal) (v : PyVal) : R PyVal :=
  match chk with
  | .ok _ => .ok v
  | .error e => .error e

def noSign (o : NumOpts) : NumOpts := { o with sign := .any }

def docSeq : PyVal → Option (List PyVal)
  | .list xs | .tuple xs | .set _ xs => some xs
  | _ => none

/-- `deserialize_list_like` -/
def dSeq (mk : List PyVal → R PyVal) (g : List PyVal → R (List PyVal)) (v : PyVal) : R PyVal :=
  match docSeq v with
  | none => .error .valueErr
  | some xs => bindE (g xs) mk

def mkSet (xs : List PyVal) : R PyVal :=
  if xs.any unhashable then .error .typeErr else .ok (.set false (dedup xs))

def dEnumCls (cls : String) (names : List String) (v : PyVal) : R PyVal :=
  match v with
  | .str n => if names.contains n then .ok (.enumv cls n) else .error .valueErr
  | w => dValidated (vEnumCls cls names w) w

def dMap (g : List (PyVal × PyVal) → R (List (PyVal × PyVal))) (v : PyVal) : R PyVal :=
  match v with
  | .dict kvs => bindE (g kvs) fun r =>
      if r.any (fun kv => unhashable kv.1) then .error .typeErr else .ok (.dict (dictOfPairs r))
  | _ => .error .typeErr

/-- `construct_fields_map` for one field: a truthy input propagates its error at once, a falsy one
    has its TypeError / ValueError collected -/
def truthy : PyVal → Bool
  | .none => false
  | .bool b => b
  | .int i => i != 0
  | .float q => q.num != 0
  | .dec q => q.num != 0
  | .str s => !s.isEmpty
  | .list xs | .tuple xs | .deque xs | .set _ xs => !xs.isEmpty
  | .dict kvs => !kvs.isEmpty
  | _ => true

def collectable : ErrCls → Bool
  | .typeErr | .valueErr | .both => true
  | .other _ => false

/-- the string-keyed entries of an object document -/
def strKw : List (PyVal × PyVal) → List (String × PyVal)
  | [] => []
  | (.str k, v) :: rest => (k, v) :: strKw rest
  | _ :: rest => strKw rest

/-- `deserialize_structure_reference` (inline StructureReference): a dict document; any failure
    is re-raised as ValueError; the validated keyword arguments are returned.  A key that is not
    a string (possible in a Python document, e.g. the serialization of a `Map[Boolean, …]`) is
    one more undeclared key: dropped when the flags drop undeclared keys (`drop`), else the
    constructor call fails (`keywords must be strings`) -/
def dInline (v : PyVal) (drop : Bool) (k : List (String × PyVal) → R PyVal) : R PyVal :=
  match v with
  | .dict kvs => (match kwOfDict kvs with
    | none =>
      if drop then (match k (strKw kvs) with
        | .ok x => .ok x
        | .error _ => .error .valueErr)
      else .error .valueErr
    | some kw => match k kw with
      | .ok x => .ok x
      | .error _ => .error .valueErr)
  | _ => .error .valueErr

/-- ClassReference: an instance passes through, a dict document goes through
    deserialize_structure_internal (`pre` = the per-field pass, whose errors come before the
    failing constructor call when a non-string key is kept) -/
def dClassRef (v : PyVal) (drop : Bool) (pre : List (String × PyVal) → R Unit)
    (k : List (String × PyVal) → R PyVal) : R PyVal :=
  match v with
  | .inst _ _ => .ok v
  | .dict kvs => (match kwOfDict kvs with
    | none => if drop then k (strKw kvs) else bindE (pre (strKw kvs)) fun _ => .error .typeErr
    | some kw => k kw)
  | _ => .error .typeErr

/-- undeclared keys are passed on to the constructor -/
def keepsExtras (opts : DeserOpts) (c : ClassOpts) : Bool :=
  opts.keepUndefined && (c.addl || !opts.ignoreInvalidAddl)

/-- undeclared keys that are passed on to the constructor -/
def deserExtras (opts : DeserOpts) (c : ClassOpts) (names : List String) (doc : List (String × PyVal)) :
    List (String × PyVal) :=
  doc.filter fun a => !names.contains a.1 && opts.keepUndefined && (c.addl || !opts.ignoreInvalidAddl)

mutual
/-- `deserialize_single_field(field, v, ignore_none=ign)` -/
def deser (O : Oracles) (opts : DeserOpts) (ign : Bool) : FieldDecl → PyVal → R PyVal
  | .number o, v => if v.isNone && ign then .ok v else dValidated (vNumber (noSign o) v) v
  | .integer o, v => if v.isNone && ign then .ok v else dValidated (vInteger (noSign o) v) v
  | .float o, v => if v.isNone && ign then .ok v else dValidated (vFloat (noSign o) v) v
  | .string lo hi pat, v => if v.isNone && ign then .ok v else dValidated (vString O lo hi pat v) v
  | .boolean, v => if v.isNone && ign then .ok v else dValidated (vBoolean v) v
  | .enumLit vals, v => if v.isNone && ign then .ok v else dValidated (vEnumLit vals v) v
  | .enumCls cls names, v => if v.isNone && ign then .ok v else dEnumCls cls names v
  | .seqAny k _, v => if v.isNone && ign then .ok v else dSeq (fun ys => .ok (mkSeq k ys)) (fun xs => .ok xs) v
  | .seqOf k f _, v =>
    if v.isNone && ign then .ok v
    else dSeq (fun ys => .ok (mkSeq k ys)) (fun xs => toValueErr (mapE (deser O opts false f) xs)) v
  | .seqPos k fs _ _, v =>
    if v.isNone && ign then .ok v
    else dSeq (fun ys => .ok (mkSeq k ys)) (fun xs => toValueErr (deserZip O opts fs xs)) v
  | .setAny _ _, v => if v.isNone && ign then .ok v else dSeq mkSet (fun xs => .ok xs) v
  | .setOf _ f _, v =>
    if v.isNone && ign then .ok v
    else dSeq mkSet (fun xs => toValueErr (mapE (deser O opts false f) xs)) v
  | .tupleOf f _, v =>
    if v.isNone && ign then .ok v
    else dSeq (fun ys => .ok (.tuple ys)) (fun xs => toValueErr (mapE (deser O opts false f) xs)) v
  | .tuplePos fs _, v =>
    if v.isNone && ign then .ok v
    else dSeq (fun ys => .ok (.tuple ys)) (fun xs => toValueErr (deserZip O opts fs xs)) v
  | .mapAny _, v => if v.isNone && ign then .ok v else dMap (fun kvs => .ok kvs) v
  | .mapOf kf vf _, v =>
    if v.isNone && ign then .ok v
    else dMap (mapE (fun (kv : PyVal × PyVal) =>
      -- `res[deser(key)] = deser(value)`: Python evaluates the right-hand side first
      -- deserialize_map hands the caller's keep_undefined on to the VALUES (since /repo 73883e4; before, a Map
      -- value was read with the default True).  The KEY is read with the default; a key document is hashable,
      -- hence never an object, and only an object document looks at the flag: modelled with the same `opts`
      bindE (deser O opts false vf kv.2) fun v' =>
      bindE (deser O opts false kf kv.1) fun k' => .ok (k', v'))) v
  | .struct c fields defaults, v =>
    if v.isNone && ign then .ok v
    else if c.inline then
      dInline v (!keepsExtras opts c) fun kw =>
        bindE (bindE (deserFields O opts c kw fields false)
          (fun args => .ok (deserExtras opts c (fields.map (·.1)) kw ++ args))) fun args =>
        bindE (vConstruct c (fields.map (·.1)) args (validateFields O c defaults args fields)) fun _ =>
          .ok (.dict (args.map fun a => (.str a.1, a.2)))
    else
      dClassRef v (!keepsExtras opts c)
        (fun kw => bindE (deserFields O opts c kw fields false) fun _ => .ok ()) fun kw =>
        bindE (bindE (deserFields O opts c kw fields false)
          (fun args => .ok (deserExtras opts c (fields.map (·.1)) kw ++ args))) fun args =>
        vConstruct c (fields.map (·.1)) args (validateFields O c defaults args fields)
  | .anyOf fs, v => if v.isNone && ign then .ok v else deserAny O opts fs v
  | .oneOf fs, v => if v.isNone && ign then .ok v else deserLast O opts fs v v 0 fs.length
  | .allOf fs, v => if v.isNone && ign then .ok v else deserAll O opts fs v v
  | .notF fs, v => if v.isNone && ign then .ok v else deserNot O opts fs v v
  | .noneF, v => if v.isNone then .ok v else .error .valueErr
  | .anything, v => .ok v
termination_by structural f _ => f

/-- positional items of a list-like: element `i` through field `i` (ValueError when the document
    is shorter), the surplus kept raw -/
def deserZip (O : Oracles) (opts : DeserOpts) : List FieldDecl → List PyVal → R (List PyVal)
  | [], xs => .ok xs
  | _ :: _, [] => .error .valueErr
  | f :: fs, x :: xs =>
    bindE (deser O opts false f x) fun y => bindE (deserZip O opts fs xs) fun ys => .ok (y :: ys)
termination_by structural fs _ => fs

/-- AnyOf: the first option that deserializes -/
def deserAny (O : Oracles) (opts : DeserOpts) : List FieldDecl → PyVal → R PyVal
  | [], _ => .error .valueErr
  | f :: fs, v => match deser O opts false f v with
    | .ok y => .ok y
    | .error _ => deserAny O opts fs v
termination_by structural fs _ => fs

/-- OneOf: every option is tried; the result of the last one that deserializes is returned
    (ValueError only if none does) -/
def deserLast (O : Oracles) (opts : DeserOpts) : List FieldDecl → PyVal → PyVal → Nat → Nat → R PyVal
  | [], _, acc, failures, n => if failures == n then .error .valueErr else .ok acc
  | f :: fs, v, acc, failures, n => match deser O opts false f v with
    | .ok y => deserLast O opts fs v y failures n
    | .error _ => deserLast O opts fs v acc (failures + 1) n
termination_by structural fs _ _ _ _ => fs

/-- AllOf: every option must deserialize; the last result is returned -/
def deserAll (O : Oracles) (opts : DeserOpts) : List FieldDecl → PyVal → PyVal → R PyVal
  | [], _, acc => .ok acc
  | f :: fs, v, _ => match deser O opts false f v with
    | .ok y => deserAll O opts fs v y
    | .error _ => .error .valueErr
termination_by structural fs _ _ => fs

/-- NotField: never fails here; the result of the last option that deserializes (else the input) -/
def deserNot (O : Oracles) (opts : DeserOpts) : List FieldDecl → PyVal → PyVal → R PyVal
  | [], _, acc => .ok acc
  | f :: fs, v, acc => match deser O opts false f v with
    | .ok y => deserNot O opts fs v y
    | .error _ => deserNot O opts fs v acc
termination_by structural fs _ _ => fs

/-- `construct_fields_map` over the declared fields (in the order of the declaration); `errs` = a falsy input's TypeError / ValueError was collected -/
def deserFields (O : Oracles) (opts : DeserOpts) (c : ClassOpts) (doc : List (String × PyVal)) :
    List (String × FieldDecl) → Bool → R (List (String × PyVal))
  | [], errs => if errs then .error .both else .ok []
  | (name, f) :: rest, errs =>
    match lookup name doc with
    | none => deserFields O opts c doc rest errs
    | some v =>
      -- the aggregated (identity) mapper always has an entry for the field, and a mapped input
      -- that is None is not processed at all: a null is the same as an absent key
      if v.isNone then deserFields O opts c doc rest errs else
      match deser O opts c.ignoreNone f v with
      | .ok y => bindE (deserFields O opts c doc rest errs) fun ys => .ok ((name, y) :: ys)
      | .error e => .error e    -- fail-fast mode (the default): the field's own exception propagates
termination_by structural fs _ => fs

end

end Typedpy

namespace Typedpy

/-- `Deserializer(cls).deserialize(doc, keep_undefined=…)` without mappers -/
def deserialize (O : Oracles) (opts : DeserOpts) (cls : FieldDecl) (doc : PyVal) : R PyVal :=
  match cls with
  | .struct c fields defaults =>
    (match doc with
      | .dict kvs =>
        dClassRef (.dict kvs) (!keepsExtras opts c)
          (fun kw => bindE (deserFields O opts c kw fields false) fun _ => .ok ()) fun kw =>
          bindE (bindE (deserFields O opts c kw fields false)
              (fun args => .ok (deserExtras opts c (fields.map (·.1)) kw ++ args))) fun args =>
            vConstruct c (fields.map (·.1)) args (validateFields O c defaults args fields)
      | _ => .error .typeErr)
  | _ => .error (.other "not-a-class")

/-- `serialize(x)` / `Serializer(x).serialize()` (not compact, no mappers) -/
def serialize (O : Oracles) (cls : FieldDecl) (x : PyVal) : R PyVal := ser O cls x

end Typedpy
