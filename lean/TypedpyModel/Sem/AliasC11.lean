/-
  Sem/AliasC11.lean — heap model of `copy.copy`, `copy.deepcopy` and the pickle round trip for
  Structure instances and the typed collection wrappers (`_ListStruct`, `_DictStruct`,
  `_DequeStruct`), on the heap / ownership model of Sem/Alias.lean (C19).

  Value semantics (Sem/EqHash.lean) cannot say which objects two instances share.  Here identity is
  an address: a Structure instance is a cell whose items are its `__dict__` entries; a wrapper is a
  cell whose items are its elements plus the back-reference `_instance` to the Structure that owns
  it (every mutator of a wrapper re-assigns the field of *that* object).  What the code does at
  each kind of object is a row of the regenerated table `Generated/AliasingC11.lean`
  (extract/aliasing_c11.py: AST idioms of `__copy__` / `__deepcopy__` / `__getstate__` /
  `__setstate__` / `__reduce__` + an identity probe on the real code):

    mode   — `self_` (the object itself is returned: an immutable structure under deepcopy),
             `shallow` (new object, same first-level values), `deep` (new object, values copied);
    back   — where the back-reference of the copied wrapper points: `detach` (a plain container
             is returned), `memoOrOwner` (`memo.get(id(owner), owner)`: the new owner when the
             owner is being copied, else the ORIGINAL owner), `memoOrDetach` (the new owner when the
             owner is being copied, else a plain container: the repaired code), `memoOrCopyOwner` (pickle: the owner
             travels with the wrapper), `owner` (the original owner, always);
    ownerMutated — the operation re-assigns the owner's field while copying
             (`copy.copy(x.arr)`: copyreg re-appends the items through the overridden `append`).

  `dcItem strict` is the copy walk (fuel = recursion limit).  With `strict = true` it fails
  wherever the real walk would hand on an existing object (immutable structure returned as is, a
  back-reference left pointing at an owner that is not being copied): a successful strict walk
  is, unconditionally, a walk that allocates everything it returns (`Lemmas/AliasC11.lean`), and
  then the real walk (`strict = false`) returns the very same result.
-/
import TypedpyModel.Sem.Alias
namespace Typedpy.AliasC11
open Typedpy.Alias

inductive CopyOp
  | copy | deepcopy | pickle
  deriving DecidableEq, Repr, Inhabited

/-- kinds of objects the copy protocol distinguishes -/
inductive CKind
  | structure | immStructure | listStruct | dictStruct | dequeStruct | plain
  deriving DecidableEq, Repr, Inhabited

inductive CMode
  | self_ | shallow | deep
  deriving DecidableEq, Repr, Inhabited

inductive BackRef
  | detach | memoOrOwner | memoOrDetach | memoOrCopyOwner | owner
  deriving DecidableEq, Repr, Inhabited

/-- one row of the generated table -/
structure CopyRow where
  op : CopyOp
  kind : CKind
  mode : CMode
  back : BackRef
  ownerMutated : Bool
  astMode : String       -- what the AST idiom matcher read off the source ("" = no recognisable idiom)
  agree : Bool           -- AST reading and identity probe agree (true when there is no idiom)
  deriving DecidableEq, Repr, Inhabited

structure KindRow where
  mode : CMode
  back : BackRef
  ownerMutated : Bool := false
  deriving DecidableEq, Repr, Inhabited

/-- per-operation projection of the table; a kind the table does not know gets the unsafe answer
    (the object itself, bound to the original owner) -/
def projOf (tbl : List CopyRow) (op : CopyOp) (k : CKind) : KindRow :=
  match tbl.find? (fun r => r.op == op && r.kind == k) with
  | some r => { mode := r.mode, back := r.back, ownerMutated := r.ownerMutated }
  | none => { mode := .self_, back := .owner }

/-- Python-level kind of a cell, by its tag -/
def kindOfTag (t : String) : CKind :=
  if t == "Structure" then .structure
  else if t == "ScratchStructure" then .structure      -- the bare `Structure()` that owns wrappers nested in a collection
  else if t == "ImmutableStructure" then .immStructure
  else if t == "_ListStruct" then .listStruct
  else if t == "_DictStruct" then .dictStruct
  else if t == "_DequeStruct" then .dequeStruct
  else .plain

def CKind.isWrapper : CKind → Bool
  | .listStruct | .dictStruct | .dequeStruct => true
  | _ => false

def CKind.isStruct : CKind → Bool
  | .structure | .immStructure => true
  | _ => false

/-- the plain container a detached copy of a wrapper is -/
def plainTag (t : String) : String :=
  if t == "_ListStruct" then "list" else if t == "_DictStruct" then "dict"
  else if t == "_DequeStruct" then "deque" else t

/-- key of a wrapper's back-reference to its owner -/
def backKey : String := "_instance"

def elemsOf (its : List (String × Item)) : List (String × Item) := its.filter fun p => p.1 != backKey
def backOf (its : List (String × Item)) : Option Item := lookupItem backKey its

def memoFind (memo : List (Nat × Nat)) (a : Nat) : Option Nat :=
  match memo.find? (fun p => p.1 == a) with
  | some p => some p.2
  | none => none

/-- `<wrapper>.__deepcopy__(memo)` / its pickle round trip: the elements are copied by `rec`
    (`deepcopy(v)` *without* the memo), the back-reference is resolved as the table row says -/
def dcWrapper (rec : Heap → Item → R Item) (strict : Bool) (B : BackRef) (memo : List (Nat × Nat))
    (h : Heap) (w : Nat) : R Item :=
  match mapItems rec h (elemsOf (h.cells w).items) with
  | (h1, none) => (h1, none)
  | (h1, some its) =>
    match backOf (h.cells w).items with
    | some (.ref o) =>
      match B with
      | .detach => allocLike h1 (plainTag (h.cells w).tag) its
      | .owner => if strict then (h1, none) else allocLike h1 (h.cells w).tag (its ++ [(backKey, .ref o)])
      | .memoOrOwner =>
        match memoFind memo o with
        | some n => allocLike h1 (h.cells w).tag (its ++ [(backKey, .ref n)])
        | none => if strict then (h1, none) else allocLike h1 (h.cells w).tag (its ++ [(backKey, .ref o)])
      | .memoOrDetach =>
        match memoFind memo o with
        | some n => allocLike h1 (h.cells w).tag (its ++ [(backKey, .ref n)])
        | none =>
          -- "copied on its own" is said of a wrapper that is the live field value of a real instance; a wrapper
          -- nested in a collection (owner: a scratch `Structure()`) stays bound to that scratch owner
          if (h.cells o).tag == "ScratchStructure" then
            (if strict then (h1, none) else allocLike h1 (h.cells w).tag (its ++ [(backKey, .ref o)]))
          else allocLike h1 (plainTag (h.cells w).tag) its
      | .memoOrCopyOwner =>
        match memoFind memo o with
        | some n => allocLike h1 (h.cells w).tag (its ++ [(backKey, .ref n)])
        | none =>
          match rec h1 (.ref o) with
          | (h2, none) => (h2, none)
          | (h2, some io) => allocLike h2 (h.cells w).tag (its ++ [(backKey, io)])
    -- a back-reference that is not a heap object (the `_NestedOwner` stand-in of a nested wrapper is dumped
    -- as an atom): kept as it is
    | some (.atom v) => allocLike h1 (h.cells w).tag (its ++ [(backKey, .atom v)])
    | none => allocLike h1 (h.cells w).tag its

/-- one `__dict__` entry of the structure `self` being copied into `new`: a wrapper is copied with
    the memo `{self ↦ new}`, anything else by `recV` (the walk "inside an owner that is being copied") -/
def dcAttr (recV : Heap → Item → R Item) (strict : Bool) (T : CKind → KindRow) (self new : Nat)
    (h : Heap) : Item → R Item
  | .atom v => (h, some (.atom v))
  | .ref v =>
    if (kindOfTag (h.cells v).tag).isWrapper then
      dcWrapper recV strict (T (kindOfTag (h.cells v).tag)).back [(self, new)] h v
    else recV h (.ref v)

/-- one object: `Structure.__deepcopy__` (`cls.__new__`, memo, every `__dict__` entry re-set),
    a wrapper met on its own (empty memo), a plain container (rebuilt element by element).
    `via` = the object is met inside a value that its owner re-assigns through `setattr(result, k, …)`:
    the field's `__set__` rebuilds a typed wrapper nested in the value and binds it to a FRESH scratch
    owner (so does the pickle memo) — modelled as: the scratch owner is copied along. -/
def dcNode (rec recV : Heap → Item → R Item) (strict : Bool) (T : CKind → KindRow) (via : Bool)
    (h : Heap) (a : Nat) : R Item :=
  if (kindOfTag (h.cells a).tag).isStruct then
    match (T (kindOfTag (h.cells a).tag)).mode with
    | .self_ => if strict then (h, none) else (h, some (.ref a))
    | .shallow => if strict then (h, none) else allocLike h (h.cells a).tag (h.cells a).items
    | .deep =>
      match mapItems (dcAttr recV strict T a h.next) (h.alloc ⟨(h.cells a).tag, []⟩).1 (h.cells a).items with
      | (h2, none) => (h2, none)
      | (h2, some its) => (h2.write h.next ⟨(h.cells a).tag, its⟩, some (.ref h.next))
  else if (kindOfTag (h.cells a).tag).isWrapper then
    if via then dcWrapper recV strict .memoOrCopyOwner [] h a
    else dcWrapper rec strict (T (kindOfTag (h.cells a).tag)).back [] h a
  else
    match mapItems rec h (h.cells a).items with
    | (h1, none) => (h1, none)
    | (h1, some its) => allocLike h1 (h.cells a).tag its

/-- `copy.deepcopy(obj)` / `pickle.loads(pickle.dumps(obj))` under the table projection `T` -/
def dcItem (strict : Bool) (T : CKind → KindRow) : Nat → Bool → Heap → Item → R Item
  | _, _, h, .atom v => (h, some (.atom v))
  | 0, _, h, .ref _ => (h, none)
  | n + 1, via, h, .ref a => dcNode (dcItem strict T n via) (dcItem strict T n true) strict T via h a

/-- replace the value stored under `name` (first match) -/
def setItemC (name : String) (v : Item) : List (String × Item) → List (String × Item)
  | [] => []
  | (k, x) :: rest => if k = name then (k, v) :: rest else (k, x) :: setItemC name v rest

/-- the key under which cell `o` holds a reference to `w` -/
def keyOf (w : Nat) : List (String × Item) → Option String
  | [] => none
  | (k, .ref a) :: rest => if a = w then some k else keyOf w rest
  | (_, .atom _) :: rest => keyOf w rest

/-- `copy.copy(obj)`: a Structure gets a new `__dict__` with the same values; a wrapper is
    reconstructed by copyreg (`__reduce_ex__`: new object, `__setstate__`, then every item is
    stored again through the overridden `append` / `__setitem__`, which — the row's
    `ownerMutated` — re-assigns the field of the owner the state names: the ORIGINAL owner) -/
def copyTop (T : CKind → KindRow) (h : Heap) (a : Nat) : R Item :=
  if (kindOfTag (h.cells a).tag).isWrapper then
    match (T (kindOfTag (h.cells a).tag)).back, backOf (h.cells a).items with
    | .detach, _ => allocLike h (plainTag (h.cells a).tag) (elemsOf (h.cells a).items)
    | _, some (.ref o) =>
      if (T (kindOfTag (h.cells a).tag)).ownerMutated then
        -- the owner's field now holds a new wrapper with the items stored twice; so does the result
        let dbl := elemsOf (h.cells a).items ++ elemsOf (h.cells a).items ++ [(backKey, Item.ref o)]
        let p := h.alloc ⟨(h.cells a).tag, dbl⟩
        let q := p.1.alloc ⟨(h.cells a).tag, dbl⟩
        match keyOf a (h.cells o).items with
        | some k => (q.1.write o ⟨(h.cells o).tag, setItemC k (.ref p.2) (h.cells o).items⟩, some (.ref q.2))
        | none => (q.1, some (.ref q.2))
      else allocLike h (h.cells a).tag (h.cells a).items
    | _, _ => allocLike h (h.cells a).tag (h.cells a).items
  else
    match (T (kindOfTag (h.cells a).tag)).mode with
    | .self_ => (h, some (.ref a))
    | _ => allocLike h (h.cells a).tag (h.cells a).items

/-- the three operations of the statement on an object -/
def copyOp (tbl : List CopyRow) (op : CopyOp) (strict : Bool) (fuel : Nat) (h : Heap) (a : Nat) : R Item :=
  match op with
  | .copy => copyTop (projOf tbl .copy) h a
  | .deepcopy => dcItem strict (projOf tbl .deepcopy) fuel false h (.ref a)
  | .pickle => dcItem strict (projOf tbl .pickle) fuel false h (.ref a)

end Typedpy.AliasC11
