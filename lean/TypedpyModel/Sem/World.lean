/-
  Sem/World.lean — the process-wide state of typedpy threaded explicitly (C15).

  `World` holds what outlives a single operation in a Python process that uses typedpy:
    * the table of defined Structure classes (keyed by class identity `ClassId`), each with the part
      fixed by `StructMeta.__new__` (`Core`) and the attributes that operations write onto the class
      object afterwards (`_required` is a live list; `serialize`, `_created_fast_serializer`);
    * `FieldMeta._registry`  — implicit wrapper Field classes for non-typedpy user classes
      (structures.py:245, 283-291);
    * `aggregated_mapper_by_class` (mappers.py:246) and the `lru_cache` of
      `_structure_simplicity_level` (serialization.py:542);
    * `StructureReference.counter` (structure_reference.py:25-31);
    * `TypedPyDefaults.*` / `Structure._fail_fast` (defaults.py, structures.py:1604-1634).

  How each registry is keyed, whether `structure_to_schema` writes `cls._required` in place and on
  which class `create_serializer` installs `serialize` are NOT hard-wired: they are read from
  `Config`, which is computed from the table regenerated from /repo (`Sem/WorldTables.lean`).
  For the current tree every switch is off (the wrapper registry is keyed by the class object since
  /repo 2a0935f, `structure_to_schema` works on a copy of `_required` since 6efdaf1); the branches
  for switched-on registries describe what the code did before and what a regression would do.

  Field declarations are abstract: a field is a self-contained typedpy field (`prim tag`, opaque,
  behaviour fixed by its tag), an implicit wrapper of a non-typedpy user class (`wrap name ty`, the
  result of `Field[U]` / `Array[U]`; `ty` is the identity of `U`, `name` its `__name__`), or a
  reference to an earlier Structure class (`ref c`, direct or `Array[C]`, possibly optional).

  NESTED effects are in the model: `aggregate_serialization_mappers(A)` fills the cache for every class
  `A` refers to (recursively, before its own entry); `_structure_simplicity_level(A)` memoises the
  referenced classes it visits; `create_serializer(A)` generates and installs, with default flags, the
  serializer of every referenced FastSerializable class that does not resolve to one yet (looked up
  through the MRO), in field order, before installing `A`'s own; the serializer closure binds the mapped
  keys and the `serialize_none` / `compact` flags at generation time and looks the referenced classes'
  `serialize` up at every call (`refSers` in the behaviour).  Recursion over the class graph uses the
  number of defined classes as fuel (references point to earlier definitions).
-/
import TypedpyModel.Sem.WorldTables
namespace Typedpy.World

abbrev ClassId := Nat
abbrev TypeId := Nat

/-- association list lookup: first match wins (a Python dict whose `insert` conses in front) -/
def alookup {κ ν : Type} [DecidableEq κ] (k : κ) : List (κ × ν) → Option ν
  | [] => none
  | (k', v) :: m => if k' = k then some v else alookup k m

/-! ### global configuration -/

structure Flags where
  addProps : Bool   -- TypedPyDefaults.additional_properties_default
  compact : Bool    -- TypedPyDefaults.compact_serialization_default
  failFast : Bool   -- Structure._fail_fast
  deriving DecidableEq, Repr

def Flags.initial : Flags := ⟨true, false, true⟩

inductive Flag | addProps | compact | failFast
  deriving DecidableEq, Repr

def Flags.set (f : Flags) : Flag → Bool → Flags
  | .addProps, b => { f with addProps := b }
  | .compact, b => { f with compact := b }
  | .failFast, b => { f with failFast := b }

/-! ### class sources -/

inductive FieldKind
  | prim (tag : Nat)
  | wrap (tyName : String) (ty : TypeId)
  | ref (c : ClassId)
  | refs (cs : List ClassId)   -- positional Array of several Structure item types: Array(items=[A, B])
  deriving DecidableEq, Repr

/-- the Structure classes a field kind refers to -/
def kindRefs : FieldKind → List ClassId
  | .ref c => [c]
  | .refs cs => cs
  | _ => []

structure FieldSpec where
  name : String
  kind : FieldKind
  hasDefault : Bool
  serKey : String      -- key under `_serialization_mapper` (= name when unmapped)
  camelKey : String    -- that key under `camel_case_convert=True`
  camelName : String   -- the bare field name under `camel_case_convert=True`
  fastOk : Bool        -- `create_serializer` can handle the field
  trustedOk : Bool     -- field is in the trusted-deserialization whitelist
  schemaOk : Bool      -- `convert_to_schema` can map the field (it raises for implicit wrappers)
  inlines : Nat        -- number of StructureReference(...) occurrences (each bumps the counter)
  arr : Bool := false       -- `Array[...]` of the wrapped / referenced class
  optional : Bool := false  -- listed in `_optional`: not required although it has no default
  subKeys : List (String × String) := []  -- owner-side names for keys of the referenced class ("<field>._mapper")
  deriving DecidableEq, Repr

inductive Parent
  | inherit (c : ClassId)                      -- class D(C)
  | omit (c : ClassId) (names : List String)   -- C.omit(...) / Omit[C, ...]
  | pick (c : ClassId) (names : List String)   -- C.pick(...) / Pick[C, ...]
  | partialOf (c : ClassId)                    -- Partial[C]
  | allRequired (c : ClassId)                  -- AllFieldsRequired[C]
  deriving DecidableEq, Repr

def Parent.cid : Parent → ClassId
  | .inherit c => c | .omit c _ => c | .pick c _ => c | .partialOf c => c | .allRequired c => c

structure ClassSrc where
  name : String
  parent : Option Parent
  fields : List FieldSpec      -- own fields, in order
  fast : Bool                  -- FastSerializable mixin
  addProps : Option Bool       -- explicit `_additional_properties`
  deriving DecidableEq, Repr

/-- what `StructMeta.__new__` fixes -/
structure Core where
  src : ClassSrc
  defFlags : Flags             -- configuration in effect at definition
  fields : List FieldSpec      -- all fields (inherited + own), implicit wrappers resolved
  sigRequired : List String    -- parameters without default in `__signature__`
  kwargs : Bool                -- `__signature__` has `**kwargs`
  addPropsAttr : Option Bool   -- `getattr(cls, "_additionalProperties")`: own or inherited through bases
  simple : Bool                -- `_structure_simplicity_level` verdict
  ancestors : List ClassId     -- the classes `cls` inherits from (class D(C)), nearest first: the MRO `getattr` walks
  deriving DecidableEq, Repr

/-- the flags `create_serializer` binds into the generated closure -/
structure SerFlags where
  serNone : Bool     -- `serialize_none=True`: None values are emitted
  compact : Bool     -- `compact=True`: a one-field class serializes to the bare value
  deriving DecidableEq, Repr

def SerFlags.plain : SerFlags := ⟨false, false⟩

/-- a generated serializer: what the closure bound at generation time -/
structure Ser where
  keys : List String     -- the mapped keys, in field order
  flags : SerFlags
  deriving DecidableEq, Repr

structure Entry where
  core : Core
  required : List String             -- `cls._required` (live list object)
  serializer : Option Ser            -- `cls.__dict__['serialize']`: the installed generated serializer
  createdFast : Bool                 -- `cls.__dict__['_created_fast_serializer']`
  deriving DecidableEq, Repr

inductive CKey | id (c : ClassId) (camel : Bool) | name (s : String) (camel : Bool)
  deriving DecidableEq, Repr
inductive WKey | ty (n : String) (t : TypeId) | name (n : String)
  deriving DecidableEq, Repr

structure World where
  classes : List (ClassId × Entry)
  wrappers : List (WKey × TypeId)                     -- FieldMeta._registry: key ↦ class the wrapper checks
  mapperCache : List (CKey × List (String × String))  -- aggregated_mapper_by_class
  simplicityCache : List (CKey × Bool)                -- lru_cache of _structure_simplicity_level
  srCounter : Nat                                     -- StructureReference.counter
  flags : Flags
  deriving DecidableEq, Repr

def World.initial : World := ⟨[], [], [], [], 0, Flags.initial⟩

/-! ### keys, as dictated by the generated table -/

def wkey (cfg : Config) (n : String) (t : TypeId) : WKey :=
  if cfg.wrapperByName then .name n else .ty n t

/-- key of `aggregated_mapper_by_class`: (class, "", camel_case_convert) -/
def mkey (cfg : Config) (c : ClassId) (e : Entry) (camel : Bool) : CKey :=
  if cfg.mapperByName then .name e.core.src.name (!cfg.mapperDropsCamel && camel)
  else .id c (!cfg.mapperDropsCamel && camel)

def skey (cfg : Config) (c : ClassId) (e : Entry) : CKey :=
  if cfg.simplicityByName then .name e.core.src.name false else .id c false

/-! ### definition -/

/-- `FieldMeta.__getitem__` on a non-typedpy class: a registry hit returns the registered wrapper
    (whatever class it checks), a miss creates and registers one -/
def resolveField (cfg : Config) (reg : List (WKey × TypeId)) (f : FieldSpec) :
    List (WKey × TypeId) × FieldSpec :=
  match f.kind with
  | .wrap n t =>
    match alookup (wkey cfg n t) reg with
    | some t' => (reg, { f with kind := .wrap n t' })
    | none => ((wkey cfg n t, t) :: reg, f)
  | _ => (reg, f)

def resolveFields (cfg : Config) :
    List (WKey × TypeId) → List FieldSpec → List (WKey × TypeId) × List FieldSpec
  | reg, [] => (reg, [])
  | reg, f :: fs =>
    ((resolveFields cfg (resolveField cfg reg f).1 fs).1,
     (resolveField cfg reg f).2 :: (resolveFields cfg (resolveField cfg reg f).1 fs).2)

def fnames (fs : List FieldSpec) : List String := fs.map (·.name)

def hasDefaultIn (fs : List FieldSpec) (n : String) : Bool :=
  fs.any fun f => f.name == n && f.hasDefault

def ownRequired (fs : List FieldSpec) : List String :=
  (fs.filter fun f => !f.hasDefault && !f.optional).map (·.name)

/-- derived classes do not copy serialization mappers -/
def unmapped (fs : List FieldSpec) : List FieldSpec :=
  fs.map fun f => { f with serKey := f.name, camelKey := f.camelName }

/-- `AllFieldsRequired`: no field stays optional -/
def deopt (fs : List FieldSpec) : List FieldSpec := fs.map fun f => { f with optional := false }

/-- what a definition reads of its parent class: how it derives from it, the parent's
    definition-time core and the parent's LIVE `_required` list -/
abbrev PInfo := Parent × Core × List String

/-- fields and `_required` of the new class given its (already defined) parent.
    `inherit` reads the parent's frozen signature; `omit`/`pick` read the parent's LIVE `_required`. -/
def inheritInfo (parent : Option PInfo) (own : List FieldSpec) : List FieldSpec × List String :=
  match parent with
  | none => (own, ownRequired own)
  | some (.inherit _, pc, _) =>
    (pc.fields.filter (fun f => !(fnames own).contains f.name) ++ own,
     pc.sigRequired.filter (fun n => !(fnames own).contains n) ++ ownRequired own)
  | some (.omit _ ns, pc, preq) =>
    (unmapped (pc.fields.filter fun f => !ns.contains f.name) ++ own,
     (preq.filter fun n => !ns.contains n).filter
        (fun n => !hasDefaultIn (unmapped (pc.fields.filter fun f => !ns.contains f.name) ++ own) n) ++ ownRequired own)
  | some (.pick _ ns, pc, preq) =>
    (unmapped (pc.fields.filter fun f => ns.contains f.name) ++ own,
     (preq.filter fun n => ns.contains n).filter
        (fun n => !hasDefaultIn (unmapped (pc.fields.filter fun f => ns.contains f.name) ++ own) n) ++ ownRequired own)
  | some (.partialOf _, pc, _) =>
    (unmapped pc.fields ++ own, ownRequired own)
  | some (.allRequired _, pc, _) =>     -- every field without a default (an `_optional` one too); the source's
                                        -- `_required` is not read
    (deopt (unmapped pc.fields) ++ own, ownRequired (deopt pc.fields) ++ ownRequired own)

/-- `getattr(cls, "_additionalProperties")` of the new class: its own setting, else what it inherits -/
def addPropsAttrOf (own : Option Bool) (parent : Option PInfo) : Option Bool :=
  match own with
  | some b => some b
  | none =>
    match parent with
    | some (.inherit _, pc, _) => pc.addPropsAttr
    | _ => none

/-- trusted-deserialization eligibility of a field given the class table (a reference is eligible
    iff the referenced class is; the referenced class's fields never change, so evaluating this at
    definition instead of at the first trusted deserialization gives the same verdict) -/
def fieldSimple (classes : List (ClassId × Entry)) (f : FieldSpec) : Bool :=
  match f.kind with
  | .ref c => match alookup c classes with
    | some e => e.core.simple
    | none => false
  | _ => f.trustedOk

/-- `create_serializer` eligibility of a field given the class table: a (direct / Array) reference is
    eligible iff the referenced class is FastSerializable and its own serializer can be generated
    (`_verify_is_fast_serializable` generates it when the class does not resolve to one yet) -/
def fieldFast (classes : List (ClassId × Entry)) (f : FieldSpec) : Bool :=
  match f.kind with
  | .ref c => match alookup c classes with
    | some e => e.core.src.fast && e.core.fields.all (·.fastOk)
    | none => false
  | _ => f.fastOk

def resolveSimple (classes : List (ClassId × Entry)) (f : FieldSpec) : FieldSpec :=
  { f with trustedOk := fieldSimple classes f, fastOk := fieldFast classes f }

def lookupParent (classes : List (ClassId × Entry)) : Option Parent → Option (Option PInfo)
  | none => some none
  | some p => match alookup p.cid classes with
    | some e => some (some (p, e.core, e.required))
    | none => none

/-- until /repo 5f45702 `get_base_info` re-read the base's additional-properties setting with the CURRENT global
    default and dropped the base's `**kwargs` parameter accordingly; when that reading disagreed with the base's
    frozen signature the class statement raised (KeyError 'kwargs' / "duplicate parameter name").  Since 5f45702 the
    base's `**kwargs` parameter is always dropped and the class statement never raises for this reason. -/
def baseSigClash (_flags : Flags) (_src : ClassSrc) : Option PInfo → Bool := fun _ => false

def totalInlines (fs : List FieldSpec) : Nat := (fs.map (·.inlines)).sum

/-- the MRO above the new class: `class D(C)` inherits what is looked up on `C`; derived classes made by
    Omit / Pick / Partial / AllFieldsRequired / Extend are new classes, not subclasses -/
def ancestorsOf : Option PInfo → List ClassId
  | some (.inherit p, pc, _) => p :: pc.ancestors
  | _ => []

/-- the entry `StructMeta.__new__` creates -/
def elabClass (cfg : Config) (w : World) (src : ClassSrc) (pe : Option PInfo) : Entry :=
  let own := ((resolveFields cfg w.wrappers src.fields).2).map (resolveSimple w.classes)
  let info := inheritInfo pe own
  { core := { src := src, defFlags := w.flags, fields := info.1,
              sigRequired := (fnames info.1).filter fun n => info.2.contains n,
              -- `getattr(clsobj, "_additionalProperties", default)`: own or INHERITED setting (since /repo 5f45702)
              kwargs := (addPropsAttrOf src.addProps pe).getD w.flags.addProps,
              addPropsAttr := addPropsAttrOf src.addProps pe,
              simple := info.1.all (·.trustedOk),
              ancestors := ancestorsOf pe },
    required := info.2, serializer := none, createdFast := false }

/-! ### observations -/

structure Obs where
  done : Bool             -- the operation was applicable (class defined / identity not yet used)
  accepted : Bool         -- construct / deserialize: arguments accepted
  keys : List String      -- serialize / createSerializer: emitted keys; toSchema: "required" list
  clash : Bool            -- define: an implicit wrapper resolved to a foreign class
  wrote : Bool            -- toSchema: `cls._required` was changed
  deriving DecidableEq, Repr

def Obs.none : Obs := ⟨false, false, [], false, false⟩
def Obs.ok : Obs := ⟨true, true, [], false, false⟩

/-- abstract argument values of the constructor -/
inductive Arg
  | prim (tag : Nat) (valid : Bool)   -- a value for a field with that tag, valid or not
  | inst (ty : TypeId)                -- an instance of a non-typedpy user class
  | struct (c : ClassId)              -- an instance of a Structure class
  | structs (cs : List ClassId)       -- a list of instances of these Structure classes, in order
  | noItems                           -- an empty list
  deriving DecidableEq, Repr

def argOk (f : FieldSpec) : Arg → Bool
  | .prim tag valid => (match f.kind with | .prim t => t == tag && valid | _ => false)
  | .inst ty => (match f.kind with | .wrap _ t => t == ty | _ => false)
  | .struct c => (match f.kind with | .ref r => r == c | _ => false)
  | .structs cs => (match f.kind with | .refs rs => rs == cs | _ => false)
  | .noItems => f.arr

/-! ### what a class does: its behaviour, read from the world -/

structure Behaviour where
  fields : List FieldSpec          -- per field: the check applied, default, serialization key
  sigRequired : List String        -- missing ⇒ TypeError
  required : List String           -- `_required`: None handling, `del`, compact-wrapper test, Omit/Pick, schema
  kwargs : Bool                    -- constructor takes undeclared keywords (fixed at definition)
  extras : Bool                    -- undeclared attributes may be set / are kept by the deserializer (read at use)
  compact : Bool
  failFast : Bool
  serMapper : List (String × String)  -- key mapping used by serialize / schema / create_serializer
  serMapperCamel : List (String × String)  -- key mapping used by serialize(…, camel_case_convert=True)
  instantiable : Bool                 -- a FastSerializable class whose serializer cannot be generated raises from `__init__`
  fastSer : Option Ser                -- `x.serialize()` of a FastSerializable class: keys and flags of its serializer
  refSers : List (String × Option Ser) -- per (direct / Array) class-reference field: the serializer the referenced
                                      -- class's instances are serialized with, looked up at call time
  trusted : Bool                      -- trusted deserialization shortcut taken
  schemaRequired : List String        -- "required" emitted by structure_to_schema
  deriving DecidableEq, Repr

/-- `aggregate_serialization_mappers(cls, None, camel_case_convert)` computed afresh -/
def mapperOf (e : Entry) (camel : Bool) : List (String × String) :=
  e.core.fields.map fun f => (f.name, if camel then f.camelKey else f.serKey)

def serMapper (cfg : Config) (w : World) (c : ClassId) (e : Entry) (camel : Bool) : List (String × String) :=
  match alookup (mkey cfg c e camel) w.mapperCache with
  | some m => m
  | none => mapperOf e camel

def trustedOf (cfg : Config) (w : World) (c : ClassId) (e : Entry) : Bool :=
  match alookup (skey cfg c e) w.simplicityCache with
  | some b => b
  | none => e.core.simple

def mappedKey (m : List (String × String)) (n : String) : String := (alookup n m).getD n

/-- keys a serializer created now would emit -/
def fastKeysNow (cfg : Config) (w : World) (c : ClassId) (e : Entry) : List String :=
  (fnames e.core.fields).map (mappedKey (serMapper cfg w c e false))

/-- the serializer instances of a FastSerializable class are serialized with: the installed one, else the
    one its first instance generates (`FastSerializable.__init__`: default flags, the keys mapped now) -/
def fastSerOf (cfg : Config) (w : World) (c : ClassId) (e : Entry) : Option Ser :=
  if e.core.src.fast then some (e.serializer.getD ⟨fastKeysNow cfg w c e, .plain⟩) else none

def fastSerAt (cfg : Config) (w : World) (b : ClassId) : Option Ser :=
  match alookup b w.classes with
  | some eb => fastSerOf cfg w b eb
  | none => none

/-- the classes referenced directly or through `Array[...]` (these are followed by `create_serializer` and
    by nested serialization) -/
def refFields (fs : List FieldSpec) : List (String × ClassId) :=
  fs.filterMap fun f => match f.kind with | .ref b => some (f.name, b) | _ => none

/-- `_generate_schema_for_fields_internal` on the list object held in `cls._required`, field by field:
    a required key is replaced by its mapped key; then the field is converted (an unmappable field
    raises here and ends the walk, leaving the earlier writes in place); then a defaulted field's
    mapped key is appended.  State: the list and whether the walk has been aborted. -/
def schemaStep (m : List (String × String)) (st : List String × Bool) (f : FieldSpec) : List String × Bool :=
  if st.2 then st
  else if !f.schemaOk then (st.1.map fun r => if r == f.name then mappedKey m f.name else r, true)
  else if f.hasDefault && !(st.1.map fun r => if r == f.name then mappedKey m f.name else r).contains (mappedKey m f.name)
    then ((st.1.map fun r => if r == f.name then mappedKey m f.name else r) ++ [mappedKey m f.name], false)
  else (st.1.map fun r => if r == f.name then mappedKey m f.name else r, false)

/-- `structure_to_schema`: a class with exactly one field, all fields required and additional
    properties off (read with `getattr` and the CURRENT global default) is mapped as its field and
    nothing is written; otherwise the walk above runs on the live list -/
def schemaRequiredOf (m : List (String × String)) (extras : Bool) (fs : List FieldSpec) (req : List String) :
    List String :=
  if fs.length == 1 && req.all (fnames fs).contains && (fnames fs).all req.contains && !extras then req
  else (fs.foldl (schemaStep m) (req, false)).1

/-- `getattr(cls, "_additionalProperties", TypedPyDefaults.additional_properties_default)` -/
def extrasOf (w : World) (e : Entry) : Bool := e.core.addPropsAttr.getD w.flags.addProps

/-! ### operations -/

inductive WorldOp
  | define (c : ClassId) (src : ClassSrc)
  | construct (c : ClassId) (kw : List (String × Arg))
  | serialize (c : ClassId) (kw : List (String × Arg)) (camel : Bool)   -- construct an instance from `kw`, serialize it with `camel_case_convert=camel`
  | deserialize (c : ClassId) (kw : List (String × Arg))
  | toSchema (c : ClassId)
  | createSerializer (c : ClassId) (fl : SerFlags)   -- create_serializer(cls, serialize_none=…, compact=…)
  | trustedDeserialize (c : ClassId) (kw : List (String × Arg))
  | setDefault (f : Flag) (b : Bool)
  deriving DecidableEq, Repr

def setEntry (w : World) (c : ClassId) (e : Entry) : World :=
  { w with classes := (c, e) :: w.classes }

/-- the effects of evaluating the class BODY (`Field[U]`, `Array[U]`, `StructureReference(...)` run
    before `StructMeta.__new__`): implicit wrappers are registered and the inline-class counter is
    bumped even when the class statement then raises -/
def bodyW (cfg : Config) (w : World) (src : ClassSrc) : World :=
  { w with wrappers := (resolveFields cfg w.wrappers src.fields).1,
           srCounter := w.srCounter + totalInlines src.fields }

/-- every class a field refers to exists (otherwise the source is not a program: NameError) -/
def refsDefined (classes : List (ClassId × Entry)) (fs : List FieldSpec) : Bool :=
  fs.all fun f => (kindRefs f.kind).all fun r => (alookup r classes).isSome

def defineW (cfg : Config) (w : World) (c : ClassId) (src : ClassSrc) : World × Obs :=
  match alookup c w.classes with
  | some _ => (w, Obs.none)                       -- identities are never reused
  | none =>
    if !refsDefined w.classes src.fields then (w, Obs.none) else
    match lookupParent w.classes src.parent with
    | none => (w, Obs.none)                       -- parent not defined: NameError before the body runs
    | some pe =>
      if baseSigClash w.flags src pe then (bodyW cfg w src, Obs.none)   -- the metaclass raises after the body ran
      else
        ({ bodyW cfg w src with classes := (c, elabClass cfg w src pe) :: w.classes },
         { Obs.ok with clash := (resolveFields cfg w.wrappers src.fields).2 != src.fields })

/-- the class `create_serializer(cls)` writes `serialize` / `_created_fast_serializer` onto -/
def installTarget (cfg : Config) (c : ClassId) (e : Entry) : ClassId :=
  if cfg.serializerOnBase then
    match e.core.src.parent with
    | some (.inherit p) => p
    | _ => c
  else c

/-- apply `rec` to the listed classes, left to right -/
def eachClass (rec : World → ClassId → World) : World → List ClassId → World
  | w, [] => w
  | w, b :: bs => eachClass rec (rec w b) bs

def fieldRefs (fs : List FieldSpec) : List ClassId := fs.flatMap fun f => kindRefs f.kind

/-- `aggregate_serialization_mappers(cls)` for a class reached from another one (`_set_base_mapper_no_op`
    resolves the mapper of every class a field refers to — direct, Array item, positional items — before the
    class's own entry is stored): on a hit nothing happens -/
def fillMapperDeep (cfg : Config) : Nat → World → ClassId → Bool → World
  | 0, w, _, _ => w
  | n + 1, w, c, camel =>
    match alookup c w.classes with
    | none => w
    | some e =>
      match alookup (mkey cfg c e camel) w.mapperCache with
      | some _ => w
      | none =>
        { eachClass (fun w b => fillMapperDeep cfg n w b false) w (fieldRefs e.core.fields) with
          mapperCache := (mkey cfg c e camel, mapperOf e camel) ::
            (eachClass (fun w b => fillMapperDeep cfg n w b false) w (fieldRefs e.core.fields)).mapperCache }
termination_by structural n => n

/-- `aggregate_serialization_mappers(cls)`: fill the cache on a miss, the referenced classes first -/
def fillMapper (cfg : Config) (w : World) (c : ClassId) (e : Entry) (camel : Bool := false) : World :=
  match alookup (mkey cfg c e camel) w.mapperCache with
  | some _ => w
  | none =>
    { eachClass (fun w b => fillMapperDeep cfg w.classes.length w b false) w (fieldRefs e.core.fields) with
      mapperCache := (mkey cfg c e camel, mapperOf e camel) ::
        (eachClass (fun w b => fillMapperDeep cfg w.classes.length w b false) w (fieldRefs e.core.fields)).mapperCache }

/-- the fields `_structure_simplicity_level` visits: it returns at the first field that is not simple -/
def simplePrefix : List FieldSpec → List FieldSpec
  | [] => []
  | f :: fs => if f.trustedOk then f :: simplePrefix fs else [f]

/-- `_structure_simplicity_level(cls)` (lru_cache): on a miss the referenced classes it visits are memoised
    first (a direct / Array reference is followed; the walk ends at the first field that is not simple) -/
def fillSimplicityDeep (cfg : Config) : Nat → World → ClassId → World
  | 0, w, _ => w
  | n + 1, w, c =>
    match alookup c w.classes with
    | none => w
    | some e =>
      match alookup (skey cfg c e) w.simplicityCache with
      | some _ => w
      | none =>
        { eachClass (fun w b => fillSimplicityDeep cfg n w b) w ((refFields (simplePrefix e.core.fields)).map (·.2)) with
          simplicityCache := (skey cfg c e, e.core.simple) ::
            (eachClass (fun w b => fillSimplicityDeep cfg n w b) w
              ((refFields (simplePrefix e.core.fields)).map (·.2))).simplicityCache }
termination_by structural n => n

def fillSimplicity (cfg : Config) (w : World) (c : ClassId) (_e : Entry) : World :=
  fillSimplicityDeep cfg (w.classes.length + 1) w c

/-- `create_serializer` succeeds only when every field is fast-serializable (for a class reference:
    resolved at definition, `fieldFast`) -/
def fastAble (e : Entry) : Bool := e.core.fields.all (·.fastOk)

/-- `getattr(cls, "serialize")`: the class's own generated serializer, else the nearest inherited one
    (`none` = the `FastSerializable.serialize` placeholder) -/
def resolveSer (w : World) (e : Entry) : Option Ser :=
  match e.serializer with
  | some s => some s
  | none => e.core.ancestors.findSome? fun a => (alookup a w.classes).bind (·.serializer)

/-- `_verify_is_fast_serializable`: a referenced FastSerializable class that resolves to the placeholder
    gets its serializer generated now -/
def needsSer (cfg : Config) (w : World) (b : ClassId) : Bool :=
  match alookup b w.classes with
  | some eb => eb.core.src.fast &&
      (if cfg.serializerViaMro then (resolveSer w eb).isNone      -- `getattr(B, "serialize")`: through the MRO
       else eb.serializer.isNone)                                 -- `"serialize" not in B.__dict__`
  | none => false

/-- `getattr(B, "serialize") is not FastSerializable.serialize` for a defined FastSerializable class `B` -/
def resolvesNow (w : World) (b : ClassId) : Bool :=
  match alookup b w.classes with
  | some eb => eb.core.src.fast && (resolveSer w eb).isSome
  | none => false

/-- write `serialize` / `_created_fast_serializer` onto class `t` -/
def setSer (w : World) (t : ClassId) (s : Ser) : World :=
  match alookup t w.classes with
  | none => w
  | some et => setEntry w t { et with serializer := some s, createdFast := true }

/-- the field walk of `create_serializer`: a self-contained field must be fast-serializable; a (direct /
    Array) reference to class `B` passes when `B`'s serializer can be generated (`f.fastOk`, resolved at
    definition) — it is generated now, with default flags, if `B` resolves to the placeholder — OR when `B`
    already resolves to a generated serializer, its own or an INHERITED one (then `B` itself is not looked
    at).  Returns the world after the nested generations and whether the walk got through. -/
def verifyFields (cfg : Config) (rec : World → ClassId → World) : World → List FieldSpec → World × Bool
  | w, [] => (w, true)
  | w, f :: fs =>
    match f.kind with
    | .ref b =>
      if f.fastOk || (cfg.serializerViaMro && resolvesNow w b) then
        verifyFields cfg rec (if needsSer cfg w b then rec w b else w) fs
      else (w, false)
    | _ => if f.fastOk then verifyFields cfg rec w fs else (w, false)

/-- `create_serializer(cls, **flags)`: resolves the mapper first (cache fills, referenced classes included),
    walks the fields (`verifyFields`), and when the walk gets through writes `serialize` (keys mapped now,
    flags bound) and `_created_fast_serializer` onto the target class.  The Boolean is "did not raise". -/
def createW (cfg : Config) : Nat → World → ClassId → SerFlags → World × Bool
  | 0, w, _, _ => (w, false)
  | n + 1, w, c, fl =>
    match alookup c w.classes with
    | none => (w, false)
    | some e =>
      if (verifyFields cfg (fun w b => (createW cfg n w b .plain).1) (fillMapper cfg w c e) e.core.fields).2 then
        (setSer (verifyFields cfg (fun w b => (createW cfg n w b .plain).1) (fillMapper cfg w c e) e.core.fields).1
          (installTarget cfg c e)
          ⟨fastKeysNow cfg (verifyFields cfg (fun w b => (createW cfg n w b .plain).1) (fillMapper cfg w c e) e.core.fields).1 c e, fl⟩,
         true)
      else ((verifyFields cfg (fun w b => (createW cfg n w b .plain).1) (fillMapper cfg w c e) e.core.fields).1, false)
termination_by structural n => n

def installW (cfg : Config) (w : World) (c : ClassId) (fl : SerFlags := .plain) : World :=
  (createW cfg (w.classes.length + 1) w c fl).1

/-- would `create_serializer(cls)` get through now -/
def creatableNow (cfg : Config) (w : World) (c : ClassId) : Bool :=
  (createW cfg (w.classes.length + 1) w c .plain).2

/-- `FastSerializable.__init__` (runs at the END of a successful `Structure.__init__`) and
    `serialize_internal`: create the serializer unless the class has its own -/
def autoInstallW (cfg : Config) (w : World) (c : ClassId) (e : Entry) : World :=
  if e.core.src.fast && e.serializer.isNone then installW cfg w c else w

/-! ### what a class does, assembled -/

def behaviourOf (cfg : Config) (w : World) (c : ClassId) (e : Entry) : Behaviour where
  fields := e.core.fields
  sigRequired := e.core.sigRequired
  required := e.required
  kwargs := e.core.kwargs
  extras := extrasOf w e
  compact := w.flags.compact
  failFast := w.flags.failFast
  serMapper := serMapper cfg w c e false
  serMapperCamel := serMapper cfg w c e true
  instantiable := !e.core.src.fast || e.serializer.isSome || creatableNow cfg w c
  fastSer := fastSerOf cfg w c e
  refSers := (refFields e.core.fields).map fun p => (p.1, fastSerAt cfg w p.2)
  trusted := trustedOf cfg w c e
  schemaRequired := schemaRequiredOf (serMapper cfg w c e false) (extrasOf w e) e.core.fields e.required

def view (cfg : Config) (w : World) (c : ClassId) : Option Behaviour :=
  (alookup c w.classes).map (behaviourOf cfg w c)

/-- the constructor's decision, as a function of the behaviour -/
def acceptsKw (b : Behaviour) (kw : List (String × Arg)) : Bool :=
  b.sigRequired.all (fun r => (alookup r kw).isSome) &&
  kw.all fun (n, a) =>
    match b.fields.find? (fun f => f.name == n) with
    | some f => argOk f a
    | none => b.kwargs

/-- keyword construction: decision and effect.  A FastSerializable class whose serializer cannot
    be created raises TypeError from `__init__`. -/
def constructOk (cfg : Config) (w : World) (c : ClassId) (e : Entry) (kw : List (String × Arg)) : Bool :=
  acceptsKw (behaviourOf cfg w c e) kw && (behaviourOf cfg w c e).instantiable

def constructW (cfg : Config) (w : World) (c : ClassId) (e : Entry) (kw : List (String × Arg)) : World :=
  if acceptsKw (behaviourOf cfg w c e) kw then autoInstallW cfg w c e else w

/-- `structure_to_schema(cls)`: fills the mapper cache and (per the table) writes `_required` in place -/
def schemaW (cfg : Config) (w : World) (c : ClassId) (e : Entry) : World × Obs :=
  let w1 := fillMapper cfg w c e
  let req := schemaRequiredOf (serMapper cfg w1 c e false) (extrasOf w e) e.core.fields e.required
  if cfg.schemaWritesRequired && req != e.required then
    (setEntry w1 c { e with required := req }, { Obs.ok with keys := req, wrote := true })
  else (w1, { Obs.ok with keys := req })

/-- the keys `x.serialize()` emits for an instance built from `kw`: a field that was not supplied and has no
    default is None, which the generated serializer drops unless it was generated with `serialize_none` -/
def emittedKeys (e : Entry) (kw : List (String × Arg)) (s : Ser) : List String :=
  ((e.core.fields.zip s.keys).filter fun p =>
      s.flags.serNone || (alookup p.1.name kw).isSome || p.1.hasDefault).map (·.2)

def withClass (w : World) (c : ClassId) (k : Entry → World × Obs) : World × Obs :=
  match alookup c w.classes with
  | none => (w, Obs.none)
  | some e => k e

def stepW (cfg : Config) (w : World) : WorldOp → World × Obs
  | .define c src => defineW cfg w c src
  | .construct c kw => withClass w c fun e =>
      (constructW cfg w c e kw, { Obs.ok with accepted := constructOk cfg w c e kw })
  | .deserialize c kw => withClass w c fun e =>
      (constructW cfg w c e kw, { Obs.ok with accepted := constructOk cfg w c e kw })
  | .trustedDeserialize c kw => withClass w c fun e =>
      (constructW cfg (fillSimplicity cfg w c e) c e kw, { Obs.ok with accepted := constructOk cfg w c e kw })
  | .serialize c kw camel => withClass w c fun e =>
      -- a FastSerializable class (its serializer exists once an instance does) is serialized by
      -- `x.serialize()`: no mapper resolution, `camel_case_convert` ignored
      (if constructOk cfg w c e kw && !e.core.src.fast then fillMapper cfg (constructW cfg w c e kw) c e camel
       else constructW cfg w c e kw,
       { Obs.ok with accepted := constructOk cfg w c e kw,
                     keys := if e.core.src.fast then emittedKeys e kw ((fastSerOf cfg w c e).getD ⟨[], .plain⟩)
                             else ((fnames e.core.fields).filter (fun n => (alookup n kw).isSome || hasDefaultIn e.core.fields n)).map
                                    (mappedKey (serMapper cfg w c e camel)) })
  | .createSerializer c fl => withClass w c fun _ =>
      (installW cfg w c fl, { Obs.ok with accepted := (createW cfg (w.classes.length + 1) w c fl).2,
                                          keys := (match alookup c (installW cfg w c fl).classes with
                                                   | some e' => (e'.serializer.map (·.keys)).getD []
                                                   | none => []) })
  | .toSchema c => withClass w c fun e => schemaW cfg w c e
  | .setDefault f b => ({ w with flags := w.flags.set f b }, Obs.ok)

def runW (cfg : Config) : World → List WorldOp → World
  | w, [] => w
  | w, op :: h => runW cfg (stepW cfg w op).1 h

/-- the observations of a history, in order -/
def obsW (cfg : Config) : World → List WorldOp → List Obs
  | _, [] => []
  | w, op :: h => (stepW cfg w op).2 :: obsW cfg (stepW cfg w op).1 h

/-! ### "defined and used alone": the sub-history a class depends on -/

/-- classes a definition reads: its parent and the classes its fields refer to -/
def ClassSrc.deps (s : ClassSrc) : List ClassId :=
  (match s.parent with | some p => [p.cid] | none => []) ++
  s.fields.flatMap fun f => kindRefs f.kind

/-- keep the definitions of the classes in `T` and every global-default toggle; drop every use of
    any class and every other definition -/
def keepOp (T : ClassId → Bool) : WorldOp → Bool
  | .define c _ => T c
  | .setDefault _ _ => true
  | _ => false

/-- an explicit `create_serializer(cls, serialize_none=… / compact=…)` is CONFIGURATION of `cls` (documented to
    change how the class serializes), and so is a later plain `create_serializer(cls)` that resets it: these
    stay in the sub-history of a class set that contains `cls`.  `K` = the classes configured so far. -/
def sliceK (T : ClassId → Bool) : List ClassId → List WorldOp → List WorldOp
  | _, [] => []
  | K, .createSerializer c fl :: h =>
    if T c && (fl != SerFlags.plain || K.contains c) then .createSerializer c fl :: sliceK T (c :: K) h
    else sliceK T K h
  | K, op :: h => if keepOp T op then op :: sliceK T K h else sliceK T K h

def slice (T : ClassId → Bool) (h : List WorldOp) : List WorldOp := sliceK T [] h

/-- `T` contains, with every class it keeps, the classes that class's definition reads -/
def closedOp (T : ClassId → Bool) : WorldOp → Bool
  | .define c src => !T c || src.deps.all T
  | _ => true

def closed (T : ClassId → Bool) (h : List WorldOp) : Bool := h.all (closedOp T)

/-! ### the region of histories in which the known findings do not fire -/

def wrapsOfFields (fs : List FieldSpec) : List (String × TypeId) :=
  fs.filterMap fun f => match f.kind with | .wrap n t => some (n, t) | _ => none

/-- every (bare class name, class identity) pair wrapped implicitly anywhere in the history -/
def wrapsOf : List WorldOp → List (String × TypeId)
  | [] => []
  | .define _ src :: h => wrapsOfFields src.fields ++ wrapsOf h
  | _ :: h => wrapsOf h

/-- no two DIFFERENT user classes with the same bare name are wrapped implicitly -/
def NoClashW (W : List (String × TypeId)) : Prop := ∀ p ∈ W, ∀ q ∈ W, p.1 = q.1 → p.2 = q.2

instance (W : List (String × TypeId)) : Decidable (NoClashW W) := by unfold NoClashW; infer_instance

def hasRef (e : Entry) : Bool :=
  e.core.fields.any fun f => match f.kind with | .ref _ => true | .refs _ => true | _ => false

/-- outside the region of the MRO finding: the code does not decide through the MRO (`cfg.serializerViaMro` off —
    the case once /repo has the repair), or every class the fields of `e` refer to (directly or through `Array[...]`)
    is a FastSerializable class whose own serializer can be generated (`fieldFast`, resolved at definition) -/
def refsCreatable (cfg : Config) (e : Entry) : Bool :=
  !cfg.serializerViaMro || e.core.fields.all fun f => match f.kind with | .ref _ => f.fastOk | _ => true

/-- a step is quiet when (1) `structure_to_schema` does not change `cls._required` (and, because the model does
    not follow ClassReference fields into the referenced classes' `_required`, is not applied to a class with such
    fields while the in-place write exists) — always the case when `cfg.schemaWritesRequired` is off, as for the
    current tree — and (2) it stays outside the region of the open finding about serializers resolved through the
    MRO: no FastSerializable class is defined that refers to a class whose serializer cannot be generated, and
    `create_serializer` is not called explicitly on a class with such a reference.  Inside that region the model
    follows the real code one level deep only (`verifyFields`). -/
def quietStep (cfg : Config) (w : World) : WorldOp → Bool
  | .define c src =>       -- known finding (mro-resolved-serialize-skips-generation): a FastSerializable class may refer only
                           -- to FastSerializable classes whose serializer can be generated
    (match alookup c (defineW cfg w c src).1.classes with
     | some e => !e.core.src.fast || refsCreatable cfg e
     | none => true)
  | .createSerializer c _ =>
    (match alookup c w.classes with
     | some e => refsCreatable cfg e
     | none => true)
  | .toSchema c => !cfg.schemaWritesRequired ||
    (match alookup c w.classes with
     | none => true
     | some e => (schemaRequiredOf (serMapper cfg (fillMapper cfg w c e) c e false) (extrasOf w e) e.core.fields e.required
                    == e.required) && !hasRef e)
  | _ => true

def quietRun (cfg : Config) : World → List WorldOp → Bool
  | _, [] => true
  | w, op :: h => quietStep cfg w op && quietRun cfg (stepW cfg w op).1 h

/-- the region in which unsafe registries fire, as dictated by the configuration read from the
    generated table (empty when every switch is off): name clashes matter only while the wrapper registry is name-keyed, schema
    writes only while `structure_to_schema` writes in place -/
def Excluded (cfg : Config) (h : List WorldOp) : Prop :=
  (cfg.wrapperByName = true → NoClashW (wrapsOf h)) ∧ quietRun cfg World.initial h = true

instance (cfg : Config) (h : List WorldOp) : Decidable (Excluded cfg h) := by unfold Excluded; infer_instance

end Typedpy.World
