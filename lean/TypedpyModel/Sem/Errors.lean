/-
  Sem/Errors.lean — executable model of typedpy's error reporting: classes whose fields are
  scalars, nested structures (class references, inline StructureReference) and collections of
  these at ANY nesting depth, through the constructor and through deserialization:

  (a) message shapes (`typedpy/fields/*.py`, `structures.py`, `commons.py`):
        `<path>: Got <v>; <problem>`      (`gotFirst`: Number, String, Enum, Sized, type/unique/length
                                            checks of Array/Deque/Set/Tuple)
        `<path>: <problem>; Got <v>`      (`gotLast`: TypedField/Boolean type check, `validate_size`)
        `<path>: <problem>`               (`plain`: Map "Expected a dict")
      `<path>` = top-level field name + ONE element suffix per nesting level (`_<index>`, `_key`,
      `_value`, none for Set): `locate`, structural recursion over the declaration tree;
      deserialization: accept / reject from `deser` (Sem/Deser.lean), the guaranteed beginning of
      every message from the wrapper rules (`dHead`); class names typedpy derives (`derivedName`);
      `Structure.__init__` prefixes `<Class>.` (fail-fast) and `raise_errs_if_needed` renders the
      collected list through `json.dumps`;
  (b) the three regexes of `typedpy/errors.py` as explicit matchers over `List Char`, and the
      control flow of `standard_readable_error_for_typedpy_exception` (fail-fast / collect-all,
      JSON list decoding, nested expansion, the one place where it can raise).
      Since /repo 4d96101 the three message regexes are compiled with `re.DOTALL` (`.` matches a
      newline, so `(.*)$` takes the whole rest); since /repo 18c6055 their field group is
      `(?:[\w.]|[^\x00-\x7f\s])+`: ASCII letters, digits, `_`, `.`, and EVERY non-ASCII character that
      is not white space (`pyFieldWord`, fully modelled — before, `\w` = `str.isalnum()` or `_` was an
      oracle and identifiers with combining marks / vowel signs lost their field).  Theorems stay
      parametric in `W` (only its ASCII part and `W ':' = false` are ever assumed).
      `_expected_class_pattern` is NOT DOTALL.
      Since /repo 9c7ef9a no check of a flat field raises a foreign exception without a path.

  Texts are `List Char` (Python `str` = sequence of code points).  Value and problem *texts* are
  parameters (`Texts`): the property is about paths, shapes and parsing, for every text.
  Python's `json` module is an oracle (`Codec`); the only law ever assumed is the round trip on
  lists of strings, as an explicit hypothesis.
-/
import TypedpyModel.Sem.Validate
import TypedpyModel.Sem.Deser
namespace Typedpy.Err
open Typedpy

abbrev Text := List Char

/-! ### message shapes and rendering -/

inductive Shape where
  | gotFirst | gotLast | plain
deriving Repr, DecidableEq, Inhabited

def sGot : Text := ['G', 'o', 't', ' ']
def sSemiSp : Text := [';', ' ']
def sSemiGot : Text := [';', ' ', 'G', 'o', 't', ' ']

/-- what follows `<path>: ` -/
def body : Shape → Text → Text → Text
  | .gotFirst, v, p => sGot ++ (v ++ (sSemiSp ++ p))
  | .gotLast, v, p => p ++ (sSemiGot ++ v)
  | .plain, _, p => p

/-- `f"{cls_name}.{e}"` -/
def withClass : Option Text → Text → Text
  | none, t => t
  | some c, t => c ++ ('.' :: t)

structure Msg where
  cls : Option Text
  path : Text
  shape : Shape
  value : Text
  problem : Text
deriving Repr

def Msg.fullPath (m : Msg) : Text := withClass m.cls m.path
def Msg.render (m : Msg) : Text := withClass m.cls (m.path ++ (':' :: ' ' :: body m.shape m.value m.problem))

/-! ### the regexes of errors.py as matchers -/

/-- Python's `str.isalnum` per code point (what `\w` of a `str` pattern matches besides `_`) -/
abbrev Word := Char → Bool

/-- all that is assumed about the oracle: it contains ASCII letters and digits and not `:` -/
def Word.Sound (W : Word) : Prop := (∀ c : Char, c.isAlphanum = true → W c = true) ∧ W ':' = false

/-- the ASCII part alone (used for kernel-checked examples) -/
def asciiWord : Word := fun c => c.isAlphanum

/-- `[\w.]` -/
def isFieldChar (W : Word) (c : Char) : Bool := W c || c == '_' || c == '.'

/-- the text is a non-empty run of `[\w.]` -/
def identOk (W : Word) (t : Text) : Bool := !t.isEmpty && t.all (isFieldChar W)

/-- `([\w.]+)` followed by a character outside the class: the maximal run -/
def spanField (W : Word) : Text → Text × Text
  | [] => ([], [])
  | c :: cs => if isFieldChar W c then ((c :: (spanField W cs).1), (spanField W cs).2) else ([], c :: cs)

/-- `[^;]*` followed by `;`: the maximal run without `;` -/
def spanNoSemi : Text → Text × Text
  | [] => ([], [])
  | c :: cs => if c == ';' then ([], c :: cs) else ((c :: (spanNoSemi cs).1), (spanNoSemi cs).2)

/-- match a literal prefix -/
def dropPre : Text → Text → Option Text
  | [], s => some s
  | _ :: _, [] => none
  | a :: p, b :: s => if a == b then dropPre p s else none

/-- `(.*)$` at the end of a pattern WITHOUT DOTALL (only `_expected_class_pattern` now): the rest
    must be one line, optionally terminated by a single final `\n`, which the group excludes.
    With DOTALL (the three message regexes) `(.*)$` simply takes the whole rest. -/
def dotEnd : Text → Option Text
  | [] => some []
  | c :: cs => if c == '\n' then (if cs.isEmpty then some [] else none)
               else (dotEnd cs).map (c :: ·)

/-- `(.*)<pat>(.*)` with a greedy first group: split at the LAST occurrence of `pat` -/
def splitLast (pat : Text) : Text → Option (Text × Text)
  | [] => none
  | c :: cs => match splitLast pat cs with
    | some ab => some (c :: ab.1, ab.2)
    | none => (dropPre pat (c :: cs)).map fun r => ([], r)

/-- `\s` of a `str` pattern: Python's Unicode whitespace -/
def isPySpace (c : Char) : Bool :=
  let n := c.toNat
  (9 ≤ n && n ≤ 13) || (28 ≤ n && n ≤ 32) || n == 0x85 || n == 0xA0 || n == 0x1680
  || (0x2000 ≤ n && n ≤ 0x200A) || n == 0x2028 || n == 0x2029 || n == 0x202F || n == 0x205F
  || n == 0x3000

/-- the field group of errors.py since /repo 18c6055, without `_` and `.` (added by `isFieldChar`):
    ASCII letters and digits, and every non-ASCII character that is not white space -/
def pyFieldWord : Word := fun c => c.isAlphanum || (decide (c.toNat > 127) && !isPySpace c)

/-- regex 1 after `<field>: `: `Got ([^;]*); (.*)$` (DOTALL) ↦ (value, problem) -/
def m1tail (rest : Text) : Option (Text × Text) :=
  (dropPre sGot rest).bind fun r1 =>
  (dropPre sSemiSp (spanNoSemi r1).2).map fun p => ((spanNoSemi r1).1, p)

/-- regexes 2 and 3 after `<field>:\s` (DOTALL): `(.*); Got (.*)$` else `(.*)$` ↦ (value?, problem);
    regex 3 always matches -/
def m23tail (rest : Text) : Option Text × Text :=
  match splitLast sSemiGot rest with
  | some pv => (some pv.2, pv.1)
  | none => (none, rest)

/-- what the three regexes extract after the field group: (value?, raw problem) -/
def parseTail (c : Char) (rest : Text) : Option (Option Text × Text) :=
  match (if c == ' ' then m1tail rest else none) with
  | some vp => some (some vp.1, vp.2)
  | none => if isPySpace c then some (m23tail rest) else none

/-- `_expected_class_pattern = ^Expected\s<class '(.*)'>$` ↦ the class name -/
def expectedClass (p : Text) : Option Text :=
  (dropPre ['E', 'x', 'p', 'e', 'c', 't', 'e', 'd'] p).bind fun r =>
  match r with
  | c :: r1 =>
    if isPySpace c then
      (dropPre ['<', 'c', 'l', 'a', 's', 's', ' ', '\''] r1).bind fun r2 =>
      (dotEnd r2).bind fun line =>
        if line.length ≥ 2 && line.drop (line.length - 2) == ['\'', '>']
        then some (line.take (line.length - 2)) else none
    else none
  | [] => none

/-- `display_type_by_type` -/
def display (t : Text) : Option Text :=
  if t == ['i', 'n', 't'] then some "an integer number".toList
  else if t == ['s', 't', 'r'] then some "a text value".toList
  else if t == ['f', 'l', 'o', 'a', 't'] then some "a decimal number".toList
  else if t == ['l', 'i', 's', 't'] then some "an array".toList
  else none

def sExpected : Text := ['E', 'x', 'p', 'e', 'c', 't', 'e', 'd', ' ']

/-- `_transform_class_to_readable`: a class with a display name is spelled out, anything else is
    returned unchanged -/
def transform (p : Text) : Text :=
  match expectedClass p with
  | none => p
  | some x => match display x with
    | some d => sExpected ++ d
    | none => p

structure Parsed where
  field : Option Text
  value : Option Text
  problem : Text
deriving Repr, DecidableEq

/-- the regex cascade of `_standard_readable_error_for_typedpy_exception_internal`
    (before `try_expand`) -/
def parseMsg (W : Word) (s : Text) : Parsed :=
  match (spanField W s).1, dropPre [':'] (spanField W s).2 with
  | f :: fs, some (c :: rest) =>
    match parseTail c rest with
    | some vp => ⟨some (f :: fs), vp.1, transform vp.2⟩
    | none => ⟨none, none, s⟩
  | _, _ => ⟨none, none, s⟩

def noNL (t : Text) : Bool := t.all (· != '\n')
def noSemi (t : Text) : Bool := t.all (· != ';')

/-! ### `standard_readable_error_for_typedpy_exception` -/

/-- what `json.loads(text)` followed by `for e in errs` with `str` elements amounts to -/
inductive Loaded where
  /-- `JSONDecodeError` -/
  | invalid
  /-- an iterable of `str` (list of strings; also dict keys / characters of a JSON string) -/
  | strs (xs : List Text)
  /-- valid JSON that cannot be iterated as strings (number, `null`, list with a non-string
      element): `TypeError` -/
  | raises
deriving Repr

/-- Python's `json` module and `str.isalnum` as oracles -/
structure Codec where
  dumps : List Text → Text
  loads : Text → Loaded
  word : Word := asciiWord

def Codec.RoundTrip (J : Codec) : Prop := ∀ xs, J.loads (J.dumps xs) = .strs xs

/-- `ErrorInfo` (the `problem` is a string or a list of nested `ErrorInfo`s) -/
inductive Info where
  | leaf (field value : Option Text) (problem : Text)
  | node (field value : Option Text) (subs : List Info)
deriving Repr

def Info.field : Info → Option Text
  | .leaf f _ _ => f
  | .node f _ _ => f

/-- `ErrorInfo.problem` is neither `''` nor `[]` -/
def Info.problemNonEmpty : Info → Bool
  | .leaf _ _ p => !p.isEmpty
  | .node _ _ subs => !subs.isEmpty

/-- `_standard_readable_error_for_typedpy_exception_internal`, `try_expand` included.
    `fuel` bounds the nesting of JSON-in-JSON (decoded strings are shorter than their encoding;
    callers pass the text length). Every exception inside `try_expand` is swallowed there. -/
def internal (failFast : Bool) (J : Codec) : Nat → Text → Info
  | 0, s => .leaf (parseMsg J.word s).field (parseMsg J.word s).value (parseMsg J.word s).problem
  | fuel + 1, s =>
    if failFast then
      .leaf (parseMsg J.word s).field (parseMsg J.word s).value (parseMsg J.word s).problem
    else match (parseMsg J.word s).field, J.loads (parseMsg J.word s).problem with
      | some f, .strs xs =>
        .node (some f) (parseMsg J.word s).value (xs.map (internal failFast J fuel))
      | _, _ => .leaf (parseMsg J.word s).field (parseMsg J.word s).value (parseMsg J.word s).problem

inductive Out where
  | single (i : Info)
  | many (is : List Info)
deriving Repr

/-- `standard_readable_error_for_typedpy_exception(e)` for `str(e) = s`; `.error` = it raises -/
def readable (failFast : Bool) (J : Codec) (s : Text) : Except String Out :=
  if failFast then .ok (.single (internal true J s.length s))
  else match J.loads s with
    | .strs xs => .ok (.many (xs.map (internal false J s.length)))
    | .invalid => .ok (.many [internal false J s.length s])
    | .raises => .error "TypeError"

def Out.infos : Out → List Info
  | .single i => [i]
  | .many is => is

/-! ### where a field's rejection is raised: path suffix chain, shape, foreign exceptions

Every collection field hands its own path down to its item fields (`setattr(items, "_name",
self._name + "_<i>")`, `_key`, `_value`; a Set's items keep the Set's own name), so the path of a
rejection inside nested collections is the top-level field name followed by one suffix per level:
`aaa_1_1_1`, `am_1_value`, `mm_value_key`, `tt_0_1`, `stt_1` (Set[Tuple[…]]: the Set adds nothing). -/

/-- one level of the path: `_<index>`, `_key`, `_value` (`none`: the level adds nothing) -/
inductive Suffix where
  | none | idx (i : Nat) | key | val
deriving Repr, DecidableEq, Inhabited

def digitChar (d : Nat) : Char :=
  match d % 10 with
  | 0 => '0' | 1 => '1' | 2 => '2' | 3 => '3' | 4 => '4'
  | 5 => '5' | 6 => '6' | 7 => '7' | 8 => '8' | _ => '9'

def natText : Nat → Nat → Text
  | 0, n => [digitChar n]
  | fuel + 1, n => if n < 10 then [digitChar n] else natText fuel (n / 10) ++ [digitChar n]

/-- `_{index}`, `_key`, `_value` -/
def Suffix.text : Suffix → Text
  | .none => []
  | .idx i => '_' :: natText i i
  | .key => ['_', 'k', 'e', 'y']
  | .val => ['_', 'v', 'a', 'l', 'u', 'e']

/-- the suffix chain from the top-level field down to the rejecting position, outermost first -/
abbrev SufPath := List Suffix

def SufPath.text : SufPath → Text
  | [] => []
  | s :: rest => s.text ++ SufPath.text rest

/-- location of a rejection inside one top-level field -/
structure Loc where
  suffix : SufPath := []
  shape : Shape := .gotFirst
  /-- exception class where it differs from the one `validate` (Sem/Validate.lean) reports:
      since /repo 9c7ef9a `Enum._validate` no longer hashes the value, so an unhashable value is a
      plain ValueError like every other non-member -/
  cls : Option ErrCls := none
deriving Repr, DecidableEq, Inhabited

/-- scalars: which check of the `__set__` chain rejects `v` (given that one does).  Sign mixins
    check the type first (`_require_number`, same text as `Number`), Boolean and Enum no longer
    hash the value: every rejection is a typedpy message with a path. -/
def locScalar (f : FieldDecl) (v : PyVal) : Loc :=
  match f with
  | .integer _ => (match v with | .int _ | .bool _ => {} | _ => { shape := .gotLast })
  | .float _ => (match v with | .int _ | .float _ => {} | _ => { shape := .gotLast })
  | .boolean => { shape := .gotLast }
  | .enumCls _ _ => { cls := some .valueErr }
  -- ClassReference (`TypedField`): `Expected <Structure: …>; Got <v>`
  | .struct _ _ _ => { shape := .gotLast }
  | _ => {}

def isOk {α} : R α → Bool
  | .ok _ => true
  | .error _ => false

/-- first element (with its index) that the item field rejects -/
def firstBad (O : Oracles) (f : FieldDecl) : Nat → List PyVal → Option (Nat × PyVal)
  | _, [] => none
  | i, x :: xs => if isOk (validate O f x) then firstBad O f (i + 1) xs else some (i, x)

/-- positional items: first (index, field, element) rejected -/
def firstBadZip (O : Oracles) : Nat → List FieldDecl → List PyVal → Option (Nat × FieldDecl × PyVal)
  | _, [], _ => none
  | _, _ :: _, [] => none
  | i, f :: fs, x :: xs =>
    if isOk (validate O f x) then firstBadZip O (i + 1) fs xs else some (i, f, x)

/-- one level further out: the level's own suffix goes in front -/
def withSuffix (s : Suffix) (l : Loc) : Loc := { l with suffix := s :: l.suffix }

/-- Array / Deque / Tuple: type → uniqueItems → size → length rule → elements → uniqueItems -/
def locSeqLike (xs? : Option (List PyVal)) (uniq : Bool) (sz : SizeOpts) (pre : List PyVal → Bool)
    (bad : List PyVal → Option Loc) : Loc :=
  match xs? with
  | none => {}
  | some xs =>
    if !uniqOk uniq xs then {}
    else if !sizeOk sz xs.length then { shape := .gotLast }
    else if !pre xs then {}
    else match bad xs with
      | some l => l
      | none => {}

/-- homogeneous items: the first rejected element `i`, located by the item field under `_<i>` -/
def badOf (O : Oracles) (f : FieldDecl) (loc : PyVal → Loc) (xs : List PyVal) : Option Loc :=
  (firstBad O f 0 xs).map fun ix => withSuffix (.idx ix.1) (loc ix.2)

def tupleElems : PyVal → Option (List PyVal)
  | .tuple xs => some xs
  | _ => none

/-- Set / ImmutableSet: type → size → elements (the item field keeps the Set's own name: no suffix
    for this level) → size -/
def locSet (O : Oracles) (item : Option (FieldDecl × (PyVal → Loc))) (sz : SizeOpts) (v : PyVal) : Loc :=
  match v with
  | .set _ xs =>
    if !sizeOk sz xs.length then { shape := .gotLast }
    else match item.bind fun fl => (firstBad O fl.1 0 xs).map fun ix => fl.2 ix.2 with
      | some l => l
      | none => { shape := .gotLast }
  | _ => {}

/-- first entry whose key (then value) is rejected -/
def firstBadEntry (O : Oracles) (kf vf : FieldDecl) (lk lv : PyVal → Loc) :
    List (PyVal × PyVal) → Option Loc
  | [] => none
  | (k, x) :: rest =>
    if !isOk (validate O kf k) then some (withSuffix .key (lk k))
    else if !isOk (validate O vf x) then some (withSuffix .val (lv x))
    else firstBadEntry O kf vf lk lv rest

/-- Map: type (`Expected a dict`, no value) → size → key / value per entry → size -/
def locMap (O : Oracles) (kv : Option (List (PyVal × PyVal) → Option Loc)) (sz : SizeOpts) (v : PyVal) : Loc :=
  match v with
  | .dict kvs =>
    if !sizeOk sz kvs.length then { shape := .gotLast }
    else match kv.bind fun g => g kvs with
      | some l => l
      | none => { shape := .gotLast }
  | _ => { shape := .plain }

mutual
/-- where the rejection of `v` by the field `f` is raised (meaningful when `validate` fails): the
    suffix chain through nested collections down to the first rejecting position, and the shape of
    the message raised there.  Structural recursion over the declaration tree, any depth. -/
def locate (O : Oracles) : FieldDecl → PyVal → Loc
  | .seqAny k sz, v => locSeqLike (seqElems k v) sz.uniq sz (fun _ => true) (fun _ => none)
  | .seqOf k item sz, v =>
    locSeqLike (seqElems k v) sz.uniq sz (fun _ => true) (badOf O item (locate O item))
  | .seqPos k fs addl sz, v =>
    locSeqLike (seqElems k v) sz.uniq sz
      (fun xs => decide (fs.length ≤ xs.length) && (addl || decide (xs.length ≤ fs.length)))
      (locateZip O 0 fs)
  | .setAny _ sz, v => locSet O none sz v
  | .setOf _ item sz, v => locSet O (some (item, locate O item)) sz v
  | .tupleOf item uniq, v =>
    locSeqLike (tupleElems v) uniq {} (fun _ => true) (badOf O item (locate O item))
  | .tuplePos fs uniq, v =>
    locSeqLike (tupleElems v) uniq {} (fun xs => fs.length == xs.length) (locateZip O 0 fs)
  | .mapAny sz, v => locMap O none sz v
  | .mapOf kf vf sz, v =>
    locMap O (some (firstBadEntry O kf vf (locate O kf) (locate O vf))) sz v
  | .number o, v => locScalar (.number o) v
  | .integer o, v => locScalar (.integer o) v
  | .float o, v => locScalar (.float o) v
  | .string a b c, v => locScalar (.string a b c) v
  | .boolean, v => locScalar .boolean v
  | .enumLit vs, v => locScalar (.enumLit vs) v
  | .enumCls c ns, v => locScalar (.enumCls c ns) v
  -- ClassReference: `Expected <Structure: …>; Got <v>`; inline StructureReference (since /repo 3e97bbb):
  -- `<name>: <the embedded class's own message>` resp. `<name>: Expected a dictionary or Structure; got <v>`
  | .struct c _ _, _ => if c.inline then { shape := .plain } else { shape := .gotLast }
  -- AnyOf / OneOf: `<name>: <v> of type T did not match any field option. …` resp. (OneOf matching
  -- twice) `<name>: : Got <v>; Matched more than one field option`: the field's own path, then text
  | .anyOf _, _ => { shape := .plain }
  | .oneOf _, _ => { shape := .plain }
  -- AllOf hands its own name to every option: the first rejecting option raises ITS message
  | .allOf fs, v => locateAll O fs v
  -- NotField: `<name>: Got <v>; Expected not to match any field definition`
  | .notF _, _ => {}
  | .noneF, _ => {}
  | .anything, _ => {}
termination_by structural f _ => f

/-- AllOf: the location reported by the first option that rejects `v` -/
def locateAll (O : Oracles) : List FieldDecl → PyVal → Loc
  | [], _ => {}
  | f :: fs, v => if isOk (validate O f v) then locateAll O fs v else locate O f v
termination_by structural fs _ => fs

/-- positional items: the first rejected element `i`, located by ITS field under `_<i>` -/
def locateZip (O : Oracles) : Nat → List FieldDecl → List PyVal → Option Loc
  | _, [], _ => none
  | _, _ :: _, [] => none
  | i, f :: fs, x :: xs =>
    if isOk (validate O f x) then locateZip O (i + 1) fs xs
    else some (withSuffix (.idx i) (locate O f x))
termination_by structural _ fs _ => fs
end

def isScalarDecl : FieldDecl → Bool
  | .number _ | .integer _ | .float _ | .string _ _ _ | .boolean | .enumLit _ | .enumCls _ _ => true
  | _ => false

/-- the statement's domain: scalars and collections of scalars -/
def isFlatDecl : FieldDecl → Bool
  | .seqAny _ _ | .setAny _ _ | .mapAny _ => true
  | .seqOf _ item _ | .setOf _ item _ | .tupleOf item _ => isScalarDecl item
  | .seqPos _ fs _ _ | .tuplePos fs _ => fs.all isScalarDecl
  | .mapOf kf vf _ => isScalarDecl kf && isScalarDecl vf
  | f => isScalarDecl f

mutual
/-- the extended domain of the path model: scalars, nested structures (`ClassReference` and, since
    /repo 3e97bbb, the inline `StructureReference`) and collections of these at ANY nesting depth -/
def isPathDecl : FieldDecl → Bool
  | .number _ | .integer _ | .float _ | .string _ _ _ | .boolean | .enumLit _ | .enumCls _ _ => true
  | .seqAny _ _ | .setAny _ _ | .mapAny _ => true
  | .seqOf _ item _ => isPathDecl item
  | .setOf _ item _ => isPathDecl item
  | .tupleOf item _ => isPathDecl item
  | .seqPos _ fs _ _ => allPathDecl fs
  | .tuplePos fs _ => allPathDecl fs
  | .mapOf kf vf _ => isPathDecl kf && isPathDecl vf
  | .struct _ _ _ => true
  -- multi-field wrappers: AnyOf / OneOf / NotField reject at the field itself (any options), AllOf
  -- through its first rejecting option
  | .anyOf _ => true
  | .oneOf _ => true
  | .notF _ => true
  | .allOf fs => allPathDecl fs
  | _ => false
termination_by structural f => f
def allPathDecl : List FieldDecl → Bool
  | [] => true
  | f :: fs => isPathDecl f && allPathDecl fs
termination_by structural fs => fs
end

/-! ### `Structure.__init__` for a flat class: which messages are raised -/

/-- one rejected top-level field -/
structure Site where
  top : String
  loc : Loc
  cls : ErrCls
deriving Repr

/-- value / problem texts of a site; universally quantified in theorems, read off the real message
    by the driver -/
abbrev Texts := Site → Text × Text

/-- `str(e)` of the exception the field raises -/
def Site.text (T : Texts) (s : Site) : Text :=
  s.top.toList ++ s.loc.suffix.text ++ (':' :: ' ' :: body s.loc.shape (T s).1 (T s).2)

/-- `<top><suffix>` -/
def Site.path (s : Site) : Text := s.top.toList ++ s.loc.suffix.text

/-- the supplied arguments in signature order with the site of every rejected one
    (`setattr(self, name, val)` for `name, val in bound.arguments.items()`) -/
def sites (O : Oracles) (c : ClassOpts) (kw : List (String × PyVal)) :
    List (String × FieldDecl) → List Site
  | [] => []
  | (name, f) :: rest =>
    match argFor c [] kw name with
    | none => sites O c kw rest
    | some v =>
      match validate O f v with
      | .ok _ => sites O c kw rest
      | .error e => ⟨name, locate O f v, ((locate O f v).cls).getD e⟩ :: sites O c kw rest

/-- what `cls(**kw)` raises -/
inductive Raised where
  | nothing
  /-- `Signature.bind` TypeError (`<Class>: missing a required argument …`) -/
  | bind
  /-- fail-fast: `e.__class__(f"{cls_name}.{e}")` for the first rejected argument -/
  | single (cls : ErrCls) (text : Text)
  /-- collect-all: `InvalidStructureErr(json.dumps([f"{cls_name}.{e}" …]))` -/
  | collected (texts : List Text)
deriving Repr, DecidableEq

def constructRaises (O : Oracles) (T : Texts) (failFast : Bool) (c : ClassOpts)
    (fields : List (String × FieldDecl)) (kw : List (String × PyVal)) : Raised :=
  if !bindOk c (fields.map (·.1)) kw then .bind
  else match sites O c kw fields with
    | [] => .nothing
    | s :: ss =>
      if failFast then .single s.cls (withClass (some c.name.toList) (s.text T))
      else .collected ((s :: ss).map fun x => withClass (some c.name.toList) (x.text T))

/-- `str(e)` -/
def Raised.text (J : Codec) : Raised → Option Text
  | .single _ t => some t
  | .collected ts => some (J.dumps ts)
  | _ => none

/-- the fields `validate` rejects among the supplied ones, in signature order (the right-hand side
    of the property, independent of all message code) -/
def invalidFields (O : Oracles) (c : ClassOpts) (kw : List (String × PyVal))
    (fields : List (String × FieldDecl)) : List String :=
  fields.filterMap fun nf =>
    match argFor c [] kw nf.1 with
    | none => none
    | some v => if isOk (validate O nf.2 v) then none else some nf.1

/-! ### deserialization, phase one: what `deserialize_single_field` rejects

`construct_fields_map` runs `deserialize_single_field` on every supplied (non-null) document value
and, in collect-all mode, raises what it collected BEFORE the constructor runs.  Phase one performs
only part of the checks: scalars go through `field._validate` (type, multiplesOf, minimum, maximum,
length, pattern, membership — everything except the sign mixins, which live in `__set__`);
collections check "is it list-like / a dict" and their elements / keys / values through the item
fields, but none of minItems / maxItems / uniqueItems / additionalItems / exact tuple length.
`Float._validate` converts a non-bool `int` first, so an int-spelled number is checked exactly like
the float it denotes.  Whatever phase one does not check is left to the constructor (phase two). -/

/-- the declaration as `_validate` sees it: without the sign mixin -/
def stripSign : FieldDecl → FieldDecl
  | .number o => .number { o with sign := .any }
  | .integer o => .integer { o with sign := .any }
  | .float o => .float { o with sign := .any }
  | f => f

/-- a scalar document value is rejected in phase one -/
def p1Scalar (O : Oracles) (f : FieldDecl) (v : PyVal) : Bool := !isOk (validate O (stripSign f) v)

/-- `isinstance(value, (list, tuple, set))` -/
def listLike : PyVal → Option (List PyVal)
  | .list xs | .tuple xs | .set _ xs => some xs
  | _ => none

/-- positional items: some declared position rejects its element -/
def p1Zip (O : Oracles) : List FieldDecl → List PyVal → Bool
  | f :: fs, x :: xs => p1Scalar O f x || p1Zip O fs xs
  | _, _ => false

/-- `set(values)` raises TypeError -/
def unhashableElem : PyVal → Bool
  | .list _ | .dict _ | .deque _ | .set false _ => true
  | _ => false

/-- `deserialize_single_field(field, v, name)` raises TypeError / ValueError (flat fields) -/
def p1Rejects (O : Oracles) (f : FieldDecl) (v : PyVal) : Bool :=
  match f with
  | .seqAny _ _ => (listLike v).isNone
  | .seqOf _ item _ => (match listLike v with | none => true | some xs => xs.any (p1Scalar O item))
  | .tupleOf item _ => (match listLike v with | none => true | some xs => xs.any (p1Scalar O item))
  | .seqPos _ fs _ _ =>
    (match listLike v with | none => true | some xs => decide (xs.length < fs.length) || p1Zip O fs xs)
  | .tuplePos fs _ =>
    (match listLike v with | none => true | some xs => decide (xs.length < fs.length) || p1Zip O fs xs)
  | .setAny _ _ => (match listLike v with | none => true | some xs => xs.any unhashableElem)
  | .setOf _ item _ =>
    (match listLike v with
     | none => true
     | some xs => xs.any (p1Scalar O item) || xs.any unhashableElem)
  | .mapAny _ => (match v with | .dict _ => false | _ => true)
  | .mapOf kf vf _ =>
    (match v with
     | .dict kvs => kvs.any fun kv => p1Scalar O kf kv.1 || p1Scalar O vf kv.2
     | _ => true)
  | f => p1Scalar O f v

/-- the supplied fields phase one rejects; a null document value is not processed at all -/
def phaseOneInvalid (O : Oracles) (doc : List (String × PyVal)) (fields : List (String × FieldDecl)) :
    List String :=
  fields.filterMap fun nf =>
    match lookup nf.1 doc with
    | none => none
    | some v => if !v.isNone && p1Rejects O nf.2 v then some nf.1 else none

/-- what deserialization in collect-all mode reports for document `doc` whose lifted constructor
    arguments are `kw`: phase one's rejections if there are any, else the constructor's -/
def deserCollected (O : Oracles) (c : ClassOpts) (doc kw : List (String × PyVal))
    (fields : List (String × FieldDecl)) : List String :=
  match phaseOneInvalid O doc fields with
  | [] => invalidFields O c kw fields
  | ns => ns


/-! ### deserialization, phase one: WHERE the rejection is raised and which path its text carries

Top-level scalars use the field's own `_name` (always the key).  List-like fields wrap every
element error so that the text begins with `<name>_<i>` (`deserialize_list_like`), positional
items always get the `<name>_<i>: ` prefix.  Since /repo 23519e1 the two places that used to add
nothing do so too:
  * `deserialize_map` wraps every key / value error: the inner field's message begins with whatever
    its scratch `_name` holds (nothing on a fresh class, another field's name if the Field instance
    is shared); it is kept if it starts with `<name>:` or `<name>_`, else prefixed `<name>: `;
  * `content_type(values)` after the element loop (`set(values)` of an unhashable element) is
    re-raised as `<name>: Got <value>; unhashable type: …`.
Every phase-one site is therefore `named`; the kinds `inner` / `foreign` are kept only so that a
regression which re-opens one of those sites has a name.
The scratch names are an input of the model (observed by the harness just before the call). -/

inductive P1Kind where
  | named | inner | foreign
  /-- (former site kind, kept so that a regression has a name) a dict document of a top-level
      class-reference field whose nested error is passed through without the outer field's name -/
  | nested
deriving Repr, DecidableEq, Inhabited

structure P1Site where
  top : String
  kind : P1Kind
  /-- the text `str(e)` begins with (no class prefix); `none`: nothing is guaranteed -/
  head : Option Text
  cls : ErrCls
deriving Repr, DecidableEq

def errOf {α} : R α → ErrCls
  | .error e => e
  | .ok _ => .valueErr

/-- exception class of a scalar's phase-one rejection (`Enum` never raises TypeError) -/
def p1Cls (O : Oracles) (f : FieldDecl) (v : PyVal) : ErrCls :=
  match f with
  | .enumCls _ _ => .valueErr
  | _ => errOf (validate O (stripSign f) v)

def nameIdx (name : String) (i : Nat) : Text := name.toList ++ ('_' :: natText i i)

/-- head of a top-level scalar's message: `<name>: ` (+ `Got ` for the value-first shape; Enum has
    two spellings, only `<name>: ` is common to both) -/
def p1ScalarHead (name : String) (f : FieldDecl) (v : PyVal) : Text :=
  name.toList ++ (':' :: ' ' ::
    (match f with
     | .enumCls _ _ => []
     | _ => if (locScalar (stripSign f) v).shape == .gotFirst then sGot else []))

/-- first element the item field rejects, with its index -/
def p1First (O : Oracles) (f : FieldDecl) : Nat → List PyVal → Option (Nat × PyVal)
  | _, [] => none
  | i, x :: xs => if p1Scalar O f x then some (i, x) else p1First O f (i + 1) xs

def p1FirstZip (O : Oracles) : Nat → List FieldDecl → List PyVal → Option (Nat × FieldDecl × PyVal)
  | i, f :: fs, x :: xs => if p1Scalar O f x then some (i, f, x) else p1FirstZip O (i + 1) fs xs
  | _, _, _ => none

/-- element of a homogeneous list-like field: the wrapper adds `<name>_<i>: ` unless the inner text
    (which begins with the item field's scratch name, if it has one) already starts with `<name>_<i>` -/
def p1ElemHead (scr : Option String) (name : String) (i : Nat) (item : FieldDecl) (x : PyVal) : Text :=
  match item, x, scr with
  -- Enum is a SerializableField: deserialize_single_field prefixes its errors with the name passed
  -- in (`<name>_<i>`) unless they already start with it
  | .enumCls _ _, _, _ => nameIdx name i
  | .enumLit _, _, _ => nameIdx name i
  | _, _, some s => if (dropPre (nameIdx name i) s.toList).isSome then s.toList else nameIdx name i
  | _, _, none => nameIdx name i

def p1ListLike (name : String) (v : PyVal)
    (k : List PyVal → Option P1Site) : Option P1Site :=
  match listLike v with
  | none => some ⟨name, .named, some (name.toList ++ [':', ' '] ++ sGot), .valueErr⟩
  | some xs => k xs

def p1Homog (O : Oracles) (scr : List (Option String)) (name : String) (item : FieldDecl)
    (xs : List PyVal) : Option P1Site :=
  (p1First O item 0 xs).map fun ix =>
    ⟨name, .named, some (p1ElemHead (scr.headD none) name ix.1 item ix.2), .valueErr⟩

def p1Positional (O : Oracles) (name : String) (fs : List FieldDecl) (xs : List PyVal) :
    Option P1Site :=
  if xs.length < fs.length then some ⟨name, .named, some (name.toList ++ [':', ' '] ++ sGot), .valueErr⟩
  else (p1FirstZip O 0 fs xs).map fun ifx =>
    ⟨name, .named, some (nameIdx name ifx.1 ++ [':', ' ']), .valueErr⟩

def p1SetBuild (name : String) (xs : List PyVal) : Option P1Site :=
  if xs.any unhashableElem
  then some ⟨name, .named, some (name.toList ++ [':', ' '] ++ sGot), .typeErr⟩ else none

/-- a Map entry's rejection: the text begins with the map's own name — either the inner message
    already did (`<name>:` / `<name>_…`, from a stale own scratch name) or `<name>: ` is prefixed -/
def p1InnerSite (O : Oracles) (name : String) (f : FieldDecl) (x : PyVal) : P1Site :=
  ⟨name, .named, some name.toList, p1Cls O f x⟩

/-- entries in dict order; within an entry the VALUE is deserialized before the KEY
    (`res[key_expr] = value_expr` evaluates the right-hand side first) -/
def p1FirstEntry (O : Oracles) (scr : List (Option String)) (name : String) (kf vf : FieldDecl) :
    List (PyVal × PyVal) → Option P1Site
  | [] => none
  | (k, x) :: rest =>
    if p1Scalar O vf x then some (p1InnerSite O name vf x)
    else if p1Scalar O kf k then some (p1InnerSite O name kf k)
    else p1FirstEntry O scr name kf vf rest

/-- the phase-one rejection site of one supplied, non-null document value (`none` = accepted).
    `scr`: scratch `_name`s of the field's inner Field instances (item; or key, value). -/
def p1Site (O : Oracles) (scr : List (Option String)) (name : String) (f : FieldDecl) (v : PyVal) :
    Option P1Site :=
  match f with
  | .seqAny _ _ => p1ListLike name v fun _ => none
  | .seqOf _ item _ => p1ListLike name v (p1Homog O scr name item)
  | .tupleOf item _ => p1ListLike name v (p1Homog O scr name item)
  | .seqPos _ fs _ _ => p1ListLike name v (p1Positional O name fs)
  | .tuplePos fs _ => p1ListLike name v (p1Positional O name fs)
  | .setAny _ _ => p1ListLike name v (p1SetBuild name)
  | .setOf _ item _ =>
    p1ListLike name v fun xs =>
      match p1Homog O scr name item xs with
      | some s => some s
      | none => p1SetBuild name xs
  | .mapAny _ =>
    (match v with
     | .dict _ => none
     | _ => some ⟨name, .named, some (name.toList ++ [':', ' '] ++ sGot), .typeErr⟩)
  | .mapOf kf vf _ =>
    (match v with
     | .dict kvs => p1FirstEntry O scr name kf vf kvs
     | _ => some ⟨name, .named, some (name.toList ++ [':', ' '] ++ sGot), .typeErr⟩)
  | f => if p1Scalar O f v then some ⟨name, .named, some (p1ScalarHead name f v), p1Cls O f v⟩ else none

/-- all phase-one sites, in the order `construct_fields_map` visits the fields (`fields` must be
    in class-definition order here) -/
def p1Sites (O : Oracles) (scr : List (String × List (Option String))) (doc : List (String × PyVal))
    (fields : List (String × FieldDecl)) : List P1Site :=
  fields.filterMap fun nf =>
    match lookup nf.1 doc with
    | none => none
    | some v => if v.isNone then none else p1Site O ((lookup nf.1 scr).getD []) nf.1 nf.2 v

/-! ### deserialization at any nesting depth: the head of the text `deserialize_single_field` raises

Accept / reject (and the exception class) come from `deser` (Sem/Deser.lean, the full model of
`deserialize_single_field` at any depth, nested structures included).  Here: the text every such
rejection is GUARANTEED to begin with, as a function of the declaration tree, the name handed down
and the position of the first rejected element — independent of every scratch `_name`:
  * `deserialize_list_like`, homogeneous items: element `i` is deserialized under `<name>_<i>`; its
    error is kept if it starts with `<name>_<i>`, else prefixed `<name>_<i>: `;
  * positional items: element `i` is deserialized under `<name>` and ALWAYS prefixed `<name>_<i>: `;
  * `deserialize_map`: value (first) and key under `<name>`; kept if the text starts with `<name>:`
    or `<name>_`, else prefixed `<name>: `;
  * Enum and other `SerializableField`s: kept if it starts with `<name>`, else prefixed `<name>: `;
  * StructureReference, AnyOf / OneOf / AllOf / NotField, NoneField, "not list-like", "not a dict",
    "too short", `set(values)`: the branch's own `<name>: Got …` (`<name>: Expected a dictionary; Got …`
    for a class reference given a non-dict);
  * a class reference given a dict: since /repo 8de2ad2 the nested structure's error is kept if it starts with
    `<name>:` / `<name>_`, else prefixed `<name>: ` (before: passed through unchanged, the former finding
    `no-path:nested-structure:deser-classref`);
  * Number / String / Boolean: the field's own scratch `_name` (nothing guaranteed here; the wrappers
    above supply the path). -/

def firstFail (ok : PyVal → Bool) : Nat → List PyVal → Option (Nat × PyVal)
  | _, [] => none
  | i, x :: xs => if ok x then firstFail ok (i + 1) xs else some (i, x)

def startsWith (p t : Text) : Bool := (dropPre p t).isSome

def sColonGot : Text := [':', ' ', 'G', 'o', 't', ' ']
def sExpDict : Text := ": Expected a dictionary; Got ".toList

/-- homogeneous list-like element wrapper -/
def dWrapIdx (name : Text) (i : Nat) (inner : Text) : Text :=
  let ni := name ++ ('_' :: natText i i)
  if startsWith ni inner then inner else ni

/-- `deserialize_map` entry wrapper -/
def dWrapMap (name : Text) (inner : Text) : Text :=
  if startsWith (name ++ [':']) inner || startsWith (name ++ ['_']) inner then inner else name

def dHeadHomog (ok : PyVal → Bool) (h : Text → PyVal → Text) (name : Text) (xs : List PyVal) :
    Option Text :=
  (firstFail ok 0 xs).map fun ix => dWrapIdx name ix.1 (h (name ++ ('_' :: natText ix.1 ix.1)) ix.2)

/-- entries in dict order, the value before the key -/
def dHeadEntries (okK okV : PyVal → Bool) (hK hV : Text → PyVal → Text) (name : Text) :
    List (PyVal × PyVal) → Option Text
  | [] => none
  | (k, x) :: rest =>
    if !okV x then some (dWrapMap name (hV name x))
    else if !okK k then some (dWrapMap name (hK name k))
    else dHeadEntries okK okV hK hV name rest

def dHeadListLike (name : Text) (v : PyVal) (k : List PyVal → Option Text) : Text :=
  match listLike v with
  | none => name ++ sColonGot
  | some xs => (k xs).getD (name ++ sColonGot)    -- `content_type(values)` failing: `<name>: Got …`

def mapOpts (opts : DeserOpts) : DeserOpts := { opts with keepUndefined := true }

mutual
/-- what the text of a rejection by `deserialize_single_field(f, v, name)` is guaranteed to begin
    with (`[]`: nothing).  Structural recursion over the declaration tree, any depth. -/
def dHead (O : Oracles) (opts : DeserOpts) : FieldDecl → Text → PyVal → Text
  | .seqAny _ _, name, v => dHeadListLike name v fun _ => none
  | .setAny _ _, name, v => dHeadListLike name v fun _ => none
  | .seqOf _ item _, name, v =>
    dHeadListLike name v (dHeadHomog (fun x => isOk (deser O opts false item x)) (dHead O opts item) name)
  | .setOf _ item _, name, v =>
    dHeadListLike name v (dHeadHomog (fun x => isOk (deser O opts false item x)) (dHead O opts item) name)
  | .tupleOf item _, name, v =>
    dHeadListLike name v (dHeadHomog (fun x => isOk (deser O opts false item x)) (dHead O opts item) name)
  | .seqPos _ fs _ _, name, v =>
    dHeadListLike name v fun xs =>
      if xs.length < fs.length then none else dHeadZip O opts name 0 fs xs
  | .tuplePos fs _, name, v =>
    dHeadListLike name v fun xs =>
      if xs.length < fs.length then none else dHeadZip O opts name 0 fs xs
  | .mapAny _, name, _ => name ++ sColonGot
  | .mapOf kf vf _, name, v =>
    (match v with
     | .dict kvs =>
       (dHeadEntries (fun k => isOk (deser O (mapOpts opts) false kf k))
          (fun x => isOk (deser O (mapOpts opts) false vf x))
          (dHead O (mapOpts opts) kf) (dHead O (mapOpts opts) vf) name kvs).getD name
     | _ => name ++ sColonGot)
  | .struct c _ _, name, v =>
    if c.inline then name ++ sColonGot
    else (match v with
      | .dict _ => name      -- since /repo 8de2ad2: kept if it starts with `<name>:` / `<name>_`, else prefixed `<name>: `
      | _ => name ++ sExpDict)
  | .enumLit _, name, _ => name
  | .enumCls _ _, name, _ => name
  | .anyOf _, name, _ => name ++ sColonGot
  | .oneOf _, name, _ => name ++ sColonGot
  | .allOf _, name, _ => name ++ sColonGot
  | .notF _, name, _ => name ++ sColonGot
  | .noneF, name, _ => name ++ sColonGot
  | .number _, _, _ => []
  | .integer _, _, _ => []
  | .float _, _, _ => []
  | .string _ _ _, _, _ => []
  | .boolean, _, _ => []
  | .anything, _, _ => []
termination_by structural f _ _ => f

/-- positional items: the first rejected element `i`: `<name>_<i>: ` + what its field guarantees
    under `<name>` -/
def dHeadZip (O : Oracles) (opts : DeserOpts) (name : Text) : Nat → List FieldDecl → List PyVal → Option Text
  | _, [], _ => none
  | _, _ :: _, [] => none
  | i, f :: fs, x :: xs =>
    if isOk (deser O opts false f x) then dHeadZip O opts name (i + 1) fs xs
    else some (name ++ ('_' :: natText i i) ++ [':', ' '] ++ dHead O opts f name x)
termination_by structural _ fs _ => fs
end

/-- a class reference (`ClassReference`, not the inline `StructureReference`) -/
def isClassRef : FieldDecl → Bool
  | .struct c _ _ => !c.inline
  | _ => false

/-- a dict document -/
def isDictVal : PyVal → Bool
  | .dict _ => true
  | _ => false

/-- the phase-one rejection site of one supplied, non-null document value of a field of ANY
    declaration: exists exactly when `deser` rejects; flat fields keep the finer (scratch-aware)
    model `p1Site`. -/
def p1SiteD (O : Oracles) (opts : DeserOpts) (ign : Bool) (scr : List (Option String)) (name : String)
    (f : FieldDecl) (v : PyVal) : Option P1Site :=
  if isFlatDecl f then p1Site O scr name f v
  else match deser O opts ign f v with
    | .ok _ => none
    | .error e => some ⟨name, .named, some (dHead O opts f name.toList v), e⟩

def p1SitesD (O : Oracles) (opts : DeserOpts) (ign : Bool) (scr : List (String × List (Option String)))
    (doc : List (String × PyVal)) (fields : List (String × FieldDecl)) : List P1Site :=
  fields.filterMap fun nf =>
    match lookup nf.1 doc with
    | none => none
    | some v => if v.isNone then none else p1SiteD O opts ign ((lookup nf.1 scr).getD []) nf.1 nf.2 v

/-- the keyword arguments phase one hands to the constructor (the fields it accepts, deserialized) -/
def deserArgs (O : Oracles) (opts : DeserOpts) (ign : Bool) (doc : List (String × PyVal))
    (fields : List (String × FieldDecl)) : List (String × PyVal) :=
  fields.filterMap fun nf =>
    match lookup nf.1 doc with
    | none => none
    | some v => if v.isNone then none else
      match deser O opts ign nf.2 v with
      | .ok y => some (nf.1, y)
      | .error _ => none

/-- the supplied fields that deserialization must reject, at any depth: phase one rejects the
    document value, or the constructor rejects what phase one made of it (the property's right-hand
    side for deserialization; message code plays no part) -/
def deserInvalid (O : Oracles) (opts : DeserOpts) (ign : Bool) (doc : List (String × PyVal))
    (fields : List (String × FieldDecl)) : List String :=
  fields.filterMap fun nf =>
    match lookup nf.1 doc with
    | none => none
    | some v => if v.isNone then none else
      match deser O opts ign nf.2 v with
      | .ok y => if isOk (validate O nf.2 y) then none else some nf.1
      | .error _ => some nf.1

/-- a key-renaming mapper (`_serialization_mapper` / `_deserialization_mapper` dict, TO_LOWERCASE,
    TO_CAMELCASE, `Deserializer(mapper=…)`, `camel_case_convert`; aggregated to field ↦ document key):
    `construct_fields_map` reads field `f` under its mapped key but passes the FIELD name on as the
    error-path name, so the phase-one model runs on the document re-keyed by field names -/
def docOfMapped (m : List (String × String)) (raw : List (String × PyVal))
    (fields : List (String × FieldDecl)) : List (String × PyVal) :=
  fields.filterMap fun nf => (lookup ((lookup nf.1 m).getD nf.1) raw).map fun v => (nf.1, v)

/-- a `named` site's text begins with its own field's name -/
def P1Site.namesOwnField (s : P1Site) : Bool :=
  match s.head with
  | some h => (dropPre s.top.toList h).isSome
  | none => false


/-! ### typedpy's problem texts

Every problem text of a constructor rejection (fields/numbers.py, strings.py, enum.py, fields.py,
collections_impl.py, array.py, deque_field.py, tuple_field.py, set_field.py, sized.py, map_field.py,
structures.py TypedField) begins `Expected ` or `Does not match regular expression: `. -/

def sDoesNotMatch : Text := "Does not match regular expression: ".toList

def startsWithT (p t : Text) : Bool := (dropPre p t).isSome

/-- the template class of typedpy's problem texts -/
def isTypedpyProblem (p : Text) : Bool := startsWithT sExpected p || startsWithT sDoesNotMatch p

/-- the parameter-free templates -/
def fixedProblems : List Text :=
  ["Expected a number", "Expected a positive number", "Expected a negative number or 0",
   "Expected a negative number", "Expected a positive number or 0", "Expected a string",
   "Expected unique items", "Expected a dict", "Expected <class 'int'>", "Expected <class 'float'>",
   "Expected <class 'bool'>", "Expected <class 'str'>", "Expected <class 'list'>", "Expected <class 'set'>",
   "Expected <class 'tuple'>", "Expected <class 'collections.deque'>", "Expected <class 'dict'>"].map String.toList

/-- some occurrence of `pat` in `t` is followed by a typedpy problem -/
def problemAfter (pat : Text) : Text → Bool
  | [] => false
  | c :: cs => (match dropPre pat (c :: cs) with
      | some r => isTypedpyProblem r
      | none => false) || problemAfter pat cs

/-- some occurrence of `pat` in `t` is followed by a non-empty text -/
def nonEmptyAfter (pat : Text) : Text → Bool
  | [] => false
  | c :: cs => (match dropPre pat (c :: cs) with
      | some r => !r.isEmpty
      | none => false) || nonEmptyAfter pat cs

/-- the side condition of the render → parse theorems (`goodTexts`), read off a real message body:
    a non-empty problem where the shape puts it, not starting with `G` (`;`) for the two shapes that
    do not begin with `Got ` -/
def bodyWellFormed : Shape → Text → Bool
  | .gotFirst, rest => nonEmptyAfter sSemiSp rest
  | .gotLast, rest => !rest.isEmpty && rest.head? != some 'G'
  | .plain, rest => !rest.isEmpty && rest.head? != some 'G' && rest.head? != some ';'

/-- the text after `<path>: ` has the model's shape around a typedpy problem text -/
def bodyHasTemplate : Shape → Text → Bool
  | .gotFirst, rest => problemAfter sSemiSp rest
  | .gotLast, rest => isTypedpyProblem rest
  | .plain, rest => isTypedpyProblem rest

/-! ### class names typedpy itself produces

The class name is the first component of every message head (`f"{cls_name}.{e}"`), so the names
typedpy gives to the classes IT creates are part of the formatter: `Partial[Foo]`,
`AllFieldsRequired[Foo]`, `Extend[Foo]`, `Omit[Foo, …]`, `Pick[Foo, …]` without an explicit class
name are called `PartialFoo`, `AllFieldsRequiredFoo`, `ExtendFoo`, `OmitFoo`, `PickFoo`
(structures_reuse.py, structures.py). -/

inductive Derive where
  | partialOf | allRequired | extend | omit | pick
deriving Repr, DecidableEq, Inhabited

def Derive.pre : Derive → Text
  | .partialOf => "Partial".toList
  | .allRequired => "AllFieldsRequired".toList
  | .extend => "Extend".toList
  | .omit => "Omit".toList
  | .pick => "Pick".toList

/-- `__name__` of the derived class: the caller's explicit name, else prefix + base name -/
def derivedName (d : Derive) (explicit : Option Text) (base : Text) : Text :=
  match explicit with
  | some n => n
  | none => d.pre ++ base

/-- the field text `p` names the top-level field `top` of class `cls?`:
    `[<Class>.]<top>(_<index> | _key | _value)*` (one suffix per nesting level) -/
def namesField (cls : Option Text) (top : String) (p : Text) : Prop :=
  ∃ suf : SufPath, p = withClass cls (top.toList ++ suf.text)

end Typedpy.Err
