/-
  Sem/Validate.lean — executable model of typedpy's validation (`Field.__set__` chains) and of
  keyword construction (`Structure.__init__`), in the code's check order so that the exception
  class agrees.  Mirrors: fields/numbers.py, integers.py, floats.py, strings.py, boolean.py,
  enum.py, array.py, deque_field.py, set_field.py, tuple_field.py, map_field.py,
  multified_wrappers.py, structure_reference.py, structures.py (ClassReference, NoneField,
  Structure.__init__/__setattr__).

  Layout: one non-recursive "shape" function per field kind (`vNumber`, `vSeq`, …) that receives
  the element validator as a parameter, and one structurally recursive `validate` that ties them
  together over the declaration tree.
-/
import TypedpyModel.Core.Field
namespace Typedpy
open PyVal (pyEq pyMem pyNodup)

abbrev R := Except ErrCls

/-- sequencing for `Except`, as a named function so that proofs can rewrite with it -/
def bindE {α β} (r : R α) (k : α → R β) : R β :=
  match r with
  | .error e => .error e
  | .ok y => k y

@[simp] theorem bindE_ok {α β} (y : α) (k : α → R β) : bindE (.ok y) k = k y := rfl
@[simp] theorem bindE_error {α β} (e : ErrCls) (k : α → R β) : bindE (.error e) k = .error e := rfl

/-- `mapM` for `Except`, spelled out so that proofs can unfold it -/
def mapE {α β} (g : α → R β) : List α → R (List β)
  | [] => .ok []
  | x :: xs => bindE (g x) fun y => bindE (mapE g xs) fun ys => .ok (y :: ys)

def geMin (m : Option Q) (q : Q) : Bool := match m with | none => true | some lo => Q.le lo q
def leMax (m : Option Q) (excl : Bool) (q : Q) : Bool :=
  match m with | none => true | some hi => if excl then Q.lt q hi else Q.le q hi
def multOk (m : Option Int) (q : Q) : Bool := match m with | none => true | some k => q.isMultipleOf k
def signOk : Sign → Q → Bool
  | .any, _ => true
  | .pos, q => Q.lt (Q.ofInt 0) q
  | .neg, q => Q.lt q (Q.ofInt 0)
  | .nonpos, q => Q.le q (Q.ofInt 0)
  | .nonneg, q => Q.le (Q.ofInt 0) q

/-- all value constraints of a numeric declaration -/
def numOk (o : NumOpts) (q : Q) : Bool :=
  multOk o.mult q && geMin o.min q && leMax o.max o.exclMax q && signOk o.sign q

def geLen (m : Option Nat) (n : Nat) : Bool := match m with | none => true | some lo => lo ≤ n
def leLen (m : Option Nat) (n : Nat) : Bool := match m with | none => true | some hi => n ≤ hi
def sizeOk (sz : SizeOpts) (n : Nat) : Bool := geLen sz.min n && leLen sz.max n
def uniqOk (uniq : Bool) (xs : List PyVal) : Bool := !uniq || pyNodup xs

def seqElems : SeqKind → PyVal → Option (List PyVal)
  | .list, .list xs => some xs
  | .deque, .deque xs => some xs
  | _, _ => none
def mkSeq : SeqKind → List PyVal → PyVal
  | .list, xs => .list xs
  | .deque, xs => .deque xs

mutual
/-- Python objects for which `x in some_set` raises TypeError (unhashable); a `set` is looked up
    as its frozenset, so it does not raise -/
def unhashable : PyVal → Bool
  | .list _ => true
  | .dict _ => true
  | .deque _ => true
  | .tuple xs => unhashableAny xs      -- a tuple hashes its elements
  | _ => false
termination_by structural v => v
def unhashableAny : List PyVal → Bool
  | [] => false
  | x :: xs => unhashable x || unhashableAny xs
termination_by structural xs => xs
end

/-- remove later `==`-duplicates (building a Python set from a list) -/
def dedup : List PyVal → List PyVal
  | [] => []
  | x :: xs => x :: (dedup xs).filter (fun y => !pyEq x y)

/-- `d[k] = v` on an association list keyed through `==` -/
def dictSet (k v : PyVal) : List (PyVal × PyVal) → List (PyVal × PyVal)
  | [] => [(k, v)]
  | (k', v') :: rest => if pyEq k k' then (k', v) :: rest else (k', v') :: dictSet k v rest

def dictOfPairs (kvs : List (PyVal × PyVal)) : List (PyVal × PyVal) :=
  kvs.foldl (fun acc kv => dictSet kv.1 kv.2 acc) []

/-- keyword-argument view of a dict: all keys must be `str` -/
def kwOfDict : List (PyVal × PyVal) → Option (List (String × PyVal))
  | [] => some []
  | (.str k, v) :: rest => (kwOfDict rest).map (fun r => (k, v) :: r)
  | _ => none

/-- the value a field receives from the keyword arguments: the argument (unless it is an ignored
    `None`), else the default -/
def argFor (c : ClassOpts) (defaults kw : List (String × PyVal)) (name : String) : Option PyVal :=
  match lookup name kw with
  | some v => if v.isNone && c.ignoreNone && !c.required.contains name then none else some v
  | none => match lookup name defaults with
    | some d => if d.isNone then none else some d
    | none => none

/-! ### shape functions (non-recursive; the element validator is a parameter) -/

/-- `Number`: type, then multiplesOf / minimum / maximum / sign -/
def vNumber (o : NumOpts) (v : PyVal) : R PyVal :=
  match v.asNum with
  | none => .error .typeErr
  | some q => if numOk o q then .ok v else .error .valueErr

/-- `Integer`: `isinstance(v, int)` (so `bool` passes), then the `Number` checks -/
def vInteger (o : NumOpts) (v : PyVal) : R PyVal :=
  match v with
  | .int i => if numOk o (Q.ofInt i) then .ok v else .error .valueErr
  | .bool b => if numOk o (Q.ofInt (if b then 1 else 0)) then .ok v else .error .valueErr
  | _ => .error .typeErr

/-- `Float`: a non-bool `int` is converted first; then `isinstance(v, float)`; then `Number` -/
def vFloat (o : NumOpts) (v : PyVal) : R PyVal :=
  match v with
  | .int i => if numOk o (Q.ofInt i) then .ok (.float (Q.ofInt i)) else .error .valueErr
  | .float q => if numOk o q then .ok v else .error .valueErr
  | _ => .error .typeErr

def vPattern (O : Oracles) (pat : Option String) (s : String) : R PyVal :=
  match pat with
  | none => .ok (.str s)
  | some p => if O.reMatch p s then .ok (.str s) else .error .valueErr

/-- `String`: type → maxLength → minLength → pattern (`re.match`) -/
def vString (O : Oracles) (lo hi : Option Nat) (pat : Option String) (v : PyVal) : R PyVal :=
  match v with
  | .str s =>
    if !leLen hi s.length then .error .valueErr
    else if !geLen lo s.length then .error .valueErr
    else vPattern O pat s
  | _ => .error .typeErr

/-- `Boolean`: a bool, or the strings 'True' / 'False' (converted) -/
def vBoolean (v : PyVal) : R PyVal :=
  match v with
  | .bool _ => .ok v
  | .str s => if s == "True" then .ok (.bool true)
              else if s == "False" then .ok (.bool false) else .error .typeErr
  | _ => .error .typeErr

def vEnumLit (vals : List PyVal) (v : PyVal) : R PyVal :=
  if pyMem v vals then .ok v else .error .valueErr

/-- `Enum[EnumClass]`: a member, or a member name (converted to the member) -/
def vEnumCls (cls : String) (names : List String) (v : PyVal) : R PyVal :=
  match v with
  | .str n => if names.contains n then .ok (.enumv cls n) else .error .valueErr
  | .enumv c n => if c == cls && names.contains n then .ok v else .error .valueErr
  | _ => .error .valueErr

/-- `Array` / `Deque`: type → uniqueItems → size → (positional length rule `pre`) → items `g`
    → uniqueItems again on the normalised elements -/
def vSeq (k : SeqKind) (sz : SizeOpts) (pre : List PyVal → Bool)
    (g : List PyVal → R (List PyVal)) (v : PyVal) : R PyVal :=
  match seqElems k v with
  | none => .error .typeErr
  | some xs =>
    if !uniqOk sz.uniq xs then .error .valueErr
    else if !sizeOk sz xs.length then .error .valueErr
    else if !pre xs then .error .valueErr
    else bindE (g xs) fun ys =>
      if !uniqOk sz.uniq ys then .error .valueErr else .ok (mkSeq k ys)

/-- `Set` / `ImmutableSet`: type → size → items → size again after normalisation -/
def vSet (imm : Bool) (sz : SizeOpts) (g : List PyVal → R (List PyVal)) (v : PyVal) : R PyVal :=
  match v with
  | .set fr xs =>
    if !sizeOk sz xs.length then .error .valueErr
    else bindE (g xs) fun ys =>
      if !sizeOk sz (dedup ys).length then .error .valueErr
      else .ok (.set (fr || imm) (dedup ys))
  | _ => .error .typeErr

/-- `Tuple`: type → uniqueItems → (length rule `pre`) → items → uniqueItems again -/
def vTuple (uniq : Bool) (pre : List PyVal → Bool) (g : List PyVal → R (List PyVal))
    (v : PyVal) : R PyVal :=
  match v with
  | .tuple xs =>
    if !uniqOk uniq xs then .error .valueErr
    else if !pre xs then .error .valueErr
    else bindE (g xs) fun ys =>
      if !uniqOk uniq ys then .error .valueErr else .ok (.tuple ys)
  | _ => .error .typeErr

/-- `Map`: type → size → key/value fields per entry → size again after key normalisation -/
def vMap (sz : SizeOpts) (g : List (PyVal × PyVal) → R (List (PyVal × PyVal))) (v : PyVal) :
    R PyVal :=
  match v with
  | .dict kvs =>
    if !sizeOk sz kvs.length then .error .valueErr
    else bindE (g kvs) fun kvs' =>
      if !sizeOk sz (dictOfPairs kvs').length then .error .valueErr
      else .ok (.dict (dictOfPairs kvs'))
  | _ => .error .typeErr

/-- `ClassReference`: `isinstance(v, cls)` -/
def vClassRef (c : ClassOpts) (v : PyVal) : R PyVal :=
  match v with
  | .inst c' _ => if c.accepts.contains c' then .ok v else .error .typeErr
  | _ => .error .typeErr

/-- `StructureReference`: a dict (keyword arguments) or a Structure (its `__dict__`) -/
def vInline (v : PyVal) (k : List (String × PyVal) → R PyVal) : R PyVal :=
  match v with
  | .dict kvs => (match kwOfDict kvs with
    | none => .error .typeErr
    | some kw => k kw)
  | .inst _ attrs => k attrs
  | _ => .error .typeErr

def vNone (v : PyVal) : R PyVal := if v.isNone then .ok v else .error .typeErr

/-- required names present; no undeclared name unless additional properties are allowed
    (`Signature.bind` → TypeError) -/
def bindOk (c : ClassOpts) (names : List String) (kw : List (String × PyVal)) : Bool :=
  !c.required.any (fun r => (lookup r kw).isNone)
  && !(!c.addl && kw.any (fun a => !names.contains a.1))

/-- undeclared keyword arguments that become attributes -/
def extrasOf (c : ClassOpts) (names : List String) (kw : List (String × PyVal)) :
    List (String × PyVal) :=
  kw.filter (fun a => !names.contains a.1 && !(a.2.isNone && c.ignoreNone))

/-- `cls(**kw)` given the per-field validator -/
def vConstruct (c : ClassOpts) (names : List String) (kw : List (String × PyVal))
    (g : R (List (String × PyVal))) : R PyVal :=
  if !bindOk c names kw then .error .typeErr
  else bindE g fun attrs => .ok (.inst c.name (extrasOf c names kw ++ attrs))

/-! ### the recursive validator -/

mutual
/-- `field.__set__(fresh_instance, v)`: the stored (normalised) value or the exception class -/
def validate (O : Oracles) : FieldDecl → PyVal → R PyVal
  | .number o, v => vNumber o v
  | .integer o, v => vInteger o v
  | .float o, v => vFloat o v
  | .string lo hi pat, v => vString O lo hi pat v
  | .boolean, v => vBoolean v
  | .enumLit vals, v => vEnumLit vals v
  | .enumCls cls names, v => vEnumCls cls names v
  | .seqAny k sz, v => vSeq k sz (fun _ => true) (fun xs => .ok xs) v
  | .seqOf k f sz, v => vSeq k sz (fun _ => true) (mapE (validate O f)) v
  | .seqPos k fs addl sz, v =>
    vSeq k sz (fun xs => decide (fs.length ≤ xs.length) && (addl || decide (xs.length ≤ fs.length)))
      (validateZip O fs) v
  | .setAny imm sz, v => vSet imm sz (fun xs => .ok xs) v
  | .setOf imm f sz, v => vSet imm sz (mapE (validate O f)) v
  | .tupleOf f uniq, v => vTuple uniq (fun _ => true) (mapE (validate O f)) v
  | .tuplePos fs uniq, v => vTuple uniq (fun xs => fs.length == xs.length) (validateZip O fs) v
  | .mapAny sz, v => vMap sz (fun kvs => .ok kvs) v
  | .mapOf kf vf sz, v =>
    vMap sz (mapE (fun (kv : PyVal × PyVal) =>
      bindE (validate O kf kv.1) fun k' =>
      bindE (validate O vf kv.2) fun v' => .ok (k', v'))) v
  | .struct c fields defaults, v =>
    if c.inline then
      vInline v (fun kw =>
        vConstruct c (fields.map (·.1)) kw (validateFields O c defaults kw fields))
    else vClassRef c v
  | .anyOf fs, v => validateAny O fs v
  | .oneOf fs, v => if countOk O fs v == 1 then .ok v else .error .valueErr
  | .allOf fs, v => bindE (validateEach O fs v) fun _ => .ok v
  | .notF fs, v => if countOk O fs v == 0 then .ok v else .error .valueErr
  | .noneF, v => vNone v
  | .anything, v => .ok v
termination_by structural f _ => f

/-- positional items: element `i` through field `i`; surplus elements are kept as they are -/
def validateZip (O : Oracles) : List FieldDecl → List PyVal → R (List PyVal)
  | [], xs => .ok xs
  | _ :: _, [] => .ok []
  | f :: fs, x :: xs =>
    bindE (validate O f x) fun y => bindE (validateZip O fs xs) fun ys => .ok (y :: ys)
termination_by structural fs _ => fs

/-- `AnyOf`: the first accepting option wins and its stored value is kept -/
def validateAny (O : Oracles) : List FieldDecl → PyVal → R PyVal
  | [], _ => .error .valueErr
  | f :: fs, v => match validate O f v with
    | .ok y => .ok y
    | .error _ => validateAny O fs v
termination_by structural fs _ => fs

/-- number of options that accept `v` -/
def countOk (O : Oracles) : List FieldDecl → PyVal → Nat
  | [], _ => 0
  | f :: fs, v => (match validate O f v with | .ok _ => 1 | .error _ => 0) + countOk O fs v
termination_by structural fs _ => fs

/-- `AllOf`: every option must accept; the first failure propagates -/
def validateEach (O : Oracles) : List FieldDecl → PyVal → R Unit
  | [], _ => .ok ()
  | f :: fs, v => bindE (validate O f v) fun _ => validateEach O fs v
termination_by structural fs _ => fs

/-- the declared-field part of `Structure.__init__`: for every field (in field order) take the
    supplied argument, else the default, validate and store -/
def validateFields (O : Oracles) (c : ClassOpts) (defaults kw : List (String × PyVal)) :
    List (String × FieldDecl) → R (List (String × PyVal))
  | [] => .ok []
  | (name, f) :: rest =>
    match argFor c defaults kw name with
    | none => validateFields O c defaults kw rest
    | some v =>
      bindE (validate O f v) fun y =>
      bindE (validateFields O c defaults kw rest) fun ys => .ok ((name, y) :: ys)
termination_by structural fs => fs
end

/-- keyword construction `cls(**kw)` of a class declaration -/
def construct (O : Oracles) (cls : FieldDecl) (kw : List (String × PyVal)) : R PyVal :=
  match cls with
  | .struct c fields defaults =>
    vConstruct c (fields.map (·.1)) kw (validateFields O c defaults kw fields)
  | _ => .error (.other "not-a-class")

end Typedpy
