/-
  Sem/Serde.lean — executable model of mapper-free serialization and deserialization
  (serialization.py: serialize_val, serialize_internal, serialize_multifield_wrapper,
  deserialize_single_field, deserialize_list_like, deserialize_map, deserialize_multifield_wrapper,
  deserialize_structure_internal, construct_fields_map).  Key-renaming mappers are modelled
  separately (C07).  Documents are `PyVal`s built from none/bool/int/float/str/list/dict.
-/
import TypedpyModel.Sem.Validate
namespace Typedpy
open PyVal (pyEq)

/-! ### JSON-likeness -/

def isJsonKey : PyVal → Bool
  | .str _ | .int _ | .bool _ | .none | .float _ => true
  | _ => false

mutual
/-- composed only of dict / list / str / int / float / bool / None (what `json.dumps` accepts) -/
def isJson : PyVal → Bool
  | .none => true
  | .bool _ => true
  | .int _ => true
  | .float _ => true
  | .str _ => true
  | .list xs => isJsonList xs
  | .dict kvs => isJsonPairs kvs
  | _ => false
termination_by structural v => v
def isJsonList : List PyVal → Bool
  | [] => true
  | x :: xs => isJson x && isJsonList xs
termination_by structural xs => xs
def isJsonPairs : List (PyVal × PyVal) → Bool
  | [] => true
  | (k, v) :: rest => isJsonKey k && isJson v && isJsonPairs rest
termination_by structural xs => xs
end

/-! ### untyped serialization (`serialize_val(None, …)`) -/

def jsonKeyStr : PyVal → Option PyVal
  | .str s => some (.str s)
  | .int i => some (.str (toString i))
  | .bool b => some (.str (if b then "true" else "false"))
  | .none => some (.str "null")
  | _ => none

mutual
/-- `json.loads(json.dumps(v))` -/
def jsonRound : PyVal → Option PyVal
  | .none => some .none
  | .bool b => some (.bool b)
  | .int i => some (.int i)
  | .float q => some (.float q)
  | .str s => some (.str s)
  | .list xs => (jsonRoundList xs).map .list
  | .tuple xs => (jsonRoundList xs).map .list
  | .dict kvs => (jsonRoundPairs kvs).map .dict
  | _ => none
termination_by structural v => v
def jsonRoundList : List PyVal → Option (List PyVal)
  | [] => some []
  | x :: xs => match jsonRound x, jsonRoundList xs with
    | some y, some ys => some (y :: ys)
    | _, _ => none
termination_by structural xs => xs
def jsonRoundPairs : List (PyVal × PyVal) → Option (List (PyVal × PyVal))
  | [] => some []
  | (k, v) :: rest => match jsonKeyStr k, jsonRound v, jsonRoundPairs rest with
    | some k', some v', some r => some ((k', v') :: r)
    | _, _, _ => none
termination_by structural xs => xs
end

mutual
/-- serialization of a value at an untyped position: None, sequences element-wise, anything else
    through a JSON round trip (ValueError when `json.dumps` refuses) -/
def serAny : PyVal → R PyVal
  | .none => .ok .none
  | .list xs => bindE (serAnyList xs) fun ys => .ok (.list ys)
  | .tuple xs => bindE (serAnyList xs) fun ys => .ok (.list ys)
  | .set _ xs => bindE (serAnyList xs) fun ys => .ok (.list ys)
  | .inst _ _ => .error (.other "outside-model:untyped-structure")
  | .bool b => .ok (.bool b)
  | .int i => .ok (.int i)
  | .float q => .ok (.float q)
  | .str s => .ok (.str s)
  | .dict kvs =>
    -- json.dumps renders a float key with repr(), which the model does not have
    if kvs.any (fun kv => match kv.1 with | .float _ => true | _ => false)
    then .error (.other "outside-model:float-key")
    else match jsonRoundPairs kvs with
      | some r => .ok (.dict r)
      | none => .error .valueErr
  | .dec _ => .error .valueErr
  | .deque _ => .error .valueErr
  | .enumv _ _ => .error .valueErr
  | .opaque _ => .error .valueErr
termination_by structural v => v
def serAnyList : List PyVal → R (List PyVal)
  | [] => .ok []
  | x :: xs => bindE (serAny x) fun y => bindE (serAnyList xs) fun ys => .ok (y :: ys)
termination_by structural xs => xs
end

/-! ### shape functions of `serialize_val` -/

/-- what `for x in val` yields when a collection serializer is handed `val`: the elements of a
    sequence / set, but also the KEYS of a dict and the characters of a string (a mis-typed value
    can reach a typed serializer through a multi-field wrapper option whose `_validate` only looks
    at the container type) -/
def seqLike : PyVal → Option (List PyVal)
  | .list xs | .deque xs | .set _ xs | .tuple xs => some xs
  | .dict kvs => some (kvs.map (·.1))
  | .str s => some (s.toList.map fun c => PyVal.str (String.singleton c))
  | _ => none

/-- collections serialize to a JSON array through the element serializer -/
def sSeq (g : List PyVal → R (List PyVal)) (v : PyVal) : R PyVal :=
  match v with
  | .none => .ok .none
  | w => match seqLike w with
    | some xs => bindE (g xs) fun ys => .ok (.list ys)
    | none => .error .typeErr

def sMap (g : List (PyVal × PyVal) → R (List (PyVal × PyVal))) (v : PyVal) : R PyVal :=
  match v with
  | .none => .ok .none
  | .dict kvs => bindE (g kvs) fun r =>
      -- a serialized key that is a list (from a tuple key) cannot be a dict key
      if r.any (fun kv => unhashable kv.1) then .error .typeErr else .ok (.dict (dictOfPairs r))
  | _ => .error .typeErr

/-- Number / Boolean / String (and None): the value itself -/
def sScalar (v : PyVal) : R PyVal :=
  match v with
  | .dec _ => .error (.other "decimal-str")
  | w => .ok w

def sEnumCls (v : PyVal) : R PyVal :=
  match v with
  | .enumv _ n => .ok (.str n)
  | .none => .ok .none
  | _ => .error (.other "AttributeError")

/-- `Anything`: scalars as they are, sequences element-wise, a dict through `serialize_internal`
    (None values dropped, keys kept), else a JSON round trip -/
def sAnything (v : PyVal) : R PyVal :=
  match v with
  | .dict kvs =>
    bindE (mapE (fun (kv : PyVal × PyVal) => bindE (serAny kv.2) fun w => .ok (kv.1, w))
            (kvs.filter (fun kv => !kv.2.isNone))) fun r => .ok (.dict r)
  | w => serAny w

/-- `serialize_internal` of a Structure instance given the per-attribute serializer -/
def sInst (c : ClassOpts) (v : PyVal) (g : List (String × PyVal) → R (List (PyVal × PyVal))) : R PyVal :=
  match v with
  | .none => .ok .none
  | .inst cn attrs =>
    -- an instance of another class is serialized by ITS class's fields, which this declaration
    -- does not carry: outside the model
    if !(cn == c.name || c.accepts.contains cn) then .error (.other "outside-model:foreign-instance")
    else bindE (g (attrs.filter (fun a => !a.2.isNone))) fun r => .ok (.dict r)
  -- OneOf / AllOf / NotField keep the raw input: a dict given to a StructureReference option is
  -- serialized as an untyped mapping
  | .dict kvs => sAnything (.dict kvs)
  | .list xs => serAny (.list xs)          -- the generic sequence branch comes before the field's
  | .tuple xs => serAny (.tuple xs)
  | .set fr xs => serAny (.set fr xs)
  | _ => .error (.other "AttributeError")

/-- the `_validate` used by serialize_multifield_wrapper to pick an option: full check for
    scalars / enums, only the container type for collections and class references -/
def shallowOk (O : Oracles) (f : FieldDecl) (v : PyVal) : Bool :=
  match f with
  | .number o => (vNumber { o with sign := .any } v).toBool      -- sign mixins are checked in __set__ only
  | .integer o => (vInteger { o with sign := .any } v).toBool
  | .float o => (vFloat { o with sign := .any } v).toBool
  | .string lo hi pat => (vString O lo hi pat v).toBool
  | .boolean => (vBoolean v).toBool
  | .enumLit vals => (vEnumLit vals v).toBool
  | .enumCls cls names => (vEnumCls cls names v).toBool
  | .seqAny k _ | .seqOf k _ _ | .seqPos k _ _ _ => (seqElems k v).isSome
  | .setAny imm _ | .setOf imm _ _ => (match v with | .set fr _ => fr || !imm | _ => false)
  | .tupleOf _ _ | .tuplePos _ _ => (match v with | .tuple _ => true | _ => false)
  | .mapAny _ | .mapOf _ _ _ => (match v with | .dict _ => true | _ => false)
  | .struct c _ _ => if c.inline then true else (vClassRef c v).toBool
  | .noneF => v.isNone
  | _ => true

mutual
/-- `serialize_val(field, name, v)` without mappers -/
def ser (O : Oracles) : FieldDecl → PyVal → R PyVal
  | .number _, v => sScalar v
  | .integer _, v => sScalar v
  | .float _, v => sScalar v
  | .string _ _ _, v => sScalar v
  | .boolean, v => sScalar v
  | .enumLit _, v => .ok v
  | .enumCls _ _, v => sEnumCls v
  | .seqAny _ _, v => sSeq serAnyList v
  | .seqOf _ f _, v => sSeq (mapE (ser O f)) v
  | .seqPos _ fs _ _, v => sSeq (serZip O fs) v
  | .setAny _ _, v => sSeq serAnyList v
  | .setOf _ f _, v => sSeq (mapE (ser O f)) v
  | .tupleOf f _, v => sSeq (mapE (ser O f)) v
  | .tuplePos fs _, v => sSeq (serZip O fs) v
  | .mapAny _, v =>
    sMap (mapE (fun (kv : PyVal × PyVal) =>
      bindE (serAny kv.1) fun k' => bindE (serAny kv.2) fun v' => .ok (k', v'))) v
  | .mapOf kf vf _, v =>
    sMap (mapE (fun (kv : PyVal × PyVal) =>
      bindE (ser O kf kv.1) fun k' => bindE (ser O vf kv.2) fun v' => .ok (k', v'))) v
  | .struct c fields _, v =>
    sInst c v (mapE (fun (a : String × PyVal) =>
      bindE (serField O fields a.1 a.2) fun j => .ok (PyVal.str a.1, j)))
  | .anyOf fs, v => serFirst O fs v
  | .oneOf fs, v => serFirst O fs v
  | .allOf fs, v => serFirst O fs v
  | .notF fs, v => serFirst O fs v
  | .noneF, v => if v.isNone then .ok .none else .error (.other "AttributeError")
  | .anything, v => sAnything v
termination_by structural f _ => f

/-- positional items; surplus elements are untyped -/
def serZip (O : Oracles) : List FieldDecl → List PyVal → R (List PyVal)
  | [], xs => serAnyList xs
  | _ :: _, [] => .ok []
  | f :: fs, x :: xs => bindE (ser O f x) fun y => bindE (serZip O fs xs) fun ys => .ok (y :: ys)
termination_by structural fs _ => fs

/-- `serialize_multifield_wrapper`: the first option whose `_validate` and serialization succeed -/
def serFirst (O : Oracles) : List FieldDecl → PyVal → R PyVal
  | [], _ => .error .valueErr
  | f :: fs, v =>
    if shallowOk O f v then
      (match ser O f v with
        | .ok j => .ok j
        | .error (.other n) => if n.startsWith "outside-model" then .error (.other n) else serFirst O fs v
        | .error _ => serFirst O fs v)
    else serFirst O fs v
termination_by structural fs _ => fs

/-- serializer of attribute `k`: its field's, or untyped for an undeclared attribute -/
def serField (O : Oracles) : List (String × FieldDecl) → String → PyVal → R PyVal
  | [], _, v => serAny v
  | (n, f) :: rest, k, v => if k == n then ser O f v else serField O rest k v
termination_by structural fields _ _ => fields
end

end Typedpy
