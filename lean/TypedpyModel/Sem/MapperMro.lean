/-
  Sem/MapperMro.lean — C07: the class-level attributes of a class of an arbitrary (multiple-)inheritance
  graph, as `Structure.get_aggregated_serialization_mapper` / `get_aggregated_deserialization_mapper` /
  `getattr(cls, "_additional_properties")` see them.

  `_get_all_values_of_attribute(cls, attr)`: for every class of `reversed(cls.mro())` the value
  `getattr(the_class, attr, None)` — i.e. the attribute of the first class of *that class's own* MRO
  that defines it — lists flattened.  The MRO is Python's C3 linearisation (`Typedpy.c3`, the model of
  `type.__new__` shared with the class-definition properties).
-/
import TypedpyModel.Sem.Define
import TypedpyModel.Sem.Mappers
namespace Typedpy.Mappers

/-- one class statement: name, bases (Structure classes only, in order), its own
    `_serialization_mapper` / `_deserialization_mapper` and whether its body sets
    `_additional_properties = False` -/
structure ClsNode where
  name : String
  bases : List String
  ser : Option ClassAttr := none
  des : Option ClassAttr := none
  closed : Bool := false
deriving Repr, Inhabited

abbrev MroTable := List (String × List String)

def mroIn (t : MroTable) (n : String) : List String := (lookupR n t).getD [n]

/-- the linearisation of every class of the graph, in definition order (a class whose bases have no
    consistent order cannot be defined; it gets its own name only) -/
def mroTable (g : List ClsNode) : MroTable :=
  g.foldl (fun t nd =>
    t ++ [(nd.name, nd.name :: (Typedpy.c3 (nd.bases.map (mroIn t) ++ [nd.bases])).getD [])]) []

def nodeOf (g : List ClsNode) (n : String) : Option ClsNode := g.find? (fun nd => nd.name == n)

/-- `getattr(cls, attr, None)`: the first class of the MRO of `cname` that defines the attribute -/
def getAttr (g : List ClsNode) (t : MroTable) (sel : ClsNode → Option ClassAttr) (cname : String) :
    Option ClassAttr :=
  (mroIn t cname).findSome? fun d => (nodeOf g d).bind sel

def attrList (a : Option ClassAttr) : List Mapper :=
  match a with
  | some x => x.toList
  | none => []

/-- `get_aggregated_serialization_mapper()` -/
def collectSer (g : List ClsNode) (t : MroTable) (top : String) : List Mapper :=
  ((mroIn t top).reverse.map fun c => attrList (getAttr g t (·.ser) c)).flatten

/-- `get_aggregated_deserialization_mapper()`: per class of the reversed MRO the deserialization
    attribute if there is one, else the serialization attribute -/
def collectDes (g : List ClsNode) (t : MroTable) (top : String) : List Mapper :=
  ((mroIn t top).reverse.map fun c =>
    match getAttr g t (·.des) c with
    | some a => a.toList
    | none => attrList (getAttr g t (·.ser) c)).flatten

def cinfoOf (g : List ClsNode) (top : String) : CInfo :=
  let t := mroTable g
  let mro := mroIn t top
  let nodes := mro.filterMap (nodeOf g)
  { ser := collectSer g t top
    des := if nodes.any (fun nd => nd.des.isSome) then some (collectDes g t top) else none
    closedOwn := match nodeOf g top with | some nd => nd.closed | none => false
    closedAny := nodes.any (·.closed) }

/-- a single-inheritance chain, base first -/
def chainGraph : Nat → List (Option ClassAttr) → List ClsNode
  | _, [] => []
  | i, a :: rest =>
    { name := s!"c{i}", bases := if i = 0 then [] else [s!"c{i - 1}"], ser := a } :: chainGraph (i + 1) rest

end Typedpy.Mappers
