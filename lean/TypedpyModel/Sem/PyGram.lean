/-
  Sem/PyGram.lean — a recogniser for the Python subset that typedpy's schema→code generator emits
  (`class N(Structure):` blocks with a docstring, annotated fields `name: Expr`, assignments
  `name = Expr`, `pass`, `from m import *`, comment lines; expressions from names, calls with
  positional / keyword arguments, list / dict / set displays, subscripts, string / number /
  `True False None` literals, unary and binary minus, `lambda: Expr`).

  Written from the language reference ("Lexical analysis": logical lines, indentation, comments,
  identifiers and keywords, string and numeric literals, operators and delimiters; "Expressions";
  "Simple statements"; "Class definitions") and corresponded with CPython's `compile` on generated
  and mutated sources by the `schemacode` suite on every run.

  The answer is three-valued (`Verdict`):
    * `accept`  — the source is in the subset: CPython compiles it;
    * `reject`  — the source is certainly not Python: CPython raises SyntaxError (or ValueError for NUL);
    * `unknown` — outside the subset (other operators, keywords, tabs, `\` continuations, string
                  prefixes, `'''`, `\N{..}`/`\u`-escapes that fail the literal model, non-ASCII
                  characters that are not identifier characters, …): no claim.

  Two phases, both *transition systems* over a non-recursive step function, so that every
  definition reduces in the kernel and the acceptance theorem for the emitted text is symbolic
  execution plus induction over the expression tree:
    * `lex`   : characters → tokens (`Tok`), with NEWLINE / INDENT / DEDENT and the bracket depth;
      a string literal is delimited by the tokenizer's scan (backslash skips a character) and its
      text is then judged by `PyLex.lexSrc` (escape sequences);
    * `parse` : tokens → verdict, a pushdown automaton (stack of open brackets).
  `Ora` carries `str.isidentifier` for non-ASCII characters (the Unicode database is an oracle).
-/
import TypedpyModel.Sem.PyLex
namespace Typedpy.PyGram
open Typedpy.PyLex

open Lean in
/-- `chars!"abc"` = `['a', 'b', 'c']` (an explicit list literal: reduces without evaluating `String.toList`) -/
macro:max "chars!" s:str : term => do
  let elems := s.getString.toList.map fun c => Syntax.mkCharLit c
  `([$(elems.toArray),*])

inductive Verdict where
  | accept | reject | unknown
deriving Repr, DecidableEq, Inhabited

def Verdict.name : Verdict → String
  | .accept => "accept" | .reject => "reject" | .unknown => "unknown"

inductive Tok where
  /-- identifier that is not a keyword -/
  | name (s : List Char)
  | kw (s : List Char)
  | num
  | str
  | op (c : Char)
  | newline | indent | dedent
deriving Repr, DecidableEq, Inhabited

/-- `str.isidentifier` on non-ASCII characters: start / continue -/
structure Ora where
  xs : Char → Bool
  xc : Char → Bool

def Ora.ascii : Ora := ⟨fun _ => false, fun _ => false⟩

/-! ### characters -/

def isDigit (c : Char) : Bool := 48 ≤ c.toNat && c.toNat ≤ 57
def isAsciiLetter (c : Char) : Bool :=
  (65 ≤ c.toNat && c.toNat ≤ 90) || (97 ≤ c.toNat && c.toNat ≤ 122)
def idStartA (c : Char) : Bool := isAsciiLetter c || c == '_'
def idContA (c : Char) : Bool := idStartA c || isDigit c
def idStart (X : Ora) (c : Char) : Bool := if c.toNat < 128 then idStartA c else X.xs c
def idCont (X : Ora) (c : Char) : Bool := if c.toNat < 128 then idContA c else X.xc c

def keywords : List (List Char) :=
  [chars!"False", chars!"None", chars!"True", chars!"and", chars!"as", chars!"assert", chars!"async", chars!"await", chars!"break", chars!"class", chars!"continue",
   chars!"def", chars!"del", chars!"elif", chars!"else", chars!"except", chars!"finally", chars!"for", chars!"from", chars!"global", chars!"if", chars!"import", chars!"in",
   chars!"is", chars!"lambda", chars!"nonlocal", chars!"not", chars!"or", chars!"pass", chars!"raise", chars!"return", chars!"try", chars!"while", chars!"with",
   chars!"yield"]

def identTok (w : List Char) : Tok := if keywords.contains w then .kw w else .name w

def lower (c : Char) : Char := if 65 ≤ c.toNat ∧ c.toNat ≤ 90 then Char.ofNat (c.toNat + 32) else c
/-- string prefixes (`r'..'`, `b".."`, `f'..'`, …), case-insensitive -/
def strPrefixes : List (List Char) := [chars!"r", chars!"u", chars!"b", chars!"f", chars!"br", chars!"rb", chars!"fr", chars!"rf"]
def isStrPrefix (w : List Char) : Bool := strPrefixes.contains (w.map lower)

/-! ### lexer -/

structure LCtx where
  /-- number of open brackets -/
  depth : Nat
  /-- indentation stack, innermost first, without the base level 0 -/
  indents : List Nat
deriving Repr

inductive NumPhase where
  | int0 | int | frac | exp0 | expS | expD
deriving Repr, DecidableEq

inductive LMode where
  /-- at the beginning of a line outside brackets, `n` spaces read -/
  | bol (n : Nat)
  /-- comment on an otherwise blank line -/
  | bolComment
  | mid
  | comment
  /-- inside an identifier; reversed characters -/
  | ident (acc : List Char)
  | num (p : NumPhase)
  /-- the remaining `left` quotes of an opening `"""` -/
  | strOpen (left : Nat) (acc : List Char)
  /-- inside a literal opened with `q`; `esc`: the previous character was an unescaped backslash;
      `acc`: the literal's text so far, reversed -/
  | str (q : Char) (long esc : Bool) (acc : List Char)
  /-- the remaining `left` quotes of the closing `"""` -/
  | strClose (left : Nat) (acc : List Char)
deriving Repr

inductive LStep where
  | go (ctx : LCtx) (mode : LMode) (out : List Tok)
  | stop (v : Verdict)

abbrev TokRes := Except Verdict (List Tok)

def prepend (ts : List Tok) : TokRes → TokRes
  | .ok r => .ok (ts ++ r)
  | .error v => .error v

inductive NumNext where
  | cont (p : NumPhase) | fin | bad
deriving Repr, DecidableEq

/-- one character of a decimal literal: digits `[. digits] [e [+-] digits]`; a leading `0` followed
    by anything alphanumeric, `_` separators, `j` suffixes and a number glued to a name are `bad`
    (outside the subset) -/
def numNext (p : NumPhase) (c : Char) : NumNext :=
  let alnum := idContA c
  match p with
  | .int0 => if alnum then .bad else if c = '.' then .cont .frac else .fin
  | .int =>
    if isDigit c then .cont .int else if c = '.' then .cont .frac
    else if c = 'e' ∨ c = 'E' then .cont .exp0 else if alnum then .bad else .fin
  | .frac =>
    if isDigit c then .cont .frac else if c = 'e' ∨ c = 'E' then .cont .exp0
    else if alnum ∨ c = '.' then .bad else .fin
  | .exp0 => if isDigit c then .cont .expD else if c = '+' ∨ c = '-' then .cont .expS else .bad
  | .expS => if isDigit c then .cont .expD else .bad
  | .expD => if isDigit c then .cont .expD else if alnum ∨ c = '.' then .bad else .fin

/-- may the literal end in this phase? -/
def numFinal : NumPhase → Bool
  | .int0 | .int | .frac | .expD => true
  | _ => false

/-- the text of a number token (after its first digit, which selects `int0` / `int`) -/
def numScan : NumPhase → List Char → Bool
  | p, [] => numFinal p
  | p, c :: r => match numNext p c with
    | .cont p' => numScan p' r
    | _ => false

def numStart (c : Char) : NumPhase := if c = '0' then .int0 else .int
/-- `text` is one decimal literal of the subset -/
def isNumText : List Char → Bool
  | [] => false
  | c :: r => isDigit c && numScan (numStart c) r

/-- does the literal contain `\N`, `\u` or `\U` (escapes the literal model does not decide)? -/
def hasNuU : List Char → Bool
  | [] => false
  | c :: r => (c == cBS && (r.take 1 == ['N'] || r.take 1 == ['u'] || r.take 1 == ['U'])) || hasNuU r

/-- a complete literal (reversed text `acc`): judged by the literal model -/
def finishStr (ctx : LCtx) (acc : List Char) : LStep :=
  let lit := acc.reverse
  match lexSrc lit with
  | some _ => .go ctx .mid [.str]
  | none => if hasNuU lit then .stop .unknown else .stop .reject

def opChars : List Char := [',', ':', '=', '-', '*']

/-- one character between tokens -/
def midStep (X : Ora) (ctx : LCtx) (c : Char) (r : List Char) : LStep :=
  if c = ' ' then .go ctx .mid []
  else if c = cLF then (if ctx.depth = 0 then .go ctx (.bol 0) [.newline] else .go ctx .mid [])
  else if c = '#' then .go ctx .comment []
  else if c = cSQ then
    (if r.take 2 == [cSQ, cSQ] then .stop .unknown else .go ctx (.str cSQ false false [cSQ]) [])
  else if c = cDQ then
    (if r.take 2 == [cDQ, cDQ] then .go ctx (.strOpen 2 [cDQ]) [] else .go ctx (.str cDQ false false [cDQ]) [])
  else if isDigit c then .go ctx (.num (numStart c)) []
  else if idStart X c then .go ctx (.ident [c]) []
  else if c = '(' ∨ c = '[' ∨ c = '{' then .go { ctx with depth := ctx.depth + 1 } .mid [.op c]
  else if c = ')' ∨ c = ']' ∨ c = '}' then
    (if ctx.depth = 0 then .stop .reject else .go { ctx with depth := ctx.depth - 1 } .mid [.op c])
  else if opChars.contains c then
    -- two-character operators (`==`, `:=`, `-=`, `->`, `**`, `*=`) are outside the subset
    (if r.take 1 == ['='] ∨ (c = '-' ∧ r.take 1 == ['>']) ∨ (c = '*' ∧ r.take 1 == ['*'])
     then .stop .unknown else .go ctx .mid [.op c])
  else .stop .unknown

/-- emit `ts`, then treat `c` as a character between tokens -/
def thenMid (X : Ora) (ts : List Tok) (ctx : LCtx) (c : Char) (r : List Char) : LStep :=
  match midStep X ctx c r with
  | .go ctx' m out => .go ctx' m (ts ++ out)
  | .stop v => .stop v

/-- dedent to column `n`: pop every deeper level (one DEDENT each); `none` if `n` is not a level -/
def popTo : List Nat → Nat → Option (List Nat × List Tok)
  | [], n => if n = 0 then some ([], []) else none
  | t :: rest, n =>
    if n = t then some (t :: rest, [])
    else if t < n then none
    else match popTo rest n with
      | some (s, ts) => some (s, .dedent :: ts)
      | none => none

/-- indentation of a non-blank line that starts at column `n` -/
def dent (indents : List Nat) (n : Nat) : Option (List Nat × List Tok) :=
  if indents.headD 0 < n then some (n :: indents, [.indent]) else popTo indents n

def lstep (X : Ora) (ctx : LCtx) (mode : LMode) (c : Char) (r : List Char) : LStep :=
  match mode with
  | .bol n =>
    if c = ' ' then .go ctx (.bol (n + 1)) []
    else if c = cLF then .go ctx (.bol 0) []
    else if c = '#' then .go ctx .bolComment []
    else
      match midStep X ctx c r with
      | .stop v => .stop v
      | .go ctx' m out =>
        match dent ctx.indents n with
        | none => .stop .reject
        | some (ind, ts) => .go { ctx' with indents := ind } m (ts ++ out)
  | .bolComment => if c = cLF then .go ctx (.bol 0) [] else .go ctx .bolComment []
  | .mid => midStep X ctx c r
  | .comment => if c = cLF then midStep X ctx c r else .go ctx .comment []
  | .ident acc =>
    if idCont X c then .go ctx (.ident (c :: acc)) []
    else if (c = cSQ ∨ c = cDQ) ∧ isStrPrefix acc.reverse then .stop .unknown
    else thenMid X [identTok acc.reverse] ctx c r
  | .num p =>
    (match numNext p c with
     | .cont p' => .go ctx (.num p') []
     | .fin => thenMid X [.num] ctx c r
     | .bad => .stop .unknown)
  | .strOpen left acc =>
    if left ≤ 1 then .go ctx (.str cDQ true false (c :: acc)) [] else .go ctx (.strOpen (left - 1) (c :: acc)) []
  | .str q long esc acc =>
    if esc then .go ctx (.str q long false (c :: acc)) []
    else if c = cBS then .go ctx (.str q long true (c :: acc)) []
    else if c = q then
      (if long then
        (if r.take 2 == [q, q] then .go ctx (.strClose 2 (c :: acc)) []
         else .go ctx (.str q long false (c :: acc)) [])
       else finishStr ctx (c :: acc))
    else if c = cLF ∧ long = false then .stop .reject
    else .go ctx (.str q long false (c :: acc)) []
  | .strClose left acc =>
    if left ≤ 1 then finishStr ctx (c :: acc) else .go ctx (.strClose (left - 1) (c :: acc)) []

/-- end of the logical line at the end of the source, then one DEDENT per open block -/
def eofMid (ctx : LCtx) (ts : List Tok) : TokRes :=
  if ctx.depth = 0 then .ok (ts ++ [.newline] ++ ctx.indents.map (fun _ => Tok.dedent)) else .error .reject

def lfinish (ctx : LCtx) : LMode → TokRes
  | .bol _ | .bolComment => .ok (ctx.indents.map (fun _ => Tok.dedent))
  | .mid | .comment => eofMid ctx []
  | .ident acc => eofMid ctx [identTok acc.reverse]
  | .num p => if numFinal p then eofMid ctx [.num] else .error .unknown
  | .strOpen _ _ | .str _ _ _ _ | .strClose _ _ => .error .reject

def lex (X : Ora) : LCtx → LMode → List Char → TokRes
  | ctx, mode, [] => lfinish ctx mode
  | ctx, mode, c :: r =>
    match lstep X ctx mode c r with
    | .go ctx' mode' out => prepend out (lex X ctx' mode' r)
    | .stop v => .error v
termination_by structural _ _ cs => cs

/-! ### parser: a pushdown automaton over the tokens -/

/-- what separator was seen last inside `{ }` -/
inductive DMode where
  | start | colon | commaD | commaS
deriving Repr, DecidableEq

inductive Frame where
  /-- call arguments (`hdr`: the parenthesis of a class header) -/
  | call (hdr : Bool) (seenKw : Bool) (names : List (List Char))
  | lst
  | sub
  | dict (m : DMode)
  /-- a parenthesised expression or tuple display -/
  | par
deriving Repr, DecidableEq

inductive Phase where
  /-- expression statement that may still turn out to be the target of `:` / `=` -/
  | expr
  /-- expression statement that cannot be a target (a literal, a `lambda`, an arithmetic expression) -/
  | noTarget
  /-- annotation of `name: …` -/
  | ann
  /-- value of `name = …` / `name: … = …` -/
  | rhs
deriving Repr, DecidableEq

inductive Expect where
  | stmtStart
  /-- a statement that began with the name `n` -/
  | stmtName (n : List Char)
  /-- an operand must start here; `closeOk`: the enclosing bracket may close instead (after the
      opening bracket or a comma); `argStart`: start of a call argument -/
  | operand (closeOk argStart : Bool)
  /-- an operand has just ended; `str`: it was a string literal (adjacent literals concatenate) -/
  | afterOp (str : Bool)
  /-- a call argument that began with the name `n` -/
  | argName (n : List Char)
  | lamColon
  | cls1 | cls2 | cls3 | cls4
  | from1 | from2 | from3
  /-- only NEWLINE may follow (`pass`, `from m import *`) -/
  | lineEnd
deriving Repr, DecidableEq

structure PState where
  stack : List Frame
  ex : Expect
  phase : Phase
  /-- a class header has just ended: the next token must be INDENT -/
  needIndent : Bool
deriving Repr, DecidableEq

inductive PStep where
  | go (s : PState)
  | stop (v : Verdict)

def pstate0 : PState := { stack := [], ex := .stmtStart, phase := .expr, needIndent := false }

/-- names that cannot be assigned / used as keyword-argument names -/
def forbiddenTarget (n : List Char) : Bool := n == chars!"__debug__"
/-- soft keywords that start a statement of their own when followed by a name -/
def softKw (n : List Char) : Bool :=
  n == chars!"match" || n == chars!"case" || n == chars!"type"

def constKw (w : List Char) : Bool := w == chars!"True" || w == chars!"False" || w == chars!"None"

def closes (c : Char) (f : Frame) : Bool :=
  match f with
  | .call _ _ _ => c == ')'
  | .lst | .sub => c == ']'
  | .dict _ => c == '}'
  | .par => c == ')'

/-- a closing bracket `c` (the operand before it, if any, is complete) -/
def closeStep (s : PState) (c : Char) (afterOperand : Bool) : PStep :=
  match s.stack with
  | [] => .stop .reject
  | f :: rest =>
    if closes c f = false then .stop .reject
    else match f with
      | .dict .commaD => if afterOperand then .stop .reject else .go { s with stack := rest, ex := .afterOp false }
      | .sub => if afterOperand then .go { s with stack := rest, ex := .afterOp false } else .stop .reject
      | .call true _ _ => .go { s with stack := rest, ex := .cls3 }
      | _ => .go { s with stack := rest, ex := .afterOp false }

def seenKw (s : PState) : Bool :=
  match s.stack with
  | .call _ true _ :: _ => true
  | _ => false

/-- tokens that start a positional argument (a name is decided one token later, `argName`) -/
def startsPositional (t : Tok) : Bool :=
  match t with
  | .num | .str => true
  | .kw w => constKw w || w == chars!"lambda"
  | .op c => c == '-' || c == '[' || c == '{' || c == '('
  | _ => false

/-- a `-` at the top level of an expression statement: the statement cannot be a target any more -/
def minusPhase (s : PState) : Phase :=
  match s.stack, s.phase with
  | [], .expr => .noTarget
  | _, p => p

/-- a token where an operand must start -/
def operandStep (s : PState) (closeOk argStart : Bool) (t : Tok) : PStep :=
  if argStart && seenKw s && startsPositional t then .stop .reject
  else match t with
  | .name n =>
    if argStart then .go { s with ex := .argName n }
    else .go { s with ex := .afterOp false }
  | .num => .go { s with ex := .afterOp false }
  | .str => .go { s with ex := .afterOp true }
  | .kw w =>
    if constKw w then .go { s with ex := .afterOp false }
    else if w == chars!"lambda" then .go { s with ex := .lamColon }
    else if w == chars!"not" || w == chars!"await" || w == chars!"yield" then .stop .unknown
    else .stop .reject
  | .op c =>
    if c = '-' then .go { s with ex := .operand false false, phase := minusPhase s }
    else if c = '[' then .go { s with stack := .lst :: s.stack, ex := .operand true false }
    else if c = '{' then .go { s with stack := .dict .start :: s.stack, ex := .operand true false }
    else if c = '(' then .go { s with stack := .par :: s.stack, ex := .operand true false }
    else if c = '*' then .stop .unknown
    else if c = ')' ∨ c = ']' ∨ c = '}' then
      (if closeOk then closeStep s c false else .stop .reject)
    else if c = ':' then (match s.stack with | .sub :: _ => .stop .unknown | _ => .stop .reject)
    else .stop .reject
  | .newline | .indent | .dedent => .stop .reject

/-- a token after a complete operand -/
def afterStep (s : PState) (isStr : Bool) (t : Tok) : PStep :=
  match t with
  | .str => if isStr then .go { s with ex := .afterOp true } else .stop .reject
  | .name _ | .num => .stop .reject
  | .kw w => if constKw w ∨ w == chars!"lambda" then .stop .reject else .stop .unknown
  | .newline =>
    (match s.stack with
     | [] => .go { s with ex := .stmtStart, phase := .expr }
     | _ => .stop .reject)
  | .indent | .dedent => .stop .reject
  | .op c =>
    if c = '(' then .go { s with stack := .call false false [] :: s.stack, ex := .operand true true }
    else if c = '[' then .go { s with stack := .sub :: s.stack, ex := .operand false false }
    else if c = '-' then .go { s with ex := .operand false false, phase := minusPhase s }
    else if c = ')' ∨ c = ']' ∨ c = '}' then closeStep s c true
    else if c = ',' then
      (match s.stack with
       | [] => .stop .unknown
       | .call h k ns :: rest => .go { s with stack := .call h k ns :: rest, ex := .operand true true }
       | .lst :: _ => .go { s with ex := .operand true false }
       | .par :: _ => .go { s with ex := .operand true false }
       | .sub :: _ => .stop .unknown
       | .dict m :: rest =>
         (match m with
          | .start | .commaS => .go { s with stack := .dict .commaS :: rest, ex := .operand true false }
          | .colon => .go { s with stack := .dict .commaD :: rest, ex := .operand true false }
          | .commaD => .stop .reject))
    else if c = ':' then
      (match s.stack with
       | [] =>
         (match s.phase with
          | .expr => .stop .unknown
          | _ => .stop .reject)
       | .dict m :: rest =>
         (match m with
          | .start | .commaD => .go { s with stack := .dict .colon :: rest, ex := .operand false false }
          | _ => .stop .reject)
       | .sub :: _ => .stop .unknown
       | _ => .stop .reject)
    else if c = '=' then
      (match s.stack with
       | [] =>
         (match s.phase with
          | .ann => .go { s with ex := .operand false false, phase := .rhs }
          | .noTarget => .stop .reject
          | _ => .stop .unknown)
       | _ => .stop .reject)
    else .stop .unknown

def isOp (t : Tok) (c : Char) : Bool := t == .op c

/-- `from` NAME `import` `*` NEWLINE (any other import form is outside the subset; a keyword in the
    place of the module name, a name or the end of the line in the place of `import`, a keyword or the end
    of the line after `import` are certainly not Python) -/
def from1Step (s : PState) (t : Tok) : PStep :=
  match t with
  | .name _ => .go { s with ex := .from2 }
  | .kw _ => .stop .reject
  | _ => .stop .unknown
def from2Step (s : PState) (t : Tok) : PStep :=
  match t with
  | .kw w => if w == chars!"import" then .go { s with ex := .from3 } else .stop .unknown
  | .name _ => .stop .reject
  | .newline => .stop .reject
  | _ => .stop .unknown
def from3Step (s : PState) (t : Tok) : PStep :=
  match t with
  | .op c => if c = '*' then .go { s with ex := .lineEnd } else .stop .unknown
  | .kw _ => .stop .reject
  | .newline => .stop .reject
  | _ => .stop .unknown
/-- after `pass` / `import *` only the end of the line may follow -/
def lineEndStep (s : PState) (t : Tok) : PStep :=
  match t with
  | .newline => .go { s with ex := .stmtStart, phase := .expr }
  | .op _ => .stop .unknown
  | _ => .stop .reject

/-- the phase of an expression statement that starts with `t`: literals, `lambda`, `{`, `-` can never
    become the target of `:` / `=` (a `[` may: list targets) -/
def startPhase (t : Tok) : Phase :=
  match t with
  | .num | .str | .kw _ => .noTarget
  | .op c => if c = '{' ∨ c = '-' then .noTarget else .expr
  | _ => .expr

def pstep (s : PState) (t : Tok) : PStep :=
  match s.ex with
  | .stmtStart =>
    if s.needIndent then
      (if t = .indent then .go { s with needIndent := false } else .stop .reject)
    else match t with
      | .indent => .stop .reject
      | .dedent => .go s
      | .newline => .stop .reject
      | .name n => .go { s with ex := .stmtName n }
      | .kw w =>
        if w == chars!"class" then .go { s with ex := .cls1 }
        else if w == chars!"pass" then .go { s with ex := .lineEnd }
        else if w == chars!"from" then .go { s with ex := .from1 }
        else if constKw w || w == chars!"lambda" then operandStep { s with phase := startPhase t } false false t
        -- `if` / `for` / `import` / `del` / `global` / … start statements of their own: outside the subset
        else .stop .unknown
      | _ => operandStep { s with phase := startPhase t } false false t
  | .stmtName n =>
    if isOp t ':' then
      (if forbiddenTarget n then .stop .reject else .go { s with ex := .operand false false, phase := .ann })
    else if isOp t '=' then
      (if forbiddenTarget n then .stop .reject else .go { s with ex := .operand false false, phase := .rhs })
    else if softKw n then .stop .unknown
    else afterStep { s with phase := .expr } false t
  | .operand c a => operandStep s c a t
  | .afterOp isStr => afterStep s isStr t
  | .argName n =>
    if isOp t '=' then
      (match s.stack with
       | .call h _ ns :: rest =>
         if forbiddenTarget n || ns.contains n then .stop .reject
         else .go { s with stack := .call h true (n :: ns) :: rest, ex := .operand false false }
       | _ => .stop .reject)
    else if seenKw s then .stop .reject
    else afterStep s false t
  | .lamColon => if isOp t ':' then .go { s with ex := .operand false false } else .stop .unknown
  | .cls1 =>
    (match t with
     | .name _ => .go { s with ex := .cls2 }
     | _ => .stop .reject)
  | .cls2 =>
    if isOp t '(' then .go { s with stack := .call true false [] :: s.stack, ex := .operand true true }
    else if isOp t ':' then .go { s with ex := .cls4 }
    else .stop .reject
  | .cls3 => if isOp t ':' then .go { s with ex := .cls4 } else .stop .reject
  | .cls4 =>
    if t = .newline then .go { s with ex := .stmtStart, phase := .expr, needIndent := true } else .stop .unknown
  | .from1 => from1Step s t
  | .from2 => from2Step s t
  | .from3 => from3Step s t
  | .lineEnd => lineEndStep s t

def pfinish (s : PState) : Verdict :=
  if s.ex = .stmtStart ∧ s.stack = [] then (if s.needIndent then .reject else .accept) else .reject

def parse : PState → List Tok → Verdict
  | s, [] => pfinish s
  | s, t :: ts =>
    match pstep s t with
    | .go s' => parse s' ts
    | .stop v => v
termination_by structural _ ts => ts

/-- deepest bracket nesting of a token list (`d` current, `m` maximum so far) -/
def maxNest : Nat → Nat → List Tok → Nat
  | _, m, [] => m
  | d, m, .op c :: ts =>
    if c = '(' ∨ c = '[' ∨ c = '{' then maxNest (d + 1) (max m (d + 1)) ts
    else if c = ')' ∨ c = ']' ∨ c = '}' then maxNest (d - 1) m ts
    else maxNest d m ts
  | d, m, _ :: ts => maxNest d m ts

/-- CPython's tokenizer: "too many nested parentheses" above this depth -/
def maxLevel : Nat := 200

def lctx0 : LCtx := { depth := 0, indents := [] }

/-- tokens of a module (after universal-newline translation) -/
def tokens (X : Ora) (src : List Char) : TokRes := lex X lctx0 (.bol 0) (nnl false src)

/-- the bracket nesting of the source stays within CPython's limit -/
def nestOk (X : Ora) (src : List Char) : Bool :=
  match tokens X src with
  | .ok toks => decide (maxNest 0 0 toks ≤ maxLevel)
  | .error _ => true

/-- no NUL and no carriage return (the tokenizer rejects the first and rewrites the second) -/
def textClean (src : List Char) : Bool := !src.contains cNUL && !src.contains cCR

/-- the recogniser: is `src` a module of the subset? -/
def recognise (X : Ora) (src : List Char) : Verdict :=
  if src.contains cNUL then .reject
  else match tokens X src with
    | .error v => v
    | .ok toks => if maxLevel < maxNest 0 0 toks then .reject else parse pstate0 toks

end Typedpy.PyGram
