-- This module serves as the root of the `TypedpyModel` library.
-- Import modules here that should be built as part of the library.
import TypedpyModel.Basic
