-- Root of the typedpy model library: importing every property file makes `lake build TypedpyModel`
-- re-check all theorems.
import TypedpyModel.Props.C01
import TypedpyModel.Props.C02
import TypedpyModel.Props.C03
import TypedpyModel.Props.C04
import TypedpyModel.Props.C04Subclass
import TypedpyModel.Props.C04Alias
import TypedpyModel.Props.C05
import TypedpyModel.Props.C06
import TypedpyModel.Props.C07
import TypedpyModel.Props.C08
import TypedpyModel.Props.C09
import TypedpyModel.Props.C10
import TypedpyModel.Props.C11
import TypedpyModel.Props.C12
import TypedpyModel.Props.C13
import TypedpyModel.Props.C14
import TypedpyModel.Props.C15
import TypedpyModel.Props.C16
import TypedpyModel.Props.C17
import TypedpyModel.Props.C17Deser
import TypedpyModel.Props.C18
import TypedpyModel.Props.C19
import TypedpyModel.Props.C20
import TypedpyModel.Drive.Construct
