-- Root of the typedpy model library: importing every property file makes `lake build TypedpyModel`
-- re-check all theorems.
import TypedpyModel.Props.C01
import TypedpyModel.Props.C02
import TypedpyModel.Drive.Construct
