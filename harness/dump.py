"""
Abstraction functions between real typedpy objects and the Lean model's wire format
(TypedpyModel/Drive/Wire.lean), and the inverse "build" direction used to create real classes
and values from generated model-level declarations.

Trusted base: behaviour of the real code must be a function of these dumps; every correspondence
case checks dump(build(decl)) == decl.
"""
import enum
import collections
import datetime
from decimal import Decimal
from fractions import Fraction

import typedpy
from typedpy import (
    Structure, ImmutableStructure, Field, Number, Integer, Float, String, Boolean, Enum, Array, Deque,
    Set, ImmutableSet, Tuple, Map, AnyOf, OneOf, AllOf, NotField, Anything, StructureReference,
    PositiveInt, NegativeInt, NonPositiveInt, NonNegativeInt, PositiveFloat, NegativeFloat,
    NonPositiveFloat, NonNegativeFloat, Positive, Negative, NonPositive, NonNegative,
    ImmutableArray, ImmutableDeque, ImmutableMap, ImmutableInteger, ImmutableString, ImmutableFloat, ImmutableNumber,
)
from typedpy.structures import ClassReference, NoneField
from typedpy.structures.structures import _internal_props

INTERNAL = set(_internal_props) | {"_skip_validation"}


class Ctx:
    """Per-case registry of the enum / Structure classes that values refer to by name."""

    def __init__(self):
        self.enums = {}
        self.classes = {}
        self.opaque = {}
        self._opaque_ids = {}

    def opaque_tag(self, obj):
        key = id(obj)
        if key not in self._opaque_ids:
            tag = f"{type(obj).__name__}#{len(self._opaque_ids)}"
            self._opaque_ids[key] = tag
            self.opaque[tag] = obj
        return self._opaque_ids[key]


class Opaque:
    """an arbitrary non-typedpy Python object"""

    def __init__(self, tag):
        self.tag = tag

    def __repr__(self):
        return f"<Opaque {self.tag}>"


def q_of(x):
    """exact rational [num, den] of an int / float / Decimal / Fraction"""
    if isinstance(x, bool):
        x = int(x)
    fr = Fraction(x)
    return [fr.numerator, fr.denominator]


def dump_value(v, ctx=None):
    ctx = ctx or Ctx()
    if v is None:
        return None
    if isinstance(v, bool):
        return v
    if isinstance(v, enum.Enum):
        return {"e": [type(v).__name__, v.name]}
    if isinstance(v, int):
        return int(v)
    if isinstance(v, float):
        if v != v or v in (float("inf"), float("-inf")):
            return {"x": f"float:{v!r}"}
        return {"f": q_of(v)}
    if isinstance(v, Decimal):
        if not v.is_finite():
            return {"x": f"Decimal:{v!r}"}
        return {"d": q_of(v)}
    if isinstance(v, str):
        return v
    if isinstance(v, collections.deque):
        return {"q": [dump_value(x, ctx) for x in collections.deque.__iter__(v)]}
    if isinstance(v, list):
        return {"l": [dump_value(x, ctx) for x in list.__iter__(v)]}
    if isinstance(v, tuple):
        return {"t": [dump_value(x, ctx) for x in v]}
    if isinstance(v, frozenset):
        return {"fs": [dump_value(x, ctx) for x in v]}
    if isinstance(v, set):
        return {"s": [dump_value(x, ctx) for x in v]}
    if isinstance(v, dict):
        return {"m": [[dump_value(k, ctx), dump_value(x, ctx)] for k, x in dict.items(v)]}
    if isinstance(v, Structure):
        attrs = [[k, dump_value(x, ctx)] for k, x in v.__dict__.items() if k not in INTERNAL]
        return {"o": [class_name(type(v)), attrs]}
    if isinstance(v, Opaque):
        return {"x": v.tag}
    return {"x": ctx.opaque_tag(v)}


def class_name(cls):
    return cls.__name__


def load_value(j, ctx):
    """wire JSON -> Python object (classes / enums resolved through ctx)"""
    if j is None or isinstance(j, (bool, int, str)):
        return j
    if "f" in j:
        return float(Fraction(j["f"][0], j["f"][1]))
    if "d" in j:
        fr = Fraction(j["d"][0], j["d"][1])
        return Decimal(fr.numerator) / Decimal(fr.denominator)
    if "l" in j:
        return [load_value(x, ctx) for x in j["l"]]
    if "t" in j:
        return tuple(load_value(x, ctx) for x in j["t"])
    if "s" in j:
        return {load_value(x, ctx) for x in j["s"]}
    if "fs" in j:
        return frozenset(load_value(x, ctx) for x in j["fs"])
    if "q" in j:
        return collections.deque(load_value(x, ctx) for x in j["q"])
    if "m" in j:
        return {load_value(k, ctx): load_value(x, ctx) for k, x in j["m"]}
    if "e" in j:
        return ctx.enums[j["e"][0]][j["e"][1]]
    if "o" in j:
        cls = ctx.classes[j["o"][0]]
        return cls(**{k: load_value(x, ctx) for k, x in j["o"][1]})
    if "x" in j:
        if j["x"] not in ctx.opaque:
            ctx.opaque[j["x"]] = Opaque(j["x"])
        return ctx.opaque[j["x"]]
    raise ValueError(f"load_value: {j!r}")


# ---------------------------------------------------------------- canonical form of wire values

def canon(j):
    """order-insensitive canonical form of a wire value (sets, dicts and instance attrs sorted)"""
    import json
    if j is None or isinstance(j, (bool, int, str)):
        return j
    if "f" in j or "d" in j or "e" in j or "x" in j:
        return j
    for k in ("l", "t", "q"):
        if k in j:
            return {k: [canon(x) for x in j[k]]}
    for k in ("s", "fs"):
        if k in j:
            return {k: sorted((canon(x) for x in j[k]), key=lambda x: json.dumps(x, sort_keys=True))}
    if "m" in j:
        return {"m": sorted(([canon(k), canon(v)] for k, v in j["m"]),
                            key=lambda kv: json.dumps(kv[0], sort_keys=True))}
    if "o" in j:
        return {"o": [j["o"][0], sorted(([k, canon(v)] for k, v in j["o"][1]), key=lambda kv: kv[0])]}
    raise ValueError(f"canon: {j!r}")


# ---------------------------------------------------------------- declarations

SIGN_CLASSES = {
    ("number", "any"): Number, ("number", "pos"): Positive, ("number", "neg"): Negative,
    ("number", "nonpos"): NonPositive, ("number", "nonneg"): NonNegative,
    ("integer", "any"): Integer, ("integer", "pos"): PositiveInt, ("integer", "neg"): NegativeInt,
    ("integer", "nonpos"): NonPositiveInt, ("integer", "nonneg"): NonNegativeInt,
    ("float", "any"): Float, ("float", "pos"): PositiveFloat, ("float", "neg"): NegativeFloat,
    ("float", "nonpos"): NonPositiveFloat, ("float", "nonneg"): NonNegativeFloat,
}
CLASS_TO_SIGN = {v: k for k, v in SIGN_CLASSES.items()}


def _num_of_q(q):
    fr = Fraction(q[0], q[1])
    return fr.numerator if fr.denominator == 1 else float(fr)


IMMUTABLE_VARIANT = {}


def build_field(d, ctx, **extra):
    """model declaration (JSON) -> real typedpy Field instance"""
    k = d["k"]
    imm = extra.pop("_imm", False)
    if imm:
        f = _build_immutable(d, ctx, **extra)
        if f is not None:
            return f
    if k in ("number", "integer", "float"):
        cls = SIGN_CLASSES[(k, d.get("sign", "any"))]
        if d.get("dec"):
            # DecimalNumber: a `number` declaration whose arguments go through Decimal(...) first (Sem/Decimal.lean)
            if k != "number" or d.get("sign", "any") != "any":
                raise ValueError("build_field: DecimalNumber is a plain `number` declaration")
            from typedpy import DecimalNumber
            cls = DecimalNumber
        kw = {}
        if d.get("mult") is not None:
            kw["multiplesOf"] = d["mult"]
        if d.get("min") is not None:
            kw["minimum"] = _bound(d["min"], d.get("minFloat"))
        if d.get("max") is not None:
            kw["maximum"] = _bound(d["max"], d.get("maxFloat"))
        if d.get("excl"):
            kw["exclusiveMaximum"] = True
        return cls(**kw, **extra)
    if k == "string" and (d.get("fmt") is not None or d.get("maxlen") is not None):
        return _build_xstring(d, extra)
    if k == "string":
        kw = {n: d[n] for n in ("minLength", "maxLength", "pattern") if d.get(n) is not None}
        return String(**kw, **extra)
    if k == "boolean":
        return Boolean(**extra)
    if k == "enumLit":
        return Enum(values=[load_value(x, ctx) for x in d["values"]], **extra)
    if k == "enumCls":
        ecls = ctx.enums[d["cls"]]
        if list(d["names"]) == [m.name for m in ecls]:
            return Enum(values=ecls, **extra)
        return Enum(values=[ecls[n] for n in d["names"]], **extra)
    if k in ("seqAny", "seqOf", "seqPos"):
        cls = Deque if d.get("seq") == "deque" else Array
        kw = _size_kw(d)
        if k == "seqOf":
            kw["items"] = build_field(d["item"], ctx)
        elif k == "seqPos":
            kw["items"] = [build_field(x, ctx) for x in d["items"]]
            if d.get("addl") is False:
                kw["additionalItems"] = False
        return cls(**kw, **extra)
    if k in ("setAny", "setOf"):
        cls = ImmutableSet if d.get("imm") else Set
        kw = _size_kw(d)
        kw.pop("uniqueItems", None)
        if k == "setOf":
            kw["items"] = build_field(d["item"], ctx)
        return cls(**kw, **extra)
    if k == "tupleOf":
        kw = {"uniqueItems": True} if d.get("uniq") else {}
        return Tuple(items=[build_field(d["item"], ctx)], **kw, **extra)
    if k == "tuplePos":
        kw = {"uniqueItems": True} if d.get("uniq") else {}
        return Tuple(items=[build_field(x, ctx) for x in d["items"]], **kw, **extra)
    if k in ("mapAny", "mapOf"):
        kw = _size_kw(d)
        kw.pop("uniqueItems", None)
        if k == "mapOf":
            kw["items"] = [build_field(d["key"], ctx), build_field(d["val"], ctx)]
        return Map(**kw, **extra)
    if k == "struct":
        if d.get("inline"):
            body = {n: build_field(fd, ctx, **_default_kw(d, n, ctx)) for n, fd in d["fields"]}
            body["_required"] = list(d["required"])
            if d.get("addl") is False:
                body["_additionalProperties"] = False
            if d.get("ignoreNone"):
                body["_ignore_none"] = True
            sr = StructureReference(**body)
            ctx.classes[sr._newclass.__name__] = sr._newclass
            ctx.inline_names = getattr(ctx, "inline_names", {})
            ctx.inline_names[sr._newclass.__name__] = d["name"]
            return sr
        cls = ctx.classes.get(d["name"]) or build_class(d, ctx)
        return ClassReference(cls)
    if k in ("anyOf", "oneOf", "allOf", "notF"):
        cls = {"anyOf": AnyOf, "oneOf": OneOf, "allOf": AllOf, "notF": NotField}[k]
        f = cls([build_field(x, ctx) for x in d["fields"]])
        if extra.get("default") is not None:
            f._default = extra["default"]
        return f
    if k == "noneF":
        return NoneField()
    if k == "anything":
        return Anything(**extra)
    raise ValueError(f"build_field: {k}")


def _build_xstring(d, extra):
    """extension string fields: SizedString ("maxlen") and the formatted strings ("fmt")"""
    from typedpy import SizedString, IPV4, HostName, JSONString, DateString, TimeString
    kw = {n: d[n] for n in ("minLength", "maxLength", "pattern") if d.get(n) is not None}
    fmt = d.get("fmt")
    if fmt is None:
        return SizedString(maxlen=d["maxlen"], **kw, **extra)
    if d.get("maxlen") is not None or d.get("pattern") is not None:
        raise ValueError("build_field: a formatted string with maxlen / pattern is outside the model")
    if fmt == "ipv4":
        return IPV4(**kw, **extra)
    if fmt == "hostname":
        return HostName(**kw, **extra)
    if fmt == "json":
        return JSONString(**kw, **extra)
    if fmt == "time":
        if kw:
            raise ValueError("build_field: TimeString takes no String keywords")
        return TimeString(**extra)
    if fmt.startswith("date:"):
        return DateString(date_format=fmt[5:], **kw, **extra)
    raise ValueError(f"build_field: string format {fmt}")


def _xstring_fmt(f):
    """the format token of an extension string field (None for String itself), or raise for unknown subclasses"""
    from typedpy import SizedString, IPV4, HostName, JSONString, DateString, TimeString
    t = type(f)
    if t is SizedString:
        return None
    if t is IPV4:
        return "ipv4"
    if t is HostName:
        return "hostname"
    if t is JSONString:
        return "json"
    if t is TimeString:
        return "time"
    if t is DateString:
        return "date:" + f._format
    raise ValueError(f"dump_field: unsupported field type {t.__name__}")


def _is_xstring(f):
    from typedpy import SizedString, IPV4, HostName, JSONString, DateString, TimeString
    return type(f) in (SizedString, IPV4, HostName, JSONString, DateString, TimeString)


def _build_immutable(d, ctx, **extra):
    """Immutable* field variants (field-level immutability inside a mutable structure)"""
    k = d["k"]
    if k in ("seqAny", "seqOf", "seqPos"):
        cls = ImmutableDeque if d.get("seq") == "deque" else ImmutableArray
        kw = _size_kw(d)
        if k == "seqOf":
            kw["items"] = build_field(d["item"], ctx)
        elif k == "seqPos":
            kw["items"] = [build_field(x, ctx) for x in d["items"]]
            if d.get("addl") is False:
                kw["additionalItems"] = False
        return cls(**kw, **extra)
    if k in ("mapAny", "mapOf"):
        kw = _size_kw(d)
        kw.pop("uniqueItems", None)
        if k == "mapOf":
            kw["items"] = [build_field(d["key"], ctx), build_field(d["val"], ctx)]
        return ImmutableMap(**kw, **extra)
    if k in ("integer", "float", "number") and d.get("sign", "any") == "any":
        cls = {"integer": ImmutableInteger, "float": ImmutableFloat, "number": ImmutableNumber}[k]
        kw = {}
        if d.get("mult") is not None:
            kw["multiplesOf"] = d["mult"]
        if d.get("min") is not None:
            kw["minimum"] = _bound(d["min"], d.get("minFloat"))
        if d.get("max") is not None:
            kw["maximum"] = _bound(d["max"], d.get("maxFloat"))
        if d.get("excl"):
            kw["exclusiveMaximum"] = True
        return cls(**kw, **extra)
    if k == "string":
        kw = {n: d[n] for n in ("minLength", "maxLength", "pattern") if d.get(n) is not None}
        return ImmutableString(**kw, **extra)
    return None


def _bound(q, as_float):
    fr = Fraction(q[0], q[1])
    if as_float or fr.denominator != 1:
        return float(fr)
    return fr.numerator


def _size_kw(d):
    kw = {}
    if d.get("minItems") is not None:
        kw["minItems"] = d["minItems"]
    if d.get("maxItems") is not None:
        kw["maxItems"] = d["maxItems"]
    if d.get("uniq"):
        kw["uniqueItems"] = True
    return kw


def _default_kw(d, name, ctx):
    for n, v in d.get("defaults", []):
        if n == name:
            return {"default": load_value(v, ctx)}
    return {}


def build_class(d, ctx, base=None):
    """model class declaration (JSON, kind 'struct') -> real Structure class"""
    assert d["k"] == "struct" and not d.get("inline")
    body = {}
    for n, fd in d["fields"]:
        body[n] = build_field(fd, ctx, _imm=n in d.get("immFields", []), **_default_kw(d, n, ctx))
    body["_required"] = list(d["required"])
    body["_additional_properties"] = bool(d.get("addl", True))
    if d.get("ignoreNone"):
        body["_ignore_none"] = True
    if d.get("undef"):      # C11: classes that distinguish "never set" from "explicitly None"
        body["_enable_undefined_value"] = True
    bases = (ImmutableStructure,) if d.get("immutable") else (Structure,)
    cls = type(d["name"], bases, body)
    ctx.classes[d["name"]] = cls
    return cls


def dump_field(f, ctx=None):
    """real Field instance -> model declaration (JSON)"""
    ctx = ctx or Ctx()
    t = type(f)
    t = {ImmutableArray: Array, ImmutableDeque: Deque, ImmutableMap: Map, ImmutableInteger: Integer,
         ImmutableString: String, ImmutableFloat: Float, ImmutableNumber: Number}.get(t, t)
    if t.__name__ == "DecimalNumber" and t.__module__.startswith("typedpy."):
        kind, sign = "number", "any"
        d = {"k": kind, "dec": True}
        t = Number
    if t in CLASS_TO_SIGN:
        kind, sign = CLASS_TO_SIGN[t]
        d = {"k": kind, "dec": True} if type(f).__name__ == "DecimalNumber" else {"k": kind}
        if sign != "any":
            d["sign"] = sign
        if f.multiplesOf is not None:
            d["mult"] = f.multiplesOf
        if f.minimum is not None:
            d["min"] = q_of(f.minimum)
            if isinstance(f.minimum, float):
                d["minFloat"] = True
        if f.maximum is not None:
            d["max"] = q_of(f.maximum)
            if isinstance(f.maximum, float):
                d["maxFloat"] = True
        if f.exclusiveMaximum:
            d["excl"] = True
        return d
    if _is_xstring(f):
        d = {"k": "string"}
        for n in ("minLength", "maxLength", "pattern", "maxlen"):
            if getattr(f, n, None) is not None:
                d[n] = getattr(f, n)
        fmt = _xstring_fmt(f)
        if fmt is not None:
            d["fmt"] = fmt
            if d.get("pattern") is not None:
                raise ValueError("dump_field: a formatted string with a pattern is outside the model")
        return d
    if t is String:
        d = {"k": "string"}
        for n in ("minLength", "maxLength", "pattern"):
            if getattr(f, n) is not None:
                d[n] = getattr(f, n)
        return d
    if t is Boolean:
        return {"k": "boolean"}
    if t is Enum:
        if f._is_enum:
            return {"k": "enumCls", "cls": f._enum_class.__name__,
                    "names": [m.name for m in f._valid_enum_values]}
        return {"k": "enumLit", "values": [dump_value(x, ctx) for x in f.values]}
    if t in (Array, Deque):
        d = {}
        if t is Deque:
            d["seq"] = "deque"
        _dump_size(f, d)
        if f.uniqueItems:
            d["uniq"] = True
        if f.items is None:
            d["k"] = "seqAny"
        elif isinstance(f.items, list):
            d["k"] = "seqPos"
            d["items"] = [dump_field(x, ctx) for x in f.items]
            d["addl"] = f.additionalItems is not False
        else:
            d["k"] = "seqOf"
            d["item"] = dump_field(f.items, ctx)
        return d
    if t in (Set, ImmutableSet):
        d = {}
        if t is ImmutableSet:
            d["imm"] = True
        _dump_size(f, d)
        if f.items is None:
            d["k"] = "setAny"
        else:
            d["k"] = "setOf"
            d["item"] = dump_field(f.items, ctx)
        return d
    if t is Tuple:
        d = {}
        if f.uniqueItems:
            d["uniq"] = True
        if len(f.items) == 1:
            d["k"] = "tupleOf"
            d["item"] = dump_field(f.items[0], ctx)
        else:
            d["k"] = "tuplePos"
            d["items"] = [dump_field(x, ctx) for x in f.items]
        return d
    if t is Map:
        d = {}
        _dump_size(f, d)
        if f.items is None:
            d["k"] = "mapAny"
        else:
            d["k"] = "mapOf"
            d["key"] = dump_field(f.items[0], ctx)
            d["val"] = dump_field(f.items[1], ctx)
        return d
    if t is ClassReference:
        return dump_class(f._ty, ctx)
    if t is StructureReference:
        d = dump_class(f._newclass, ctx)
        d["inline"] = True
        d["name"] = getattr(ctx, "inline_names", {}).get(d["name"], d["name"])
        d["accepts"] = []
        return d
    if t in (AnyOf, OneOf, AllOf, NotField):
        kind = {AnyOf: "anyOf", OneOf: "oneOf", AllOf: "allOf", NotField: "notF"}[t]
        return {"k": kind, "fields": [dump_field(x, ctx) for x in f.get_fields()]}
    if t is NoneField:
        return {"k": "noneF"}
    if t is Anything:
        return {"k": "anything"}
    raise ValueError(f"dump_field: unsupported field type {t.__name__}")


def _dump_size(f, d):
    if getattr(f, "minItems", None) is not None:
        d["minItems"] = f.minItems
    if getattr(f, "maxItems", None) is not None:
        d["maxItems"] = f.maxItems


def dump_class(cls, ctx=None, order=None):
    """real Structure class -> model class declaration (JSON)"""
    ctx = ctx or Ctx()
    if order is None:
        order = getattr(ctx, "order", "signature")
    prev_order = getattr(ctx, "order", None)
    ctx.order = order      # nested classes are dumped in the same order
    try:
        return _dump_class(cls, ctx, order)
    finally:
        if prev_order is None:
            del ctx.order
        else:
            ctx.order = prev_order


def _dump_class(cls, ctx, order):
    fields = cls.get_all_fields_by_name()
    def_order = list(fields)
    if order == "signature":
        # fields in constructor-signature order (required parameters first, in the order the running
        # interpreter iterates the `set` they come from): the order Structure.__init__ validates in
        sig = [n for n in cls.__signature__.parameters if n in fields]
        fields = {n: fields[n] for n in sig + [n for n in fields if n not in sig]}
    # order == "definition": get_all_fields_by_name() order, the order deserialization works in
    d = {"k": "struct", "name": cls.__name__,
         "required": sorted(getattr(cls, "_required", [])),
         "addl": bool(getattr(cls, "_additional_properties",
                              typedpy.structures.TypedPyDefaults.additional_properties_default)),
         "fields": [[n, dump_field(f, ctx)] for n, f in fields.items()],
         "accepts": sorted({c.__name__ for c in ctx.classes.values()
                            if isinstance(c, type) and issubclass(c, cls)} | {cls.__name__})}
    if getattr(cls, "_ignore_none", False):
        d["ignoreNone"] = True
    if getattr(cls, "_enable_undefined_value", False):
        d["undef"] = True
    if getattr(cls, "_immutable", False):
        d["immutable"] = True
    imm_fields = sorted(n for n, f in fields.items() if isinstance(f, typedpy.structures.ImmutableField))
    if imm_fields:
        d["immFields"] = imm_fields
    defaults = [[n, dump_value(f._default() if callable(f._default) else f._default, ctx)]
                for n, f in fields.items() if getattr(f, "_default", None) is not None]
    if defaults:
        d["defaults"] = defaults
    return d


def normalize_decl(d):
    """strip keys that are default-valued so that generated and dumped declarations compare equal"""
    if isinstance(d, list):
        return [normalize_decl(x) for x in d]
    if not isinstance(d, dict):
        return d
    out = {}
    if d.get("k") == "struct":
        # ImmutableSet fields are ImmutableField instances: always field-level immutable
        imm = set(d.get("immFields") or []) | {n for n, fd in d.get("fields", [])
                                               if fd.get("k") in ("setAny", "setOf") and fd.get("imm")}
        d = dict(d)
        d["immFields"] = sorted(imm)
    for k, v in d.items():
        if v is None or v is False and k in ("excl", "uniq", "imm", "inline", "ignoreNone", "immutable",
                                                "minFloat", "maxFloat"):
            continue
        if k == "sign" and v == "any":
            continue
        if k == "seq" and v == "list":
            continue
        if k == "addl" and v is True and d.get("k") == "seqPos":
            continue
        if k == "defaults" and not v:
            continue
        if k in ("required", "immFields"):
            if v or k == "required":
                out[k] = sorted(v)
            continue
        if k == "accepts":
            continue
        if k in ("fields", "defaults") and d.get("k") == "struct":
            out[k] = sorted(([n, normalize_decl(x)] for n, x in v), key=lambda p: p[0])
            continue
        out[k] = normalize_decl(v)
    return out
