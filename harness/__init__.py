"""Correspondence harness for the typedpy Lean model (see /verif/DESIGN.md)."""
