"""
Independent implementations of the *documented* languages of typedpy's formatted-string fields, written from the
documentation / the standards the documentation names - never by calling typedpy:

* IPV4      "a valid IP version 4": dotted quad, four components of 1..3 ASCII decimal digits, each 0..255
* HostName  "a valid host name": RFC 1123 - labels of 1..63 ASCII letters / digits / '-', not beginning or ending with
            '-', separated by single dots, 2..253 characters in all (RFC 952: "single character names are not allowed";
            RFC 1123 only relaxed the rule for the first character)
* DateString(date_format)  "can be converted to a date" by `datetime.strptime` with the declared format
* TimeString               the same with '%H:%M:%S'
* JSONString               "a string of a valid JSON": `json.loads` succeeds

A declaration `{"k": "string", "fmt": <fmt>}` is sent to the Lean model as a `string` declaration whose pattern is
the synthetic token `token(fmt)`; the model's `Oracles.reMatch` answers the token from the per-case table filled
in by `ok(fmt, s)` (IPV4 and HostName are in addition decided by the Lean functions `ipv4Ok` / `hostNameOk` of
Core/Formats.lean, proved to accept exactly the languages above; the driver reports their verdicts and the
harness compares all three: Lean, this file, typedpy).
"""
import datetime
import json

TOKEN_PREFIX = "§fmt:"
ASCII_DIGITS = "0123456789"
ASCII_ALNUM = ASCII_DIGITS + "abcdefghijklmnopqrstuvwxyzABCDEFGHIJKLMNOPQRSTUVWXYZ"


def token(fmt):
    return TOKEN_PREFIX + fmt


def is_token(p):
    return isinstance(p, str) and p.startswith(TOKEN_PREFIX)


def fmt_of_token(p):
    return p[len(TOKEN_PREFIX):]


def ipv4_ok(s):
    parts = s.split(".")
    if len(parts) != 4:
        return False
    for p in parts:
        if not (1 <= len(p) <= 3) or any(c not in ASCII_DIGITS for c in p):
            return False
        n = 0
        for c in p:
            n = n * 10 + ASCII_DIGITS.index(c)
        if n > 255:
            return False
    return True


def hostname_ok(s):
    if not (2 <= len(s) <= 253):
        return False
    for label in s.split("."):
        if not (1 <= len(label) <= 63):
            return False
        if any(c not in ASCII_ALNUM and c != "-" for c in label):
            return False
        if label[0] == "-" or label[-1] == "-":
            return False
    return True


def strptime_ok(s, fmt):
    try:
        datetime.datetime.strptime(s, fmt)
        return True
    except ValueError:
        return False


def json_ok(s):
    try:
        json.loads(s)
        return True
    except ValueError:
        return False
    except RecursionError:
        return False


def ok(fmt, s):
    """documented verdict of format `fmt` on the string `s`"""
    if fmt == "ipv4":
        return ipv4_ok(s)
    if fmt == "hostname":
        return hostname_ok(s)
    if fmt == "time":
        return strptime_ok(s, "%H:%M:%S")
    if fmt.startswith("date:"):
        return strptime_ok(s, fmt[5:])
    if fmt == "json":
        return json_ok(s)
    raise ValueError(f"unknown format {fmt!r}")


# ---- how an input on which the library and the documented language differ is classified (finding keys)

def _ascii_digits(s):
    out = []
    changed = False
    for c in s:
        if c not in ASCII_DIGITS and c.isdigit():
            try:
                out.append(str(int(c)))
                changed = True
                continue
            except ValueError:
                pass
        out.append(c)
    return "".join(out), changed


def classify(fmt, s, lib_accepts):
    """stable name of the way the library's verdict on `s` deviates from the documented language of `fmt`"""
    if lib_accepts:
        flags = []
        t = s
        if t.endswith("\n"):
            t = t[:-1]
            flags.append("trailing-newline")
        t2, ch = _ascii_digits(t)
        if ch:
            t = t2
            flags.append("non-ascii-digit")
        if ok(fmt, t) and flags:
            return flags
        if fmt == "hostname":
            labels = t.split(".")
            if any(l == "" for l in labels):
                flags.append("empty-label")
            if any(l and (l[0] == "-" or l[-1] == "-") for l in labels):
                flags.append("hyphen-at-label-edge")
            if len(t) > 253:
                flags.append("longer-than-253")
            # everything else about the name is as documented
            rest_ok = len(t) >= 2 and all(len(l) <= 63 and all(c in ASCII_ALNUM or c == "-" for c in l) for l in labels)
            if flags and rest_ok:
                return flags
        return ["other"]
    return ["other"]


# ---- value pools for the generators (valid, near-valid)

POOLS = {
    "ipv4": {
        "valid": ["1.2.3.4", "0.0.0.0", "255.255.255.255", "10.0.0.1", "192.168.1.254", "9.99.199.249", "01.2.3.4", "001.002.003.004",
                  "127.0.0.1", "250.251.252.253"],
        "near": ["256.1.1.1", "1.2.3.256", "1.2.3", "1.2.3.4.5", "1..3.4", "", "1.2.3.4\n", "1.2.3.4 ", " 1.2.3.4", "1.2.3.٤",
                 "١.٢.٣.٤", "999.1.1.1", "1.2.3.4\n\n", "1.2.3.1000", "1.2.3.-4", "1.2.3.+4", "a.b.c.d", "1,2,3,4", "1.2.3.4.",
                 ".1.2.3.4", "0x1.2.3.4", "1.2.3.4\r", "260.0.0.0", "1.2.3.４", "300.300.300.300", "1. 2.3.4", "1.2.3.4\t", "²5.1.1.1"],
    },
    "hostname": {
        "valid": ["example.com", "a-b.c", "ab", "a.b", "localhost", "x1.y2.z3", "A9", "a" * 63 + ".b", "xn--bcher-kva.example",
                  "0.1", "a--b.cc"],
        "near": ["a", "a..b", "a-", "-a", "a.b\n", "a" * 64, "a" * 64 + ".b", "é.com", ".a", "a.", "a_b", "A9.-", "aaa bbb", "",
                 "a.-b.c", "a.b-.c", "ab\n", "a" * 63 + "." + "b" * 63 + "." + "c" * 63 + "." + "d" * 63, "a" * 257, "a" * 256, "ab.", "a-.b",
                 "a b", "ab\t", "ａｂ", "a.b..", "ab\r", "x", "7", "a\n"],
    },
    "time": {
        "valid": ["23:59:01", "00:00:00", "1:2:3", "12:30:45", "09:09:09"],
        "near": ["24:00:00", "23:60:00", "23:59:60", "23:59:61", "", "25:61:00", "12:30", "12:30:45\n", " 12:30:45", "12-30-45", "noon", "12:30:45.5",
                 "١٢:30:45", "12:30:45 "],
    },
    "date:%Y-%m-%d": {
        "valid": ["2020-01-31", "1999-12-01", "2020-1-1", "2024-02-29", "0001-01-01", "9999-12-31"],
        "near": ["2020-13-01", "2020-02-30", "2023-02-29", "", "2020-01-31\n", " 2020-01-31", "20-01-01", "2020/01/31", "not-a-date", "2020-01",
                 "2020-01-31T00:00:00", "31/12/2024", "2020-00-10", "2020-01-00", "2020-01-32", "٢٠٢٠-01-01", "2020-01-31 "],
    },
    "date:%d/%m/%y": {
        "valid": ["31/12/24", "01/01/00", "1/2/03", "29/02/24"],
        "near": ["31/12/2024", "2020-01-31", "32/01/20", "29/02/23", "", "00/01/20", "31/04/20", "1/13/20", "31/12/24\n"],
    },
    "json": {
        "valid": ['{"a": 1}', "[1, 2]", "1", '"x"', "null", " 1 ", "true", "[]", "{}", "-0.5e3", '{"a": [1, {"b": null}]}', "NaN"],
        "near": ["{broken json", "", "[1", "{'a': 1}", "[1,]", "tru", "01", '{"a" 1}', "\"x", "1 2", "nan", "[1]]", "{1: 2}", "None", "a b"],
    },
}

DATE_FORMATS = ["%Y-%m-%d", "%Y-%m-%d", "%d/%m/%y"]


def pool(fmt, which):
    return POOLS[fmt][which]
