"""
Check orchestration: proof obligations (lake build + axiom audit), correspondence (real code vs
Lean driver on the same cases), property oracle on the real code's results, known findings,
failing-input search, evidence and replay files.  See DESIGN.md §5.
"""
import hashlib
import itertools
import json
import os
import random
import sys
import time
import traceback

from . import leanrun

ROOT = os.path.dirname(os.path.dirname(os.path.abspath(__file__)))
EVIDENCE_DIR = os.path.join(ROOT, "evidence")
REPLAY_DIR = os.path.join(ROOT, "replays")
if os.environ.get("VERIF_REPO", "/repo") != "/repo":
    # development runs against a scratch copy of typedpy (seeded changes): never overwrite the evidence
    # and replays that describe /repo itself
    EVIDENCE_DIR = os.path.join(ROOT, "work", "alt-evidence")
    REPLAY_DIR = os.path.join(ROOT, "work", "alt-replays")
CORPUS_DIR = os.path.join(ROOT, "corpus")
FINDINGS_FILE = os.path.join(ROOT, "known_findings.json")

TRUSTED_BASE = [
    "Lean 4.33.0 kernel (thorough tier re-checks the .olean files with leanchecker)",
    "axioms allowed: propext, Classical.choice, Quot.sound; no native_decide / bv_decide / own axioms / sorry (grep + #print axioms on every property theorem, each run)",
    "hand-written model lean/TypedpyModel/Sem/* and specs Spec/* are modelled, not verified; tied to /repo by the correspondence harness (harness/) and the regenerated tables (extract/)",
    "abstraction functions harness/dump.py (dump_value/dump_field/dump_class, checked per case by dump(build(d)) == d), canonicalisation, generators",
    "oracles outside the model: Python re (answers supplied per case), CPython float/Decimal arithmetic as exact rationals (as_integer_ratio)",
]


def load_findings(prop_id):
    if not os.path.exists(FINDINGS_FILE):
        return {}, []
    data = json.load(open(FINDINGS_FILE))
    open_ = {f["key"]: f for f in data.get("findings", []) if f["property"] == prop_id and f.get("status") == "open"}
    fixed = [f for f in data.get("fixed", []) if f.get("property") == prop_id]
    return open_, fixed


def case_hash(case):
    c = {k: v for k, v in case.items() if k not in ("id",)}
    return hashlib.sha256(json.dumps(c, sort_keys=True, ensure_ascii=False).encode()).hexdigest()[:16]


def load_corpus(prop_id):
    p = os.path.join(CORPUS_DIR, prop_id + ".jsonl")
    if not os.path.exists(p):
        return []
    return [json.loads(l) for l in open(p, encoding="utf-8") if l.strip()]


class Outcome:
    def __init__(self):
        self.disagreements = []   # (case, impl, model, msg)
        self.failures = []        # (case, impl, model, key, what)
        self.evaluations = 0
        self.distinct = set()
        self.hist = {}
        self.samples = []
        self.impl_errors = 0

    def bump(self, name):
        self.hist[name] = self.hist.get(name, 0) + 1


def explore(prop, cases, outcome, max_samples=4):
    """run the real code and the Lean driver on `cases`; judge each"""
    impls = []
    for c in cases:
        try:
            impls.append(prop.run_impl(c))
        except Exception as e:  # harness bug or unexpected exception class from the real code
            impls.append({"harness_exc": f"{type(e).__name__}: {e}", "tb": traceback.format_exc()[-1500:]})
    lines = []
    slots = []
    for i, (c, im) in enumerate(zip(cases, impls)):
        l = prop.line(c, im)
        if l is None:       # oracle-only case: no model counterpart, judged on the real code's result alone
            slots.append(None)
            continue
        l["id"] = len(lines)
        slots.append(len(lines))
        lines.append(l)
    driven = leanrun.run_driver(lines) if lines else []
    models = [driven[s] if s is not None else {"out": None} for s in slots]
    for c, im, mo in zip(cases, impls, models):
        outcome.evaluations += 1
        if prop.nontrivial(c):
            outcome.distinct.add(case_hash(c))
        for tag in prop.tags(c, im, mo):
            outcome.bump(tag)
        if "harness_exc" in im:
            outcome.disagreements.append((c, im, mo, "harness exception: " + im["harness_exc"]))
            continue
        if "fail" in mo:
            outcome.disagreements.append((c, im, mo, "driver failure: " + str(mo["fail"])))
            continue
        msg, fails = prop.judge(c, im, mo["out"])
        if msg:
            outcome.disagreements.append((c, im, mo, msg))
        for key, what in fails:
            outcome.failures.append((c, im, mo, key, what))
        if len(outcome.samples) < max_samples and prop.nontrivial(c) and not msg:
            outcome.samples.append(prop.describe(c, im, mo.get("out")))
    return outcome


def write_replay(prop_id, payload):
    os.makedirs(REPLAY_DIR, exist_ok=True)
    h = hashlib.sha256(json.dumps(payload, sort_keys=True, default=str).encode()).hexdigest()[:12]
    path = os.path.join(REPLAY_DIR, f"{prop_id}-{h}.json")
    with open(path, "w", encoding="utf-8") as f:
        json.dump(payload, f, indent=1, ensure_ascii=False, default=str)
    return os.path.relpath(path, ROOT)


def run_check(prop, tier, seed, replay=None):
    t0 = time.time()
    prop_id = prop.ID
    known, fixed = load_findings(prop_id)
    rng = random.Random(seed * 1000003 + int(prop_id[1:]))

    # ---- 1. proof obligations
    if hasattr(prop, "pre_build"):
        prop.pre_build()
    ok_build, build_log, build_s = leanrun.lake_build(["driver"] + list(prop.LEAN_TARGETS))
    axioms, audit_out, audit_rc = ({}, "", 1)
    if ok_build:
        axioms, audit_out, audit_rc = leanrun.audit_axioms(prop.AUDIT)
    forbidden = leanrun.grep_forbidden(leanrun.lean_files())
    obligations = list(prop.THEOREMS)
    discharged = [t for t in obligations if t in axioms and set(axioms[t]) <= leanrun.ALLOWED_AXIOMS]
    bad_axioms = {t: a for t, a in axioms.items() if not set(a) <= leanrun.ALLOWED_AXIOMS}
    proof_problems = []
    if not ok_build:
        proof_problems.append("lake build failed:\n" + _tail(build_log, 3000))
    elif audit_rc != 0:
        proof_problems.append("axiom audit failed:\n" + _tail(audit_out, 3000))
    missing = [t for t in obligations if t not in discharged]
    if ok_build and missing:
        proof_problems.append("theorems not discharged: " + ", ".join(missing))
    if bad_axioms:
        proof_problems.append("non-standard axioms: " + json.dumps(bad_axioms))
    if forbidden:
        proof_problems.append("forbidden tokens: " + "; ".join(forbidden[:10]))
    recheck = None
    if tier == "thorough" and ok_build:
        mods = [t for t in prop.LEAN_TARGETS if ".Props." in t]
        ok_rc, rc_out, rc_s = leanrun.leanchecker(mods)
        recheck = {"cmd": "cd lean && lake env leanchecker " + " ".join(mods), "ok": ok_rc, "seconds": round(rc_s, 1)}
        if not ok_rc:
            proof_problems.append("leanchecker rejected the compiled proofs:\n" + rc_out)

    # ---- 2. correspondence + property oracle on the real code
    outcome = Outcome()
    driver_ok = os.path.exists(leanrun.DRIVER)
    if driver_ok:
        if replay:
            cases = [json.load(open(replay))["case"]]
        else:
            cases = load_corpus(prop_id) + list(prop.cases(rng, tier))
        explore(prop, cases, outcome)
    else:
        proof_problems.append("driver not built")

    # ---- 2b. change-directed deepening: where typedpy's source moved away from the pinned tree the models were
    # validated against (extract/srcpins.py), run more, differently seeded cases within a time budget.  A moved
    # function is not an obligation and never an alarm by itself; it only buys more search on a changed tree.
    changed_src, deepen = [], None
    try:
        from extract import srcpins
        changed_src = srcpins.changed(os.environ.get("VERIF_REPO", "/repo"))
    except Exception as e:  # the pin file is an aid, never a reason to fail
        changed_src = []
        deepen = {"error": f"{type(e).__name__}: {e}"}
    force = os.environ.get("VERIF_DEEPEN", "1") == "force"   # development: hunt for latent false alarms on a clean tree
    if (changed_src or force) and driver_ok and not replay and os.environ.get("VERIF_DEEPEN", "1") != "0":
        budget = float(os.environ.get("VERIF_DEEPEN_S", "40" if tier == "quick" else "300"))
        t_d, n0, rounds = time.time(), outcome.evaluations, 0

        def unlisted():
            return any(f[3] not in known for f in outcome.failures)
        while time.time() - t_d < budget and not unlisted():
            rounds += 1
            d_rng = random.Random((seed + 1) * 104729 + rounds * 7919 + int(prop_id[1:]))
            try:
                gen = itertools.chain(prop.search_cases(d_rng, tier), prop.cases(d_rng, tier))
                while time.time() - t_d < budget and not unlisted():
                    chunk = list(itertools.islice(gen, 250))
                    if not chunk:
                        break
                    explore(prop, chunk, outcome)
            except Exception as e:
                deepen = {"error": f"{type(e).__name__}: {e}"}
                break
        deepen = dict(deepen or {}, rounds=rounds, extra_evaluations=outcome.evaluations - n0,
                      seconds=round(time.time() - t_d, 1))

    # ---- 3. known findings / new failures
    known_hit = {}
    new_failures = []
    for c, im, mo, key, what in outcome.failures:
        if key in known:
            known_hit.setdefault(key, what)
        else:
            new_failures.append((c, im, mo, key, what))

    violation = None
    replay_path = None
    if new_failures:
        c, im, mo, key, what = new_failures[0]
        replay_path = write_replay(prop_id, {
            "property": prop_id, "kind": "failing-input", "key": key, "what": what,
            "case": c, "impl": im, "model": mo, "seed": seed, "tier": tier,
            "other_failures": [{"key": k, "what": w} for _, _, _, k, w in new_failures[1:20]],
        })
        violation = f"VIOLATION property={prop_id} replay={replay_path}"
    elif proof_problems or outcome.disagreements:
        # ---- 4. failing-input search on the real code
        found = None
        if driver_ok and not replay:
            s_out = Outcome()
            s_rng = random.Random(seed * 7919 + 17)
            s_cases = [d[0] for d in outcome.disagreements[:200]] + list(prop.search_cases(s_rng, tier))
            try:
                explore(prop, s_cases, s_out)
            except Exception as e:
                s_out = Outcome()
                proof_problems.append(f"search failed: {e}")
            for c, im, mo, key, what in s_out.failures:
                if key not in known:
                    found = (c, im, mo, key, what)
                    break
            outcome.evaluations += s_out.evaluations
        if found:
            c, im, mo, key, what = found
            replay_path = write_replay(prop_id, {
                "property": prop_id, "kind": "failing-input", "key": key, "what": what,
                "case": c, "impl": im, "model": mo, "seed": seed, "tier": tier,
                "broken": proof_problems + [d[3] for d in outcome.disagreements[:5]],
            })
            violation = f"VIOLATION property={prop_id} replay={replay_path}"
        else:
            first = outcome.disagreements[0] if outcome.disagreements else None
            replay_path = write_replay(prop_id, {
                "property": prop_id, "kind": "no-failing-input-found",
                "broken_obligations": proof_problems,
                "broken_correspondence": ({"suite": prop.SUITE, "disagreements": len(outcome.disagreements),
                                           "first": {"case": first[0], "impl": first[1], "model": first[2],
                                                     "msg": first[3]}} if first else None),
                "theorems": obligations, "seed": seed, "tier": tier,
            })
            violation = f"VIOLATION property={prop_id} replay={replay_path} no-failing-input-found"

    # ---- 5. evidence
    wall = time.time() - t0
    ev = {
        "property_id": prop_id, "tier": tier, "seed": seed, "level": "proof",
        "coverage": {
            "obligations": len(obligations), "discharged": len(discharged),
            "checker_cmd": f"cd lean && lake build driver {' '.join(prop.LEAN_TARGETS)} && lake env lean TypedpyModel/Audit/{prop.AUDIT}.lean",
            "trusted_base": TRUSTED_BASE + list(getattr(prop, "TRUSTED_EXTRA", [])),
            "theorems": {t: axioms.get(t) for t in obligations},
            "evaluations": outcome.evaluations,
            "distinct_nontrivial": len(outcome.distinct),
            "rule": prop.RULE,
            "samples": outcome.samples[:4] or [{"note": "no samples (driver unavailable)"}],
            "traces_validated_against_impl": outcome.evaluations - len(outcome.disagreements),
            "disagreements": len(outcome.disagreements),
            "distribution": dict(sorted(outcome.hist.items())),
            "known_findings_reproduced": sorted(known_hit),
            "fixed_findings": [f.get("summary", "") for f in fixed],
            "build_s": round(build_s, 1),
            "olean_recheck": recheck,
            "source_units_changed_since_pin": changed_src[:40],
            "change_directed_deepening": deepen,
        },
        "assumptions": list(getattr(prop, "ASSUMPTIONS", [])),
        "wall_s": round(wall, 2),
        "violations": 1 if violation else 0,
    }
    os.makedirs(EVIDENCE_DIR, exist_ok=True)
    with open(os.path.join(EVIDENCE_DIR, prop_id + ".json"), "w", encoding="utf-8") as f:
        json.dump(ev, f, indent=1, ensure_ascii=False, default=str)

    if os.environ.get("VERIF_DEBUG"):
        os.makedirs(os.path.join(ROOT, "work"), exist_ok=True)
        with open(os.path.join(ROOT, "work", f"debug-{prop_id}.json"), "w") as f:
            json.dump({"disagreements": [{"case": d[0], "impl": d[1], "model": d[2], "msg": d[3]}
                                         for d in outcome.disagreements[:300]],
                       "failures": [{"case": d[0], "impl": d[1], "model": d[2], "key": d[3], "what": d[4]}
                                    for d in outcome.failures[:300]]}, f, indent=1, default=str)
    for key, what in sorted(known_hit.items()):
        print(f"KNOWN-FINDING: property={prop_id} {key}: {what}")
    print(f"[{prop_id}] tier={tier} seed={seed} obligations={len(discharged)}/{len(obligations)} "
          f"cases={outcome.evaluations} distinct_nontrivial={len(outcome.distinct)} "
          f"disagreements={len(outcome.disagreements)} failures={len(outcome.failures)} "
          f"(known {len(known_hit)}) wall={wall:.1f}s")
    if violation:
        for p in proof_problems[:3]:
            print("  broken obligation:", p[:1500])
        for d in outcome.disagreements[:3]:
            print("  disagreement:", d[3][:600])
        print(violation)
        return 1
    return 0


def _tail(s, n):
    return s[-n:]


def main(argv=None):
    import argparse
    import importlib
    ap = argparse.ArgumentParser()
    ap.add_argument("prop")
    ap.add_argument("--tier", default=os.environ.get("VERIF_TIER", "quick"))
    ap.add_argument("--replay")
    a = ap.parse_args(argv)
    seed = int(os.environ.get("VERIF_SEED", "0") or 0)
    try:
        prop = importlib.import_module("harness.props." + a.prop.lower())
        return run_check(prop, a.tier, seed, replay=a.replay)
    except Exception:
        traceback.print_exc()
        print(f"INFRASTRUCTURE-ERROR property={a.prop}")
        return 2


if __name__ == "__main__":
    sys.exit(main())
