"""C13 — equivalent declaration syntaxes produce behaviourally identical classes."""
import os
import sys

from ..suites import elab as S

ID = "C13"
SUITE = "elab"
LEAN_TARGETS = ["TypedpyModel.Props.C13", "TypedpyModel.Props.C13Tie", "TypedpyModel.Audit.C13"]
AUDIT = "C13"
THEOREMS = [
    "Typedpy.C13.typeMap_pinned", "Typedpy.C13.formRows_pinned", "Typedpy.C13.typeMap_columns_consistent",
    "Typedpy.C13.sameMeaning_denote", "Typedpy.C13.elaborate_meaning", "Typedpy.C13.elaborate_equiv",
    "Typedpy.C13.elabField_meaning", "Typedpy.C13.elabField_equiv", "Typedpy.C13.elabClass_equiv",
    "Typedpy.C13.same_fields_and_required", "Typedpy.C13.same_behaviour",
    "Typedpy.C13.statement_partial",
    "Typedpy.C13.fixed_pep604_plain", "Typedpy.C13.fixed_pep604_nested",
    "Typedpy.C13.fixed_field_pipe_none", "Typedpy.C13.fixed_field_pipe_generic",
    "Typedpy.C13.elabField_future_irrelevant", "Typedpy.C13.fixed_future_long",
    "Typedpy.C13.counterexample_falsy_default_kw",
    "Typedpy.C13.counterexample_union_duplicate", "Typedpy.C13.statement_false",
    "Typedpy.C13.none_first_equiv", "Typedpy.C13.none_inner_optional", "Typedpy.C13.hasNoneOpt_position",
    "Typedpy.C13.tuple_single_equiv", "Typedpy.C13.none_default_equiv",
    "Typedpy.C13.factory_default_equiv", "Typedpy.C13.fixed_factory_builtin_class",
    "Typedpy.C13.scope_irrelevant", "Typedpy.C13.string_annotation_equiv", "Typedpy.C13.fixed_quoted_future",
    "Typedpy.C13.fixed_quoted_50", "Typedpy.C13.counterexample_enclosing_scope",
    "Typedpy.C13.same_observation",
    "Typedpy.C13.same_serialize",
    "Typedpy.C13.same_deserialize",
    "Typedpy.C13.same_schema",
    "Typedpy.C13.behaviour_example",
    "Typedpy.C13.struct_field_equiv",
    "Typedpy.C13.tuple_pair_equiv",
    "Typedpy.C13.fixed_tuple_items_struct",
    "Typedpy.C13.fixed_struct_first_nested",
    "Typedpy.C13.elaborate_flatten",
    "Typedpy.C13.flatten_equiv",
    "Typedpy.C13.elabField_flatten",
    "Typedpy.C13.flatten_example",
    "Typedpy.C13.union_duplicate_collapses",
    "Typedpy.C13.explicit_required_equiv",
    "Typedpy.C13.explicit_required_example",
    "Typedpy.C13.pipe_literal_equiv",
    "Typedpy.C13.elabField_meaningX",
    "Typedpy.C13.elabClass_equivX",
    "Typedpy.C13.same_observationX",
    "Typedpy.C13.fieldSame_sameX",
    "Typedpy.C13.classX_example",
    "Typedpy.C13.default_none_kw_equiv",
    "Typedpy.C13.dedup_examples",
    "Typedpy.C13.coll_of_union_tree",
    "Typedpy.C13.equiv_example",
]
RULE = ("class bodies of 1-3 fields; each field an abstract meaning tree (scalar / constrained field literal / bare or "
        "parametrised list-set-frozenset-deque / dict / Optional / two-way alternative, depth <= 3 quick, <= 4 thorough); "
        "every field rendered in the styles native (Array[Integer]), builtin/PEP-585 (list[int]), typing (List[int], "
        "Optional, Union), call (Array(items=Integer())), instance, PEP-604 (A | B) plus random per-node mixes, as "
        "annotation and (for field expressions) as assignment, defaults as `= v` and `default=v`, `_optional`; all fields "
        "combined in up to 16/40 class variants, each with and without `from __future__ import annotations`; every "
        "variant exec'd from SOURCE TEXT, dumped, and run on one shared stream of kwargs (valid, boundary, type "
        "confusion, corruption, None, missing) through the real constructor and Serializer; non-trivial = a meaning "
        "of depth >= 2, a constrained literal or more than one field; distinct by sha256 of the case. "
        "A None alternative is written in EVERY position (Optional[T], Union[T, None], Union[None, T], T | None, "
        "None | T, AnyOf[None, T], Union[A, None, B], A | None | B, Union[A, Optional[B]], Optional[A] | B ...): "
        "randomly at any depth, plus a directed stream (7 quick / 18 thorough cases) that enumerates all forms x "
        "positions x bracketings for a few operand types; such a field is optional in every spelling (by itself "
        "where typedpy documents it, through _optional otherwise). Directed streams also enumerate every single-argument "
        "container form x argument form (tuple/list/set/frozenset/deque/dict) and the product spelling x default "
        "(none, `= None`, falsy 0 / '' / False / 0.0, truthy; as `= v` and `default=v`) for optional and non-optional "
        "meanings; with `= None` on a None-admitting meaning the spellings without default are included as equivalents. "
        "Default FACTORIES (stateful counters producing int / float / str / list / tuple / set / dict) are drawn at random and "
        "enumerated by a directed stream over every spelling (`= f` on builtin / typing / PEP-585 / PEP-604 / Field class / "
        "Field instance annotations, `default=f`); probe: 3 instances built without the field, products relative to the first, "
        "mutation independence. An oracle-only stream covers Structure-class-valued fields (Owner, Optional, alternatives, "
        "lists; with factories returning Structure instances and a rename-the-first-owner probe). String annotations x "
        "definition scope: every non-reference variant is placed at module level / inside a function that defines the "
        "type names / one function deeper / below the function that defines them, with evaluated, future-import or "
        "QUOTED annotations (random, plus a directed stream enumerating the 4 x 4 product); function-scope modules are "
        "written to disk and imported; which names an enclosing-scope string annotation cannot resolve is read off "
        "Python's own code object (co_freevars); reference = evaluated annotations at module level. "
        "Structure classes of a fixed pool (Owner, Point; one helper module imported by every variant) are field types in the MODELLED "
        "stream: as leaves of random meanings and in a directed stream (alone / optional / alternative on either side / element of list, "
        "tuple, deque, dict / in two-element tuples, every style incl. `a = Owner`, `items=Owner`, `Owner | None`, `Array[Owner | None]`), "
        "with instance values in the shared stream. Two-element tuples (tuple[X, Y] / typing.Tuple / Tuple[X, Y] / Tuple(items=[X, Y])) are "
        "random meaning nodes. A REQUIRED field with a None alternative (typedpy spellings, no _optional) is written by annotation and by "
        "assignment (random 15% of None-admitting fields + directed). `_required = [...]` is written out in 12% of the variants (exactly the "
        "required names, shuffled, sometimes also a defaulted name; redundant _optional entries dropped). Pairwise oracle: definition outcome, "
        "field set, _required, defaults, factory probe, constructor + Serializer on the stream, Deserializer round trip of the first "
        "serialized instances, structure_to_schema. Oracle-only streams also cover date / time types (8 families) and mutable defaults (4 families)")
ASSUMPTIONS = [
    "vocabulary: int/str/float/bool/Any, list/set/frozenset/deque/single- and two-argument tuple and their typing aliases, dict/Dict/Map, Optional/Union/AnyOf/|, "
    "constrained Integer/Float/Number/String/Enum literals, Structure classes of a fixed pool, literal alternatives (`X | 529`); tuples of three or more elements, date/time types (oracle-only stream) are not in the spelling grammar",
    "defaults are immutable scalar literals (int/str/float/bool), the literal `= None` (validated, but not a default afterwards), `default=None` (the keyword's own default: no default) "
    "and default factories; mutable defaults (oracle-only stream, open finding) are outside the modelled domain",
    "the Structure classes named by spellings live in one helper module (all variants and the value stream share the class objects); field names of a class body are distinct",
    "the class source is executed in a module registered in sys.modules (what the future-annotations eval needs), at module level or inside functions of that module; function-scope modules are real files imported through importlib",
    "Python 3.12 typing semantics (Union flattening / de-duplication, no callable check on arguments)",
]
TRUSTED_EXTRA = [
    "extract/type_map.py (probes of convert_basic_types / type_is_generic / get_typing_lib_info / FieldMeta.__getitem__ / _or_fields; "
    "Generated/TypeMap.lean must equal Pinned/TypeMap.lean by `decide`)",
    "harness/suites/elab.py renderer of spellings to source text (checked per case against the annotation strings Python stores under the future import)",
]


def pre_build():
    repo = os.environ.get("VERIF_REPO", "/repo")
    if repo not in sys.path:
        sys.path.insert(0, repo)
    from extract import type_map
    type_map.regenerate()


def cases(rng, tier):
    return S.gen_cases(rng, tier, 420 if tier == "quick" else 2200)


def search_cases(rng, tier):
    return S.gen_cases(rng, "quick", 300)


run_impl = S.run_impl
line = S.line
tags = S.tags
nontrivial = S.nontrivial
describe = S.describe


def judge(case, impl, model):
    if case.get("oracle_only"):
        return None, S.struct_oracle(case, impl)
    msg = S.correspondence(case, impl, model)
    fails = S.oracle(case, impl, model)
    return msg, fails
