"""C20 — concurrent use of a class from several threads equals some sequential order (partial)."""
import json
import os

from extract import shared_writes as SW

ID = "C20"
SUITE = "sched"
LEAN_TARGETS = ["TypedpyModel.Props.C20", "TypedpyModel.Audit.C20"]
AUDIT = "C20"
THEOREMS = [
    "Typedpy.C20.no_shared_writes_frame", "Typedpy.C20.no_shared_writes_linearizable",
    "Typedpy.C20.thread_private_frame", "Typedpy.C20.conflict_free_linearizable", "Typedpy.C20.conflictFreeB_sound",
    "Typedpy.C20.C20_partial", "Typedpy.C20.no_foreign_values",
    "Typedpy.C20.distinct_declarations_linearizable", "Typedpy.C20.aliases_ok", "Typedpy.C20.aliases_nonvacuous",
    "Typedpy.C20.counter_wrong_element_extract_field_value", "Typedpy.C20.counter_missing_key_extract_field_value",
    "Typedpy.C20.counter_wrong_field_named_extract_field_value", "Typedpy.C20.not_linearizable_extract_field_value",
    "Typedpy.C20.counter_wrong_element_tuple", "Typedpy.C20.counter_missing_key_set",
    "Typedpy.C20.counter_missing_key_map", "Typedpy.C20.counter_missing_key_positional",
    "Typedpy.C20.C20_statement_false", "Typedpy.C20.tables_ok", "Typedpy.C20.pinned_tables_ok", "Typedpy.C20.tables_nonvacuous",
    "Typedpy.C20.linearizable_example",
    "Typedpy.C20.private_copies_linearizable",
    "Typedpy.C20.private_copies_equal_original_sequential",
    "Typedpy.C20.no_racy_site_equals_sequential",
    "Typedpy.C20.flat_oneOf_notField_linearizable", "Typedpy.C20.flat_oneOf_example",
    "Typedpy.C20.counter_missing_key_oneof_through", "Typedpy.C20.counter_missing_key_allof_through",
    "Typedpy.C20.same_value_writes_linearizable", "Typedpy.C20.same_value_writes_example",
    "Typedpy.C20.counter_wrong_field_named_nested_oneOf", "Typedpy.C20.counter_wrong_element_nested_notField",
    "Typedpy.C20.safe_table_linearizable",
    "Typedpy.C20.no_racy_site_linearizable",
    "Typedpy.C20.current_tree_linearizable",
    "Typedpy.C20.model_follows_table",
    "Typedpy.C20.counter_missing_key_immutable_set",
    "Typedpy.C20.counter_missing_key_anyof",
    "Typedpy.C20.counter_wrong_field_named_allof",
]
RULE = ("one case = (shape = class shared by the threads, 2-3 thread operations on distinct instances, schedule family); "
        "stream A (model correspondence + oracle): flat collection fields (Array/Deque/Tuple/Set/ImmutableSet/Map, homogeneous and "
        "positional) and multi-field wrappers (AllOf/AnyOf/OneOf/NotField over scalar options, integer values), same field and "
        "one item / option Field instance shared by two fields; ALL schedules with <= 2 (quick) / <= 3 (thorough) pre-emptions at "
        "the shared-access lines of the site functions found by the translator, AND at BYTECODE granularity (every attribute / "
        "item / call instruction of the site functions is a yield point, events logged at the CALL / STORE instruction of the "
        "access; 1 pre-emption quick, 2 thorough); every run is compared with the sequential results AND with the Lean model's "
        "prediction for the observed event order, the model programs being modelProgs(Generated.sharedWrites) - shared cells for "
        "sites the table of THIS tree lists as racy, private copies otherwise; the site at which a Field object was really "
        "renamed is cross-checked against the site the model attributes the cell to; a dynamic probe (line tracer + snapshots of "
        "every reachable Field object's __dict__) names every function that writes a shared Field object: each must be covered "
        "by a table row; stream E (oracle): same exhaustive schedules on nested collections, wrappers, nested structures, "
        "scalars, at event lines / every line of the site functions / every line of the field implementations (table "
        "independent) / bytecode level; stream B: construct/deserialize/setattr/serialize mixes, pre-emption at ANY line of ANY "
        "typedpy file, sampled schedules; twin streams: the same declaration spelling written out freshly for two fields and a "
        "second class, every thread on a DIFFERENT declaration - must be sequential; ser streams: SerializableField items vs a "
        "DESERIALIZING thread; warm_ser: scalar SerializableFields (DateField/DateTime/TimeField/DecimalNumber/Enum) with a "
        "warm-up HISTORY and EQUAL inputs in both threads, every line of extfields/ and of every deserialize/serialize method; "
        "unique_field: is_unique registry with the uniqueness feature on, equal values; cold streams: classes with mappers "
        "REBUILT for every schedule; mapper_hist: warm-up history filling the process-wide caches. Oracle: every thread's result "
        "must be one it has in some sequential order AND the result VECTOR must be that of ONE sequential order; no foreign "
        "values; process-wide mode flags unchanged. evaluations counts cases; each case runs 25-1500 schedules. "
        "non-trivial = >= 2 threads on a non-scalar shape, distinct by sha256 of the case")
ASSUMPTIONS = [
    "the model's step is ONE shared read or write (CPython's pre-emption granularity under the GIL); the harness realises it "
    "at line boundaries (each modelled line has one shared access) and at bytecode boundaries inside the functions of the "
    "shared-write table (sys.settrace with f_trace_opcodes); pre-emption INSIDE callees of those functions is line-level "
    "(stream B / fieldlines), one thread runs at a time",
    "bounded pre-emptions in the harness (<= 2 quick, <= 3 thorough; bytecode level 1 / 2), 2-3 threads; the Lean theorems have "
    "no such bound",
    "the model covers the collection-validation programs and the multi-field wrappers over scalar options (shared Field._name "
    "cells); collections / wrappers nested under a homogeneous collection, nested structures, serializers, mapper caches and "
    "scalar SerializableFields are checked by the sequential-result oracle only",
    "element / option validity in the model is an oracle bit supplied per value (decided on the real option field)",
    "lazily filled caches (_serialize closures, aggregated_mapper_by_class) and uniqueness registries are reset by the harness "
    "before every schedule so that first-use races are exercised",
]
TRUSTED_EXTRA = [
    "extract/field_aliases.py (dynamic probe: every declaration spelling written out freshly for two fields and a second "
    "class; Field objects reachable from two declarations -> Generated/FieldAliases.lean); covers the listed spellings only",
    "extract/shared_writes.py (AST scan of every sub-package of the working tree -> Generated/SharedWrites.lean): its "
    "classification of written values (perCall / ownerName / definitionOnly / keyedCache / readModifyWrite / ...) and of "
    "readBack; its COVERAGE of writes to Field objects is no longer trusted - the dynamic probe of the sched suite must find "
    "every writing function in the table",
    "harness/suites/sched.py scheduler: a schedule is realised faithfully (one thread at a time, switch only at yield points)",
]


def pre_build():
    SW.regenerate()
    from extract import field_aliases as FA
    FA.regenerate()
    # the Lean list of known-finding keys must be the keys of the fragment file
    root = os.path.dirname(os.path.dirname(os.path.dirname(os.path.abspath(__file__))))
    frag = json.load(open(os.path.join(root, "known_findings_C20.json")))
    keys = {f["key"] for f in frag["findings"]}
    src = open(os.path.join(root, "lean", "TypedpyModel", "Props", "C20.lean"), encoding="utf-8").read()
    blk = src[src.index("def knownFindingKeys"):src.index("theorem tables_ok")]
    lean_keys = {k for k in __import__("re").findall(r'"([^"]+)"', blk)}
    if not lean_keys <= keys:
        raise RuntimeError(f"knownFindingKeys not listed in known_findings_C20.json: {sorted(lean_keys - keys)}")


from ..suites import sched as S  # noqa: E402  (after SW so that the tables exist)


def cases(rng, tier):
    return S.gen_cases(rng, tier)


def search_cases(rng, tier):
    return S.gen_cases(rng, tier, scale=2.0)


run_impl = S.run_impl
line = S.line
tags = S.tags
nontrivial = S.nontrivial
describe = S.describe


def judge(case, impl, model):
    msg = S.correspondence(case, impl, model)
    return msg, S.oracle(case, impl)
