"""C20 — concurrent use of a class from several threads equals some sequential order (partial)."""
import json
import os

from extract import shared_writes as SW

ID = "C20"
SUITE = "sched"
LEAN_TARGETS = ["TypedpyModel.Props.C20", "TypedpyModel.Audit.C20"]
AUDIT = "C20"
THEOREMS = [
    "Typedpy.C20.no_shared_writes_frame", "Typedpy.C20.no_shared_writes_linearizable",
    "Typedpy.C20.thread_private_frame", "Typedpy.C20.conflict_free_linearizable", "Typedpy.C20.conflictFreeB_sound",
    "Typedpy.C20.C20_partial", "Typedpy.C20.no_foreign_values",
    "Typedpy.C20.distinct_declarations_linearizable", "Typedpy.C20.aliases_ok", "Typedpy.C20.aliases_nonvacuous",
    "Typedpy.C20.counter_wrong_element_extract_field_value", "Typedpy.C20.counter_missing_key_extract_field_value",
    "Typedpy.C20.counter_wrong_field_named_extract_field_value", "Typedpy.C20.not_linearizable_extract_field_value",
    "Typedpy.C20.counter_wrong_element_tuple", "Typedpy.C20.counter_missing_key_set",
    "Typedpy.C20.counter_missing_key_map", "Typedpy.C20.counter_missing_key_positional",
    "Typedpy.C20.C20_statement_false", "Typedpy.C20.tables_ok", "Typedpy.C20.pinned_tables_ok", "Typedpy.C20.tables_nonvacuous",
    "Typedpy.C20.linearizable_example",
    "Typedpy.C20.private_copies_linearizable",
    "Typedpy.C20.private_copies_equal_original_sequential",
    "Typedpy.C20.no_racy_site_equals_sequential",
    "Typedpy.C20.flat_oneOf_notField_linearizable", "Typedpy.C20.flat_oneOf_example",
    "Typedpy.C20.safe_table_linearizable",
    "Typedpy.C20.no_racy_site_linearizable",
    "Typedpy.C20.current_tree_linearizable",
    "Typedpy.C20.model_follows_table",
    "Typedpy.C20.counter_missing_key_immutable_set",
    "Typedpy.C20.counter_missing_key_anyof",
    "Typedpy.C20.counter_wrong_field_named_allof",
]
RULE = ("one case = (shape = class shared by the threads, 2-3 thread operations on distinct instances, schedule family); "
        "stream A: flat collection fields (Array/Deque/Tuple/Set/Map, homogeneous and positional, same field and one item "
        "Field instance shared by two fields), ALL schedules with <= 2 (quick) / <= 3 (thorough) pre-emptions at the "
        "write/store/read-back lines of the site functions found by the translator, compared with the sequential result "
        "AND with the Lean model's prediction for the observed event order; stream E: same schedules on nested "
        "collections, AnyOf/OneOf/AllOf/NotField, ImmutableSet, nested structures, scalars (oracle only); stream B: "
        "construct/deserialize/setattr/serialize mixes, pre-emption at ANY line of ANY typedpy file, sampled schedules "
        "(oracle only); twin streams (A/E/B): the same declaration spelling (Optional[..], AnyOf[.., None], X | None, Union, list[Optional], Array/Set/Map/Tuple, ...) written out freshly for two differently named fields and a second class, every thread on a DIFFERENT declaration, explicit None / values the earlier options reject / valid values, directed None||None and None||rejected cases - must be sequential; ser streams (E/B): SerializableField items (DateField / DateTime / Enum) as Map key/value, Set item, positional Array/Tuple/Deque item, with a constructing / assigning thread against a DESERIALIZING thread (document = serialized image of its kwargs) on the same field; cold streams (B line-level sampling + E exhaustive at every line of the cache-filling functions found by the translator): classes with TO_CAMELCASE / TO_LOWERCASE / dict / nested mappers REBUILT for every schedule (cold per-class caches), thread programs deserialize||deserialize, serialize||serialize, serialize||deserialize, construct||deserialize. evaluations counts cases; each case runs 25-1500 schedules (histogram schedules-per-case). "
        "non-trivial = >= 2 threads on a non-scalar shape, distinct by sha256 of the case")
ASSUMPTIONS = [
    "PARTIAL: pre-emption only at statement/line boundaries inside typedpy files, driven by sys.settrace with one "
    "thread running at a time; real CPython switches between bytecodes under the GIL (a strictly finer granularity) - "
    "outside the model and the harness",
    "bounded pre-emptions in the harness (<= 2 quick, <= 3 thorough), 2-3 threads; the Lean theorems have no such bound",
    "the model covers the collection-validation programs (shared Field._name cells); operations outside it "
    "(multi-field wrappers, serializers, mapper cache) are checked by the sequential-result oracle only",
    "element validity in the model is an oracle bit supplied per element (Integer(minimum=0) items: v >= 0)",
    "lazily filled caches (_serialize closures, aggregated_mapper_by_class) are reset by the harness before every "
    "schedule so that first-use races are exercised",
]
TRUSTED_EXTRA = [
    "extract/field_aliases.py (dynamic probe: every declaration spelling written out freshly for two fields and a second "
    "class; Field objects reachable from two declarations -> Generated/FieldAliases.lean); covers the listed spellings only",
    "extract/shared_writes.py (AST scan of the working tree -> Generated/SharedWrites.lean; Field objects are `self` of Field "
    "classes, names derived from it, parameters called *field* and names tested with isinstance(x, <Field class>); module-level "
    "dict caches with publish-before-fill detection) and its classification of "
    "written values (perCall / ownerName / definitionOnly / keyedCache)",
    "harness/suites/sched.py scheduler: a schedule is realised faithfully (one thread at a time, switch only at yield points)",
]


def pre_build():
    SW.regenerate()
    from extract import field_aliases as FA
    FA.regenerate()
    # the Lean list of known-finding keys must be the keys of the fragment file
    root = os.path.dirname(os.path.dirname(os.path.dirname(os.path.abspath(__file__))))
    frag = json.load(open(os.path.join(root, "known_findings_C20.json")))
    keys = {f["key"] for f in frag["findings"]}
    src = open(os.path.join(root, "lean", "TypedpyModel", "Props", "C20.lean"), encoding="utf-8").read()
    blk = src[src.index("def knownFindingKeys"):src.index("theorem tables_ok")]
    lean_keys = {k for k in __import__("re").findall(r'"([^"]+)"', blk)}
    if not lean_keys <= keys:
        raise RuntimeError(f"knownFindingKeys not listed in known_findings_C20.json: {sorted(lean_keys - keys)}")


from ..suites import sched as S  # noqa: E402  (after SW so that the tables exist)


def cases(rng, tier):
    return S.gen_cases(rng, tier)


def search_cases(rng, tier):
    return S.gen_cases(rng, tier, scale=2.0)


run_impl = S.run_impl
line = S.line
tags = S.tags
nontrivial = S.nontrivial
describe = S.describe


def judge(case, impl, model):
    msg = S.correspondence(case, impl, model)
    return msg, S.oracle(case, impl)
