"""C10 — trusted and fast shortcut paths equal the validated paths on valid data."""
import json
import os
import re

from ..suites import shortcut as S
from ..suites import serde as SD
from .. import dump

ID = "C10"
SUITE = "shortcut"
LEAN_TARGETS = ["TypedpyModel.Props.C10", "TypedpyModel.Props.C10Tie", "TypedpyModel.Audit.C10"]
AUDIT = "C10"
_ROOT = __file__.rsplit("/harness/", 1)[0]
try:
    THEOREMS = re.findall(r"#print axioms (\S+)", open(_ROOT + "/lean/TypedpyModel/Audit/C10.lean").read())
except OSError:
    THEOREMS = []
RULE = ("classes built on the eligibility boundary of trusted deserialization: every scalar kind (Integer/Number/Float/"
        "String/Boolean/Enum class/Enum literals/NoneField, with constraints) bare, inside Optional (both option orders), "
        "Array, Set, Map; non-optional AnyOf; nested classes (depth <= 2, thorough 3) bare and inside Array/Set/Map/Optional; "
        "Optional of Array/Set/Map/Tuple/Deque/Anything; Tuple, Deque, positional Array, StructureReference, untyped "
        "collections, OneOf/AllOf; _ignore_none, additional properties, defaults on optional scalar fields; 30% of class "
        "trees with TO_CAMELCASE/TO_LOWERCASE/rename/unsupported mappers per class; 20% of the mapper-free classes with >= 2 fields "
        "declared as a SUBCLASS whose first k fields are inherited from a parent class; mode trusted: JSON images of up to 4 "
        "valid instances per class (+ nulls for optional fields, 'True'/'False' and ints for Boolean/Float, undeclared keys, "
        "single-point corruptions, keys in own-mapper / cascaded / field-name form), keep_undefined x "
        "ignore_invalid_additional_properties in 3x2; mode construct: cls(**kw) vs from_trusted_data(None, **kw) / "
        "from_trusted_data(mapping) / trust_supplied_values; mode fast: FastSerializable twin class trees (12% of nested "
        "classes not fast), create_serializer with serialize_none x compact in 2x2, x.serialize() vs Serializer(twin); "
        "for flag-free cases the serializer also comes to exist implicitly at first instantiation, or implicitly for a "
        "SUBCLASS (fields split over a parent and a child class) after the parent was instantiated / got its own "
        "serializer; mode firstuse: fresh FastSerializable class trees WITHOUT create_serializer (25% with simple mappers) whose FIRST "
        "instance is made by a shortcut path (trusted deserialization incl. the nested classes it builds, from_trusted_data(None, **kw), "
        "from_trusted_data(mapping), trust_supplied_values + constructor; 15% of the optional-only classes from no values at all): "
        "x.serialize() of the instance and of every reachable nested instance vs the model (fastSerializeFirst) and vs the same path on an "
        "identically declared tree whose classes were instantiated by the validating constructor first; JSON arrays of Set fields repeat "
        "elements; every case builds fresh classes; distinct by case hash")
ASSUMPTIONS = [
    "fail-fast mode, no Versioned classes, no uniqueness features; class inheritance only as 'fields split over a parent and a child class' "
    "(the model sees the flattened field list)",
    "rename mappers are injective on the class's fields (key collisions are C07's subject); one mapper per class, no lists of mappers "
    "except as the 'unsupported' kind",
    "SerializableField types other than Enum (DateField, DateTime, TimeField, DecimalNumber), Constant attributes and Enum serialization_by_value "
    "are not in the model: mode enumvalue runs the property's oracle on the real code only (trusted deserialization, from_trusted_data, fast twin)",
    "the regular path with mappers is modelled as Spec/TrustedSafe.deserializeMapped (every class-level object read through its class's "
    "own simple mapper, then the mapper-free regular path) and corresponded where no named deviation of the real regular path applies "
    "(enclosing TO_CAMELCASE/TO_LOWERCASE reaching nested classes, chained parent mappers, field-name fallback, a renamed field's original "
    "key kept as an undeclared attribute, Map/Tuple of classes); C07 models the aggregate itself (composed with in trusted_key_is_regular_key); "
    "the trusted and fast paths are modelled with the classes' own simple mappers",
    "attribute order of __dict__ / key order of documents is not modelled (compared order-insensitively, like Python ==)",
    "serialize_none=True adds an explicit null for every unset field by definition: the fast document is compared with the "
    "regular one modulo top-level null entries",
]
TRUSTED_EXTRA = [
    "C10: harness/suites/shortcut.py (class builder with mapper / FastSerializable bases, document key mapping, comparison), "
    "lean/TypedpyModel/Drive/Shortcut.lean, extract/trusted.py (isinstance probe of the whitelist tuples)",
]

# order in which a violation observed outside the proved region is attributed to a named defect
PRIORITY = [
    # trusted deserialization
    "unnormalised:optional-immutable-set", "unnormalised:anyof-enum",
    "dropped:undeclared-keys", "unnormalised:boolean-string", "defaults-not-applied",
    "unnormalised:enum-name", "unnormalised:inline-dict", "unnormalised:float-int",
    "mapper:base-chain", "mapper:cascade", "mapper:fallback",
    # fast serialization: instance-level causes first, then declaration-level ones
    "fast:extras-dropped", "fast:compact-conditions",
    "fast:positional-index:deque", "fast:json-dumps", "fast:untyped-raw", "fast:inline-none-keys",
    "fast:nonfast-nested", "fast:mapper-cascade", "fast:multi-wrapper",
]


def pre_build():
    from extract import trusted
    trusted.generate()


def cases(rng, tier):
    return S.gen_cases(rng, tier)


def search_cases(rng, tier):
    return S.gen_cases(rng, "thorough", scale=0.4)


run_impl = S.run_impl
line = S.line
nontrivial = S.nontrivial
describe = S.describe


def tags(case, impl, model):
    return S.tags(case, impl, (model or {}).get("out") if isinstance(model, dict) and "out" in model else model)


def pick(tag_list, what):
    for t in PRIORITY:
        if t in tag_list:
            return t
    rest = [t for t in tag_list if t not in ("ineligible-shape",)]
    return (rest[0] if rest else "unclassified") + ":" + what


def attribute(what, in_region, explained, tag_list):
    """finding key of a property violation observed on the real code"""
    if in_region:
        return "in-proved-region:" + what
    if not explained:
        return "unexplained:" + what
    return pick(tag_list, what)


# ------------------------------------------------------------------ trusted deserialization

def judge_trusted(case, impl, model):
    fails = []
    cls = case["cls"]
    mapper_free = not case.get("mapperSpec")
    in_scope = SD.in_model_scope(cls)
    msgs = []
    if model.get("wf") is False:
        msgs.append("dumped class declaration is not well-formed (wfDecl false)")
    if impl.get("verdict") != model.get("verdict"):
        msgs.append(f"eligibility verdict differs: model {model.get('verdict')}, real code {impl.get('verdict')}")
    reg, tru = impl.get("regular"), impl.get("trusted")
    offpath = SD.null_in_nested_object(case["doc"]) and SD.offpath_inline(cls)
    m_reg = None
    if mapper_free and in_scope and not offpath and "regular" in model:
        m_reg = _loose_err(SD.res_diff("regular deserialize", model["regular"], reg,
                                       errs=("TypeError", "ValueError", "InvalidStructureErr")))
        if m_reg:
            msgs.append(m_reg)
    # class trees with simple mappers: the regular path as the model describes it (Spec/TrustedSafe.deserializeMapped:
    # every class-level object read through its class's own mapper), where no named deviation of the real regular path
    # applies (an enclosing TO_CAMELCASE / TO_LOWERCASE reaching nested classes, chained parent mappers, field-name fallback)
    mapped_scope = (not mapper_free and in_scope and not offpath and model.get("simpleMappers") and not model.get("cascade")
                    and model.get("tsafe")       # (untrV follows the shapes of the proved region: no Map / Tuple of classes)
                    and not model.get("baseChain") and "regularMapped" in model
                    and not _uses_unmapped_names(cls, case["doc"], case.get("mapperSpec") or {})
                    and _extras_quiet(cls, case["doc"], case.get("mapperSpec") or {}, impl.get("opts_actual") or {}))
    if mapped_scope and not _has_set_of_struct_with_defaults(cls):
        m_reg = _loose_err(SD.res_diff("regular deserialize (with mappers)", model["regularMapped"], reg,
                                       errs=("TypeError", "ValueError", "InvalidStructureErr")))
        if m_reg:
            msgs.append(m_reg)
    m_tru = None
    eligible = model.get("verdict") in ("flat", "nested")
    # (before /repo c4803f1 CPython deduplicated Set[Structure] elements by a hash of str(instance) while the model
    #  deduplicates by ==; since then equal structures hash alike and sets of structures are corresponded like the rest)
    #  except where a field default is involved: the trusted constructor does not store defaults, `==` / hash() read them,
    #  the model's `==` on instances (attribute lists) does not (finding defaults-not-applied)
    set_of_struct = _has_set_of_struct_with_defaults(cls)
    if set_of_struct:
        m_reg = None
        msgs[:] = [m for m in msgs if not m.startswith("regular deserialize")]
    if "trusted" in model and not set_of_struct and (eligible or model.get("verdict") == "raises" or (mapper_free and in_scope and not offpath)):
        m_tru = S.res_same(cls, model["trusted"], tru)
        if m_tru and "exception class differs" in m_tru:
            m_tru = None       # two raising entries: the model raises in field order, the code in document order
        if m_tru and "model raises KeyError" in m_tru and "ok" not in (reg or {}):
            m_tru = None       # a document the regular path rejects: the enum-mapping step knows the whole enum class,
                               # the model only the member names the field allows
        if m_tru:
            msgs.append("trusted deserialize: " + m_tru)
    if mapper_free and in_scope and not offpath and not set_of_struct and reg and "ok" in reg:
        for key in ("serX", "serY"):
            if key == "serY" and not (model.get("yWellFormed") and model.get("tsafe")):
                continue    # the regular serializer model (Sem/Serde) only claims well-formed instances
            if key in model and key in impl:
                d = S.res_same(cls, model[key], impl[key], doc=True)
                if d and "exception class differs" not in d:
                    msgs.append(f"{key}: " + d)
    if impl.get("doc_unchanged") is False:
        fails.append(("mutates-document:trusted", "deserialization modified the caller's document (C19)"))

    # ---- the property, on what the real code returned
    if reg and "ok" in reg and tru is not None:
        v = impl.get("verdict")
        what = None
        detail = ""
        if v == "no":
            if "ok" not in tru:
                what, detail = "ineligible-flag-raises", f"{tru.get('err')}: {tru.get('msg')}"
            elif not S.same_inst(tru["ok"], reg["ok"]):
                what = "ineligible-flag-changes"
            elif impl.get("used_trusted"):
                what = "ineligible-used-trusted"
            if what:
                fails.append((what + ":" + _site(cls), f"class is not eligible ({v}) but direct_trusted_mapping changed the result: "
                              f"{detail} regular={json.dumps(reg['ok'])[:200]} trusted={json.dumps(tru.get('ok'))[:200]}"))
        elif v == "raises":
            if "ok" not in tru:
                fails.append(("ineligible-raises:unsupported-mapper",
                              f"class has a mapper the trusted path does not support: the flag must change nothing, but "
                              f"deserialize(direct_trusted_mapping=True) raises {tru.get('err')}: {tru.get('msg')}"))
        elif v in ("flat", "nested"):
            if "ok" not in tru:
                what, detail = "trusted-raises", f"{tru.get('err')}: {tru.get('msg')}"
            elif impl.get("eq") != [True, True]:
                what, detail = "not-equal", f"== gives {impl.get('eq')}"
            else:
                sx, sy = impl.get("serX"), impl.get("serY")
                if sx and "ok" in sx:
                    if not sy or "ok" not in sy:
                        what, detail = "serialize-raises", f"Serializer(trusted instance) raises {sy.get('err')}: {sy.get('msg')}"
                    elif not S.same_doc(cls, sx["ok"], sy["ok"], mapped=not mapper_free):
                        loose = S.same_doc(cls, S.loose_doc(sx["ok"]), S.loose_doc(sy["ok"]), mapped=not mapper_free)
                        what = "serialization-number-spelling" if loose else "serialization-differs"
                        detail = json.dumps(sx["ok"])[:150] + " vs " + json.dumps(sy["ok"])[:150]
            if what:
                tag_list = list(model.get("declDefects", [])) + list(model.get("docIssues", []))
                if not mapper_free and model.get("baseChain"):
                    tag_list.append("mapper:base-chain")
                if not mapper_free and model.get("cascade"):
                    tag_list.append("mapper:cascade")
                if not mapper_free and _uses_unmapped_names(cls, case["doc"], case.get("mapperSpec") or {}):
                    tag_list.append("mapper:fallback")
                if not mapper_free and not _extras_quiet(cls, case["doc"], case.get("mapperSpec") or {}, impl.get("opts_actual") or {}):
                    tag_list.append("dropped:undeclared-keys")     # the regular path keeps a renamed field's ORIGINAL key too
                in_region = bool((mapper_free and model.get("tsafe") and model.get("plain"))
                                 or (mapped_scope and model.get("tsafe") and model.get("plainMapped")))
                explained = m_tru is None and (m_reg is None)
                key = attribute(what, in_region, explained, tag_list)
                fails.append((key, f"eligible class ({v}), document accepted by the regular path, but {what}: {detail}; "
                              f"regular={json.dumps(reg['ok'])[:200]} trusted={json.dumps(tru.get('ok'))[:200]} "
                              f"doc={json.dumps(case['doc'])[:200]}"))
        # the proved region must hold on the model's own terms too (model self-check, cheap)
        if mapper_free and model.get("tsafe") and model.get("plain") and "ok" in model.get("regular", {}):
            if not ("ok" in model.get("trusted", {}) and model.get("eqv") is True
                    and json.dumps(model.get("serX")) == json.dumps(model.get("serY"))):
                msgs.append("model violates its own theorem inside the proved region")
        if (not mapper_free and model.get("simpleMappers") and model.get("tsafe") and model.get("plainMapped")
                and eligible and "ok" in model.get("regularMapped", {})):
            if not ("ok" in model.get("trusted", {}) and model.get("eqvMapped") is True and model.get("serSameMapped") is True):
                msgs.append("model violates trusted_mapper_equiv_partial inside the proved region")
    return ("; ".join(msgs)[:1500] if msgs else None), fails


def _has_set_of_struct(d):
    if isinstance(d, dict):
        if d.get("k") == "setOf" and _contains_struct(d.get("item")):
            return True
        return any(_has_set_of_struct(v) for v in d.values())
    if isinstance(d, list):
        return any(_has_set_of_struct(x) for x in d)
    return False


def _has_set_of_struct_with_defaults(d):
    if isinstance(d, dict):
        if d.get("k") == "setOf" and _contains_defaults(d.get("item")):
            return True
        return any(_has_set_of_struct_with_defaults(v) for v in d.values())
    if isinstance(d, list):
        return any(_has_set_of_struct_with_defaults(x) for x in d)
    return False


def _contains_defaults(d):
    if isinstance(d, dict):
        return (d.get("k") == "struct" and bool(d.get("defaults"))) or any(_contains_defaults(v) for v in d.values())
    if isinstance(d, list):
        return any(_contains_defaults(x) for x in d)
    return False


def _contains_struct(d):
    if isinstance(d, dict):
        return d.get("k") == "struct" or any(_contains_struct(v) for v in d.values())
    if isinstance(d, list):
        return any(_contains_struct(x) for x in d)
    return False


def _uses_unmapped_names(d, doc, table):
    """some class-level object of the document spells a renamed field by its field name"""
    if not isinstance(d, dict) or not isinstance(doc, dict):
        return False
    k = d.get("k")
    if k == "struct" and "m" in doc and not d.get("inline"):
        m = table.get(d["name"])
        fd = dict((n, f) for n, f in d["fields"])
        keys = {S.map_key(m, n): n for n in fd}
        for kk, v in doc["m"]:
            if kk in fd and S.map_key(m, kk) != kk:
                return True
            sub = fd.get(keys.get(kk, kk))
            if sub is not None and _uses_unmapped_names(sub, v, table):
                return True
        return False
    if k in ("seqOf", "setOf", "tupleOf") and "l" in doc:
        return any(_uses_unmapped_names(d["item"], x, table) for x in doc["l"])
    if k == "mapOf" and "m" in doc:
        return any(_uses_unmapped_names(d["val"], v, table) for _, v in doc["m"])
    if k == "anyOf":
        return any(_uses_unmapped_names(o, doc, table) for o in d["fields"])
    return False


def _extras_quiet(d, doc, table, opts):
    """no class-level object of the document has a key the regular path treats as undeclared: with mappers it looks at
    the ORIGINAL keys (a renamed field's key is kept as an attribute / refused as an unexpected argument - part of
    finding dropped:undeclared-keys), and a class with TO_CAMELCASE / TO_LOWERCASE switches keep_undefined off"""
    if not isinstance(d, dict) or not isinstance(doc, dict):
        return True
    k = d.get("k")
    if k == "struct" and "m" in doc and not d.get("inline"):
        m = table.get(d["name"])
        fd = dict((n, f) for n, f in d["fields"])
        active = bool(opts.get("keepUndefined", True)) and (bool(d.get("addl", True)) or not opts.get("ignoreInvalidAddl", True))
        keys = {S.map_key(m, n): n for n in fd}
        for kk, v in doc["m"]:
            if active and kk not in fd:
                return False
            sub = fd.get(keys.get(kk, kk))
            if sub is not None and not _extras_quiet(sub, v, table, opts):
                return False
        return True
    if k in ("seqOf", "setOf", "tupleOf") and "l" in doc:
        return all(_extras_quiet(d["item"], x, table, opts) for x in doc["l"])
    if k == "mapOf" and "m" in doc:
        return all(_extras_quiet(d["val"], v, table, opts) for _, v in doc["m"])
    if k == "anyOf":
        return all(_extras_quiet(o, doc, table, opts) for o in d["fields"])
    return True


def _loose_err(msg):
    """the error CLASS of the regular path is C06's business; here only accept / reject and the instance matter"""
    if msg and "exception class differs" in msg:
        return None
    return msg


def _site(cls):
    return "+".join(sorted({S.shape_of(fd) for _, fd in cls["fields"]}))[:60]


# ------------------------------------------------------------------ trusted construction

def judge_construct(case, impl, model):
    fails, msgs = [], []
    cls = case["cls"]
    in_scope = SD.in_model_scope(cls)
    val = impl.get("validated")
    # (the validated constructor itself is C01 / C02's subject and is not corresponded here)
    for name, mkey in (("trustedKw", "trustedKw"), ("trustFlag", "trustedKw"), ("trustedMap", "trustedMap")):
        d = S.res_same(cls, model.get(mkey), impl.get(name))
        if d:
            msgs.append(f"{name}: " + d)
    if impl.get("flag_reset_ok") is False:
        fails.append(("trust-flag-sticks:class", "cls.trust_supplied_values(False) does not restore validated construction"))
    if val and "ok" in val:
        for name in ("trustedKw", "trustFlag", "trustedMap"):
            got = impl.get(name)
            what = None
            if "ok" not in got:
                what = "trusted-raises"
            elif impl.get("eq_" + name) != [True, True]:
                what = "not-equal"
            else:
                sx, sy = impl.get("serX"), impl.get("ser_" + name)
                if sx and "ok" in sx:
                    if not sy or "ok" not in sy:
                        what = "serialize-raises"
                    elif not S.same_doc(cls, sx["ok"], sy["ok"]):
                        what = ("serialization-number-spelling"
                                if S.same_doc(cls, S.loose_doc(sx["ok"]), S.loose_doc(sy["ok"])) else "serialization-differs")
            if what:
                tag_list = [t for t in model.get("kwIssues", []) if name == "trustedMap" or t != "dropped:undeclared-keys"]
                in_region = bool(model.get("stored"))
                explained = not any(m.startswith(name) for m in msgs)
                key = attribute(what, in_region, explained, tag_list)
                fails.append((key, f"{name}: constructor-valid arguments but {what}: validated={json.dumps(val['ok'])[:200]} "
                              f"trusted={json.dumps(got.get('ok', got))[:200]}"))
    if model.get("stored") and "ok" in model.get("validated", {}):
        if model.get("eqvMap") is not True:
            msgs.append("model violates from_trusted_equiv inside the proved region")
    return ("; ".join(msgs)[:1500] if msgs else None), fails


# ------------------------------------------------------------------ fast serialization

def drop_top_nulls(doc):
    if isinstance(doc, dict) and "m" in doc:
        return {"m": [[k, v] for k, v in doc["m"] if v is not None]}
    return doc


def judge_fast(case, impl, model):
    fails, msgs = [], []
    cls = case["cls"]
    mapper_free = not case.get("mapperSpec")
    in_scope = SD.in_model_scope(cls)
    if impl.get("created") != model.get("created"):
        msgs.append(f"create_serializer verdict differs: model {model.get('created')}, real code {impl.get('created')} "
                    f"{impl.get('create_err', '')}")
    if impl.get("x_fast_same") is False:
        msgs.append("harness: the FastSerializable twin holds a different instance")
    fast, reg = impl.get("fast"), impl.get("regular")
    m_fast = None
    if impl.get("created") and model.get("created") and fast is not None:
        m_fast = S.res_same(cls, model.get("fast"), fast, doc=True, mapped=not mapper_free)
        if m_fast and "exception class differs" in m_fast:
            m_fast = None      # both raise; the exception class of a failing serialize() is not part of the claim
        if m_fast:
            msgs.append("fast serialize: " + m_fast)
    if mapper_free and in_scope and reg is not None and "regular" in model:
        d = S.res_same(cls, model["regular"], reg, doc=True)
        if d and "exception class differs" not in d:
            msgs.append("regular serialize: " + d)
    cascade = "fast:mapper-cascade" in (model.get("fastDefects") or [])
    fmap_region = bool(not mapper_free and model.get("fmapRegion") and not cascade)
    if (fmap_region and in_scope and reg is not None and "regularMapped" in model and model.get("fsafe")
            and "fast:extras-dropped" not in (model.get("fastDefects") or [])):
        # the regular serializer with a mapper on the class itself (none below): the mapper-free document, keys renamed
        d = S.res_same(cls, model["regularMapped"], reg, doc=True, mapped=True)
        if d and "exception class differs" not in d:
            msgs.append("regular serialize (with mapper): " + d)
    # (a nested class whose own serializer cannot be created cannot be instantiated at all: `fast_inst_err`;
    #  such class trees are outside the statement's domain and only the verdict is compared)
    if impl.get("inst_unchanged") is False:
        fails.append(("mutates-instance:fast", "x.serialize() changed the instance (C19)"))
    if impl.get("created") and fast is not None and reg is not None and "ok" in reg:
        what = None
        if "ok" not in fast:
            what = "fast-raises"
            detail = f"{fast.get('err')}: {fast.get('msg')}"
        else:
            cands = [fast["ok"]] + ([drop_top_nulls(fast["ok"])] if case["serializeNone"] else [])
            detail = json.dumps(reg["ok"])[:150] + " vs " + json.dumps(fast["ok"])[:150]
            if not any(S.same_doc(cls, a, reg["ok"], mapped=not mapper_free) for a in cands):
                what = "fast-differs"
            elif impl.get("via_serializer") and "ok" in impl["via_serializer"] and not S.same_doc(
                    cls, impl["via_serializer"]["ok"], fast["ok"], mapped=not mapper_free):
                what = "serializer-wrapper-differs"
        if what:
            tag_list = [t for t in model.get("fastDefects", []) if t != "fast:serialize-none"]
            in_region = bool((mapper_free or (fmap_region and not case["compact"])) and not case.get("nonFast")
                             and model.get("fsafe") and model.get("fwf") and "fast:compact-conditions" not in tag_list)
            explained = m_fast is None
            key = attribute(what, in_region, explained, tag_list)
            fails.append((key, f"create_serializer(compact={case['compact']}, serialize_none={case['serializeNone']}) succeeded "
                          f"but {what}: {detail}; instance={json.dumps(impl.get('x'))[:200]}"))
    return ("; ".join(msgs)[:1500] if msgs else None), fails


def judge_firstuse(case, impl, model):
    """order of first use: the first instance of a fresh FastSerializable class comes from a shortcut path"""
    if "path_err" in impl or "path_err2" in impl or "x" not in impl:
        return None, []
    path = case["path"]
    first, warm = impl.get("docs_first") or [], impl.get("docs_warm") or []
    # the trusted constructor installs the serializer once per KEYWORD: an instance made from no values leaves its
    # class without one (finding first-use-order:no-values; the model has it for the top instance only)
    nv_nested = any(e.get("nv") and e.get("err") == "NotImplementedError" for e in first[1:])
    if nv_nested and "err" in (impl.get("fast") or {}):
        impl = {k: v for k, v in impl.items() if k not in ("fast", "regular")}
    if impl.get("no_values") and (impl.get("fast") or {}).get("err") == "NotImplementedError":
        impl = {k: v for k, v in impl.items() if k != "regular"}      # reported below as first-use-order:no-values
    msgs, fails = judge_fast(case, impl, model)
    strip = lambda es: [{k: v for k, v in e.items() if k != "nv"} for e in es]
    if strip(first) != strip(warm):
        i = next((k for k, (u, v) in enumerate(zip(strip(first), strip(warm))) if u != v), min(len(first), len(warm)))
        u = first[i] if i < len(first) else None
        v = warm[i] if i < len(warm) else None
        no_values = any(e.get("nv") and e.get("err") == "NotImplementedError" for e in first)
        key = "first-use-order:" + ("no-values" if no_values else path + (":nested" if i else ""))
        fails.append((key, f"a fresh FastSerializable class tree whose first instance is made by path '{path}': serialize() of "
                      f"instance #{i} gives {json.dumps(u)[:200]}, but {json.dumps(v)[:200]} when every class was instantiated "
                      f"by the validating constructor before; instance={json.dumps(impl.get('x'))[:200]}"))
    return msgs, fails


def judge_enumvalue(case, impl, model):
    """Enum fields by name / by value over enum classes of every kind: the statement on the real code only"""
    fails = []
    sites = sorted({f["site"] + ((":by-value" if f.get("byValue") else ":by-name") if f["site"] in S.ENUM_SITES else "")
                    for f in case["fields"] if f["site"] != "int"})
    has_const = any(f["site"].startswith("const") for f in case["fields"])
    by_value_direct = any(f["site"] in ("field", "optional", "optionalRev") and f.get("byValue") for f in case["fields"])
    set_fields = {f["name"] for f in case["fields"] if f["site"] == "set"}
    reg, tru = impl.get("regular", {}), impl.get("trusted", {})
    v = impl.get("verdict")
    what = None
    if "ok" in reg and v in ("flat", "nested"):
        if "ok" not in tru:
            what = "trusted-raises"
        elif impl.get("eq") != [True, True]:
            what = "not-equal"
        elif not impl.get("ser_same"):
            what = "serialization-differs"
    elif "ok" in reg and v == "no" and ("ok" not in tru or impl.get("eq") != [True, True]):
        what = "ineligible-flag-changes"
    if what:
        supplied = {n for n, _ in case["members"]}
        direct_hit = any(f["site"] in ("field", "optional", "optionalRev") and f.get("byValue") and f["name"] in supplied
                         for f in case["fields"])
        key = "crash:enum-by-value" if (what == "trusted-raises" and direct_hit and tru.get("err") == "KeyError") \
            else f"enum-kinds:{what}:" + "+".join(sites)[:80]
        fails.append((key, f"Enum fields {sites} over {case['enumKinds']}: {what}: doc={impl.get('doc')} regular={reg} trusted={tru}"))
    if "ftd" in impl:
        w2 = None
        if "ok" not in impl["ftd"]:
            w2 = "trusted-raises"
        elif impl.get("ftd_eq") != [True, True]:
            w2 = "not-equal"
        elif not impl.get("ftd_ser_same"):
            w2 = "serialization-differs"
        if w2:
            only_consts = has_const and w2 != "trusted-raises" and impl.get("ftd_only_consts") is True
            key = "constants-not-set:from-trusted-data" if only_consts else f"probe:from-trusted:{w2}:" + "+".join(sites)[:80]
            fails.append((key, f"from_trusted_data(None, **kw) vs the validated constructor, fields {sites}: {w2}: {impl.get('ftd')}"))
    if impl.get("regular_ser_ok") and impl.get("fast_same") is False:
        site_of = {f["name"]: f["site"] for f in case["fields"]}
        diff_sites = {site_of.get(k, "?") for k in impl.get("fast_diff_keys") or ["?"]}
        fkeys = [{"constEnum": "fast:constant-enum-raw", "decimal": "fast:decimal-raw"}.get(
                     st, "enum-kinds:fast-differs:" + "+".join(sites)[:80]) for st in sorted(diff_sites)]
        for fkey in sorted(set(fkeys)):
            fails.append((fkey,
                          f"fast serialize() differs at keys {impl.get('fast_diff_keys')} for fields {sites} over {case['enumKinds']}: "
                          f"regular={impl.get('fast_regular')} fast={impl.get('fast')}"))
    return None, fails


def judge(case, impl, model):
    if "unbuildable" in impl:
        return None, []
    if "abstraction_mismatch" in impl:
        return "dump(build(decl)) != decl: " + json.dumps(impl["abstraction_mismatch"])[:600], []
    return {"trusted": judge_trusted, "construct": judge_construct, "fast": judge_fast,
            "enumvalue": judge_enumvalue, "firstuse": judge_firstuse}[case["mode"]](case, impl, model)
