"""C03 — every mutation is validated and failure-atomic."""
import json
from ..suites import mutate as S
from .. import dump

ID = "C03"
SUITE = "mutate"
LEAN_TARGETS = ["TypedpyModel.Props.C03", "TypedpyModel.Audit.C03"]
AUDIT = "C03"
THEOREMS = [
    "Typedpy.C03.setattr_err_unchanged",
    "Typedpy.C03.setattr_err_class",
    "Typedpy.C03.setattr_ok_wf",
    "Typedpy.C03.delitem_ok_wf",
    "Typedpy.C03.call_refines_setattr",
    "Typedpy.C03.step_err_unchanged",
    "Typedpy.C03.step_err_class",
    "Typedpy.C03.step_wf",
    "Typedpy.C03.run_wellformed",
    "Typedpy.C03.run_failures_atomic",
    "Typedpy.C03.tables_ok",
    "Typedpy.C03.run_wellformed_current",
    "Typedpy.C03.machine_example",
    "Typedpy.C03.nested_counterexample",
]
RULE = ("mutable (and field-immutable) classes biased to Array/Deque/Map fields incl. nested typed wrappers; start "
        "instance valid; histories of <=6 (quick) / <=20 (thorough) ops drawn from setattr(valid|invalid|None), del, "
        "EVERY mutator of list/dict/deque found by probing the native types (same extractor as the Lean table) with "
        "valid|invalid|missing-index arguments, also on wrappers nested one level; snapshot after every op; "
        "non-trivial = >=1 op; distinct by sha256 of the case line")
ASSUMPTIONS = [
    "every op re-fetches the field value through the instance (stale wrapper references kept across a reassigning op are outside the claim)",
    "in-place mutation of values handed out by reference by design (Set, Tuple elements, Anything, untyped Array/Map contents) is outside the claim",
    "__validate__ hooks and date/time post-assignment checks are not in the model yet",
]


def pre_build():
    from extract import wrappers
    wrappers.generate()


def cases(rng, tier):
    return S.gen_cases(rng, tier, 500 if tier == "quick" else 6000, immutable=False)


def search_cases(rng, tier):
    return S.gen_cases(rng, "thorough", 500, immutable=False)


run_impl = S.run_impl
line = S.line
tags = S.tags
nontrivial = S.nontrivial
describe = S.describe


def judge(case, impl, model):
    msg = S.correspondence(case, impl, model)
    fails = []
    if "unbuildable" in impl or "abstraction_mismatch" in impl:
        return msg, fails
    prev = impl["start"]
    wf = model.get("implWf", [])
    for i, (op, st) in enumerate(S.kept_steps(case, impl)):
        site = S.op_site(case, op)
        if st["out"] == "ok":
            # wf[0] is the start state; blame an op only if the state before it was well-formed
            if i + 1 < len(wf) and wf[i] and not wf[i + 1]:
                fails.append((f"unvalidated:{site}",
                              f"{json.dumps(op)[:200]} succeeded and left the instance invalid: " + json.dumps(st["state"])[:300]))
        else:
            if dump.canon(st["state"]) != dump.canon(prev):
                fails.append((f"not-atomic:{site}",
                              f"{json.dumps(op)[:200]} raised {st['out']} but changed the instance: before "
                              + json.dumps(prev)[:200] + " after " + json.dumps(st["state"])[:200]))
            if st["out"] == "AttributeError" and op["op"] != "setattr" and not _field_set(prev, op["f"]):
                pass    # the field is not set: there is no value to apply the operation to (not in the claim)
            elif st["out"] not in S.ALLOWED_ERRORS:
                fails.append((f"error-class:{site}", f"{json.dumps(op)[:200]} raised {st['out']}: {st.get('msg')}"))
        prev = st["state"]
    return msg, fails


def _field_set(state, name):
    return any(k == name and v is not None for k, v in state["o"][1])
