"""C03 — every mutation is validated and failure-atomic."""
import json
from ..suites import mutate as S
from ..suites import wrappedcoll as W
from .. import dump

ID = "C03"
SUITE = "mutate"
LEAN_TARGETS = ["TypedpyModel.Props.C03", "TypedpyModel.Audit.C03"]
AUDIT = "C03"
THEOREMS = [
    "Typedpy.C03.setattr_err_unchanged",
    "Typedpy.C03.setattr_err_class",
    "Typedpy.C03.setattr_ok_wf",
    "Typedpy.C03.delitem_ok_wf",
    "Typedpy.C03.call_refines_setattr",
    "Typedpy.C03.step_err_unchanged",
    "Typedpy.C03.step_err_class",
    "Typedpy.C03.step_wf",
    "Typedpy.C03.run_wellformed",
    "Typedpy.C03.run_failures_atomic",
    "Typedpy.C03.tables_ok",
    "Typedpy.C03.run_wellformed_current",
    "Typedpy.C03.machine_example",
    "Typedpy.C03.nested_counterexample",
    "Typedpy.C03.stepB_err_unchanged",
    "Typedpy.C03.stepB_err_class",
    "Typedpy.C03.stepB_wf",
    "Typedpy.C03.runB_wellformed",
    "Typedpy.C03.runB_failures_atomic",
    "Typedpy.C03.full_statement_bound",
    "Typedpy.C03.full_statement_unbound_false",
    "Typedpy.C03.nested_exclusion_exact",
    "Typedpy.C03.runB_wellformed_current",
    "Typedpy.C03.callRef_attrs",
    "Typedpy.C03.stepR_err_unchanged",
    "Typedpy.C03.stepR_wf",
    "Typedpy.C03.runR_wellformed",
    "Typedpy.C03.nested_counterexample_deque_append",
    "Typedpy.C03.nested_counterexample_deque_appendleft",
    "Typedpy.C03.nested_counterexample_dict_setitem",
    "Typedpy.C03.nested_bound_example",
    "Typedpy.C03.stale_reference_example",
    "Typedpy.C03.slice_sort_example",
    "Typedpy.C03.delitemH_facts",
    "Typedpy.C03.delitemH_hook",
    "Typedpy.C03.setattr_field_hook",
    "Typedpy.C03.stepB_hook",
    "Typedpy.C03.runB_hook_partial",
    "Typedpy.C03.refCall_facts",
    "Typedpy.C03.delitem_skips_hook",
    "Typedpy.C03.nested_depth2_example",
    "Typedpy.C03.fixed_nested_bound_today",
    "Typedpy.C03.fixed_delitem_hook_today",
    "Typedpy.C03.fixed_full_statement_current",
    "Typedpy.C03.fixed_hook_invariant_current",
]
RULE = ("mutable (and field-immutable) classes biased to Array/Deque/Map fields incl. nested typed wrappers; start "
        "instance valid; histories of <=6 (quick) / <=20 (thorough) ops drawn from setattr(valid|invalid|None), del, "
        "EVERY mutator of list/dict/deque found by probing the native types (same extractor as the Lean table) with "
        "valid|invalid|missing-index arguments, also on wrappers nested one level; snapshot after every op; 35% of the "
        "classes carry a __validate__ hook (raises when a field equals one of <=4 listed values that the history tries to "
        "establish; the same predicate is the model's hookOk oracle); plus an oracle-only stream: classes over "
        "DateString/TimeString/DateField/DateTime/IPV4/HostName/JSONString/DecimalNumber/Optional fields (checks made after "
        "the value is stored), with and without _enable_undefined_value and a multi-field hook, assignments of 14 "
        "ill-typed / ill-formatted values; plus the extended stream (gen_cases_ext, own draws): the same classes with slice "
        "assignment / deletion (every combination of omitted / negative / out-of-range bounds and steps incl. 0), sort(key in "
        "{none, neg, abs, const}, reverse), wrapper references kept across operations (take / callRef / assignRef, stale or "
        "live, compared with the model after every op), the directed convert-then-hand-back pattern for converting item "
        "fields, format-checking string fields (DateString in two formats, TimeString, IPV4, HostName, JSONString; 62 pool "
        "strings + non-strings) as scalar and as Array items, and hooks of the family 'one of these fields must hold a value' "
        "with None-assignments / deletions that try to clear them; non-trivial = >=1 op; distinct by sha256 of the case line")
ASSUMPTIONS = [
    "plain ops re-fetch the field value through the instance; references the caller keeps are explicit operations of the machine (take / callRef / assignRef)",
    "in-place mutation of values handed out by reference by design (Set, Tuple elements, Anything, untyped Array/Map contents) is outside the claim",
    "__validate__ hooks are an oracle of the model (hookOk, universally quantified in the theorems); string format fields enter the model through the regex oracle (synthetic tokens answered by suites/formats.py); DateField/DateTime/DecimalNumber are exercised on the real code only (postcheck stream)",
]


def pre_build():
    from extract import wrappers
    wrappers.generate()


# ---- post-assignment checks outside the model (format checks made after the value is stored, the explicit-None
# bookkeeping of _enable_undefined_value classes, multi-field hooks): oracle-only cases built directly
POSTCHECK_FIELDS = ["datestring", "timestring", "date", "datetime", "email", "ipv4", "hostname", "json", "decimal",
                    "optional-int", "integer"]
POSTCHECK_VALID = {"datestring": "2020-01-31", "timestring": "10:20:30", "date": "2020-01-31", "datetime": "01/31/20 10:20:30",
                   "email": "a@b.com", "ipv4": "1.2.3.4", "hostname": "a.b.com", "json": "[1, 2]", "decimal": "1.5",
                   "optional-int": None, "integer": 3}
POSTCHECK_BAD = ["nope", "", 5, 1.5, [], {}, "2020-13-45", "25:61:00", "999.1.1.1", "a b", "{", None, "-", True]


def _postcheck_field(kind):
    import typedpy as T
    return {"datestring": lambda: T.DateString(), "timestring": lambda: T.TimeString(), "date": lambda: T.DateField(),
            "datetime": lambda: T.DateTime(), "email": lambda: T.String(pattern=T.EmailAddress.pattern), "ipv4": lambda: T.IPV4(),
            "hostname": lambda: T.HostName(), "json": lambda: T.JSONString(), "decimal": lambda: T.DecimalNumber(minimum=0),
            "optional-int": lambda: T.AnyOf[T.Integer(minimum=0), T.NoneField()], "integer": lambda: T.Integer(maximum=10)}[kind]()


def postcheck_cases(rng, n):
    out = []
    for ci in range(n):
        kinds = rng.sample(POSTCHECK_FIELDS, rng.randint(1, 3))
        ops = []
        for _ in range(rng.randint(2, 6)):
            k = rng.randrange(len(kinds))
            r = rng.random()
            if r < 0.65:
                ops.append(["set", k, rng.randrange(len(POSTCHECK_BAD))])
            elif r < 0.8:
                ops.append(["set-valid", k])
            elif r < 0.9:
                ops.append(["del", k])       # item deletion: of a set field, of an unset / explicitly-None one
            else:
                ops.append(["set", k, POSTCHECK_BAD.index(None)])
        out.append({"suite": "postcheck", "kinds": kinds, "ops": ops, "undefined": rng.random() < 0.4,
                    "hook": rng.random() < 0.3})
    return out


def run_postcheck(case):
    import typedpy as T
    body = {f"f{i}": _postcheck_field(k) for i, k in enumerate(case["kinds"])}
    body["_required"] = []
    if case["undefined"]:
        body["_enable_undefined_value"] = True
    if case["hook"]:
        def __validate__(self):
            # a multi-field invariant: the first field must not hold the "other" valid spelling
            if self.__dict__.get("f0") in ("2021-02-03", "11:11:11", "x@y.org", "9.9.9.9", "c.d.org", "{}", 7):
                raise ValueError("f0: rejected by __validate__")
        body["__validate__"] = __validate__
    try:
        cls = type("P", (T.Structure,), body)
        x = cls(**{f"f{i}": POSTCHECK_VALID[k] for i, k in enumerate(case["kinds"])})
    except Exception as e:
        return {"skip": f"{type(e).__name__}: {e}"[:200]}
    other_valid = {"datestring": "2021-02-03", "timestring": "11:11:11", "date": "2021-02-03", "datetime": "02/03/21 11:11:11",
                   "email": "x@y.org", "ipv4": "9.9.9.9", "hostname": "c.d.org", "json": "{}", "decimal": "2", "optional-int": 4,
                   "integer": 7}
    snap = lambda: (str(x), repr(sorted((k, repr(v)) for k, v in x.__dict__.items() if k not in ("_instantiated", "_trust_supplied_values"))))
    steps = []
    for op in case["ops"]:
        name = f"f{op[1]}"
        v = None if op[0] == "del" else POSTCHECK_BAD[op[2]] if op[0] == "set" else other_valid[case["kinds"][op[1]]]
        before = snap()
        try:
            if op[0] == "del":
                del x[name]
            else:
                setattr(x, name, v)
            out = "ok"
        except Exception as e:
            out = "KeyError" if isinstance(e, KeyError) and op[0] == "del" else type(e).__name__ if not isinstance(e, (TypeError, ValueError)) else ("TypeError" if isinstance(e, TypeError) and not isinstance(e, ValueError) else "ValueError")
        after = snap()
        steps.append({"kind": case["kinds"][op[1]] + (":del" if op[0] == "del" else ""), "v": repr(v)[:40], "out": out, "changed": before != after,
                      "before": before[0][:200], "after": after[0][:200]})
    return {"steps": steps}


def judge_postcheck(case, impl):
    fails = []
    for st in impl.get("steps", []):
        if st["out"] != "ok" and st["changed"]:
            fails.append((f"not-atomic:{'delitem' if st['kind'].endswith(':del') else 'setattr'}:{st['kind']}", f"assigning {st['v']} to a {st['kind']} field raised {st['out']} but changed the instance: "
                          f"{st['before']} -> {st['after']}"))
        if st["out"] not in ("ok", "TypeError", "ValueError") and not (st["out"] == "KeyError" and st["kind"].endswith(":del")):
            fails.append((f"error-class:setattr:{st['kind']}:{st['out']}", f"assigning {st['v']} to a {st['kind']} field raised {st['out']}"))
    return fails


def cases(rng, tier):
    return S.gen_cases(rng, tier, 500 if tier == "quick" else 6000, immutable=False) \
        + postcheck_cases(rng, 300 if tier == "quick" else 5000) + W.cases() + S.immhook_cases() \
        + S.gen_cases_ext(rng, tier, 350 if tier == "quick" else 4000, immutable=False) + S.headmin_cases()


def search_cases(rng, tier):
    return S.gen_cases(rng, "thorough", 500, immutable=False) + postcheck_cases(rng, 1000) \
        + S.gen_cases_ext(rng, "thorough", 300, immutable=False)


def _p(case):
    return case.get("suite") == "postcheck"


def _w(case):
    return case.get("suite") == "wrappedcoll"


def run_impl(case):
    if _w(case):
        return W.run_impl(case)
    return run_postcheck(case) if _p(case) else S.run_impl(case)


def line(case, impl):
    return None if _p(case) or _w(case) else S.line(case, impl)


def tags(case, impl, model):
    if _w(case):
        return ["stream:wrappedcoll", "wrapped:" + case["shape"]] + [f"wrapped-op:{s['op']}:{s['out']}" for s in impl.get("steps", [])]
    if _p(case):
        return ["stream:postcheck"] + [f"postcheck:{s['kind']}:{s['out']}" for s in impl.get("steps", [])]
    return S.tags(case, impl, model) + (["hooked"] if case.get("hook") else [])


def nontrivial(case):
    return True if _p(case) or _w(case) else S.nontrivial(case)


def describe(case, impl, model):
    if _w(case):
        return {"wrappedcoll": case, "steps": impl.get("steps")}
    return {"postcheck": case, "steps": impl.get("steps")} if _p(case) else S.describe(case, impl, model)


def judge(case, impl, model):
    if _w(case):
        return None, W.judge(case, impl)
    if _p(case):
        return None, judge_postcheck(case, impl)
    msg = S.correspondence(case, impl, model)
    fails = []
    if "unbuildable" in impl or "abstraction_mismatch" in impl:
        return msg, fails
    prev = impl["start"]
    wf = model.get("implWf", [])
    taken = []     # the field each kept reference (successful take) is bound to
    for i, (op, st) in enumerate(S.kept_steps(case, impl)):
        if op["op"] == "callRef" and op["i"] < len(taken) and taken[op["i"]]:
            op = dict(op, f=taken[op["i"]])
        site = S.op_site(case, op)
        dead_ref = op["op"] in ("callRef", "assignRef") and (op["i"] >= len(taken) or not taken[op["i"]])
        if op["op"] == "take":
            taken.append(op["f"] if st["out"] == "ok" else None)
        if st["out"] == "ok":
            # wf[0] is the start state; blame an op only if the state before it was well-formed
            if i + 1 < len(wf) and wf[i] and not wf[i + 1]:
                fails.append((f"unvalidated:{site}",
                              f"{json.dumps(op)[:200]} succeeded and left the instance invalid: " + json.dumps(st["state"])[:300]))
            # the class's own __validate__ hook (generated: raises when a listed field holds a listed value) must accept
            # the state every successful operation leaves behind
            held = _hook_rejects(case.get("hook"), st["state"], case.get("hookNeed"), case.get("hookHeadMin"))
            if held and not _hook_rejects(case.get("hook"), prev, case.get("hookNeed"), case.get("hookHeadMin")):
                fails.append((f"unvalidated:hook:{site}",
                              f"{json.dumps(op)[:200]} succeeded although the class's __validate__ hook rejects the resulting instance "
                              f"({held[0]} == {json.dumps(held[1])[:80]}): " + json.dumps(st["state"])[:300]))
        else:
            if dump.canon(st["state"]) != dump.canon(prev):
                fails.append((f"not-atomic:{site}",
                              f"{json.dumps(op)[:200]} raised {st['out']} but changed the instance: before "
                              + json.dumps(prev)[:200] + " after " + json.dumps(st["state"])[:200]))
            if st["out"] == "AttributeError" and op["op"] != "setattr" and not _field_set(prev, op["f"]):
                pass    # the field is not set: there is no value to apply the operation to (not in the claim)
            elif st["out"] == "AttributeError" and op["op"] == "call" and not _holds_collection(prev, op["f"]):
                pass    # an AnyOf field currently holding a scalar: the value exposes no such method (not in the claim)
            elif st["out"] == "AttributeError" and op["op"] == "take":
                pass    # nothing to take a reference to (harness-raised: field unset / holds no wrapper)
            elif st["out"] == "AttributeError" and dead_ref:
                pass    # no such reference (harness-raised)
            elif st["out"] == "AttributeError" and "m" in op and _no_such_method(site):
                pass    # the native type has no such mutator (deque.sort): nothing was attempted
            elif st["out"] not in S.ALLOWED_ERRORS:
                fails.append((f"error-class:{site}", f"{json.dumps(op)[:200]} raised {st['out']}: {st.get('msg')}"))
        prev = st["state"]
    return msg, fails


def _no_such_method(site):
    kind, _, m = site.rpartition("-")[2].partition(".")
    tbl = S.table()
    return kind in tbl and m not in tbl[kind]


def _hook_rejects(hooks, state, need=None, head_min=None):
    for f in head_min or []:
        for k, cur in state["o"][1]:
            if k == f and isinstance(cur, dict) and not S._wire_head_min_ok(cur):
                return (f, "<the first element is not the smallest>")
    return _hook_rejects0(hooks, state, need)


def _hook_rejects0(hooks, state, need=None):
    for f, v in hooks or []:
        for k, cur in state["o"][1]:
            if k == f and cur is not None and dump.canon(cur) == dump.canon(v):
                return (f, v)
    for group in need or []:
        if not any(k in group and cur is not None for k, cur in state["o"][1]):
            return (group[0], "<none of " + ",".join(group) + " holds a value>")
    return None


def _holds_collection(state, name):
    return any(k == name and isinstance(v, dict) and any(t in v for t in ("l", "q", "m")) for k, v in state["o"][1])


def _field_set(state, name):
    return any(k == name and v is not None for k, v in state["o"][1])
