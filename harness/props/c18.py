"""C18 — rejections name the offending field; collect-all mode reports all invalid ones."""
from ..suites import errors as S

ID = "C18"
SUITE = "errors"
LEAN_TARGETS = ["TypedpyModel.Props.C18", "TypedpyModel.Audit.C18"]
AUDIT = "C18"
THEOREMS = [
    "Typedpy.C18.field_chars_necessary", "Typedpy.C18.render_parse_exact", "Typedpy.C18.render_parse",
    "Typedpy.C18.render_parse_gotFirst", "Typedpy.C18.empty_problem_example",
    "Typedpy.C18.newline_value_keeps_field", "Typedpy.C18.newline_problem_keeps_field",
    "Typedpy.C18.semicolon_value_demoted", "Typedpy.C18.non_ascii_name_keeps_field",
    "Typedpy.C18.non_word_name_loses_field", "Typedpy.C18.combining_mark_name_keeps_field", "Typedpy.C18.pyFieldWord_sound", "Typedpy.C18.non_identifier_class_name_loses_field",
    "Typedpy.C18.deser_foreign_texts_no_field", "Typedpy.C18.transform_examples",
    "Typedpy.C18.readable_raises_iff", "Typedpy.C18.readable_total",
    "Typedpy.C18.readable_total_on_rejections", "Typedpy.C18.readable_raises_example",
    "Typedpy.C18.collect_all_exact", "Typedpy.C18.fail_fast_member", "Typedpy.C18.statement_partial",
    "Typedpy.C18.statement_false", "Typedpy.C18.construct_example", "Typedpy.C18.phase_one_scalar_sound",
    "Typedpy.C18.phase_one_float_spelling", "Typedpy.C18.phase_one_float_int_examples",
    "Typedpy.C18.deser_collect_exact_iff", "Typedpy.C18.two_phase_example", "Typedpy.C18.p1Site_isSome",
    "Typedpy.C18.p1_names_own_field", "Typedpy.C18.p1Sites_name_fields",
    "Typedpy.C18.mapped_sites_name_fields", "Typedpy.C18.mapped_example", "Typedpy.C18.stale_shared_inner_name_example",
    "Typedpy.C18.set_build_site_examples",
    "Typedpy.C18.c18_startsWith_append",
    "Typedpy.C18.c18_startsWith_self",
    "Typedpy.C18.c18_startsWith_trans",
    "Typedpy.C18.dWrapIdx_starts",
    "Typedpy.C18.dWrapMap_starts",
    "Typedpy.C18.dHeadEntries_starts",
    "Typedpy.C18.dHeadZip_starts",
    "Typedpy.C18.dHeadListLike_starts",
    "Typedpy.C18.dHead_starts",
    "Typedpy.C18.isFlat_not_classRef",
    "Typedpy.C18.p1SiteD_names_own_field",
    "Typedpy.C18.p1SiteD_never_nested",
    "Typedpy.C18.p1SiteD_isSome",
    "Typedpy.C18.p1SitesD_name_fields",
    "Typedpy.C18.scalar_is_path",
    "Typedpy.C18.all_scalar_is_path",
    "Typedpy.C18.flat_is_path",
    "Typedpy.C18.statementDeep_implies_statement",
    "Typedpy.C18.statementDeep_false",
    "Typedpy.C18.statement_deep_partial",
    "Typedpy.C18.deep_path_examples",
    "Typedpy.C18.deep_deser_head_examples",
    "Typedpy.C18.firstBad_spec",
    "Typedpy.C18.badOf_spec",
    "Typedpy.C18.locSeqLike_cases",
    "Typedpy.C18.firstBadEntry_spec",
    "Typedpy.C18.locSet_cases",
    "Typedpy.C18.locMap_cases",
    "Typedpy.C18.points_here",
    "Typedpy.C18.locate_sound",
    "Typedpy.C18.locateZip_sound",
    "Typedpy.C18.locateAll_sound",
    "Typedpy.C18.sites_point_at_rejections",
    "Typedpy.C18.locate_sound_example",
    "Typedpy.C18.firstBad_min",
    "Typedpy.C18.locate_seqOf_first",
    "Typedpy.C18.all_alnum_fieldChars",
    "Typedpy.C18.derive_pre_alnum",
    "Typedpy.C18.derived_name_identOk",
    "Typedpy.C18.derived_class_statement",
    "Typedpy.C18.bracket_class_name_loses_field",
    "Typedpy.C18.splitLast_none_of_noOcc",
    "Typedpy.C18.splitLast_prepend",
    "Typedpy.C18.splitLast_cons_none",
    "Typedpy.C18.splitLast_semiGot_base",
    "Typedpy.C18.m23tail_gotLast_exact",
    "Typedpy.C18.render_parse_gotLast",
    "Typedpy.C18.render_parse_plain",
    "Typedpy.C18.render_parse_inverts",
    "Typedpy.C18.unclean_texts_examples",
    "Typedpy.C18.noSemi_quoteStr",
    "Typedpy.C18.dropPre_none_snoc",
    "Typedpy.C18.noOcc_snoc",
    "Typedpy.C18.noOcc_quoteStr",
    "Typedpy.C18.str_value_roundtrip",
    "Typedpy.C18.typedpy_problem_good",
    "Typedpy.C18.templates_wellFormed",
    "Typedpy.C18.fixed_templates_examples",
    "Typedpy.C18.isOk_dValidated",
    "Typedpy.C18.isOk_toValueErr",
    "Typedpy.C18.isOk_mapE",
    "Typedpy.C18.p1Scalar_eq_deser",
    "Typedpy.C18.p1_elems_eq_deser",
    "Typedpy.C18.p1Rejects_homog_eq_deser",
    "Typedpy.C18.p1SiteD_top",
    "Typedpy.C18.deep_phase_one_sound",
    "Typedpy.C18.deserInvalid_nil_ctorOnly",
    "Typedpy.C18.two_phase_deep_example",
    "Typedpy.C18.fixed_nested_structure_examples",
    "Typedpy.C18.p1SitesD_tops",
    "Typedpy.C18.wrapper_path_examples",
]
RULE = ("flat classes (1..5 fields: Integer/Number/Float incl. sign variants, String, Boolean, Enum, and Array/Deque/"
        "Set/Tuple/Map over them) from the type-directed declaration generator; per class a valid argument set, then "
        "EVERY non-empty subset of <=3 fields (sampled subsets for 4..5) made invalid by: another Python type, a "
        "boundary neighbour of a bound, a corrupted element / key / value, a payload string containing ';', newline, "
        "': ', quotes, '; Got ', trailing newline, non-ASCII, JSON text; each argument set run through the constructor "
        "and through Deserializer.deserialize under fail_fast on and off (global restored and checked); plus "
        "hand-written cases pinning every known finding, plus nested classes (helpers must not raise), plus a directed "
        "stream: every bounded scalar kind (numbers in int AND float spelling, strings) bare and as element of every "
        "collection kind, violated alone and with 1-2 further invalid fields, through the constructor, "
        "Deserializer.deserialize and deserialize_structure, fail_fast on/off; plus a shared-instance / history stream: "
        "ONE item Field instance shared by 2-3 collection fields (Array/Deque/Set/Tuple/Map key/Map value), with no / one / "
        "two earlier successful constructions or deserializations in the same process, then a bad element (out of "
        "bounds, ill-typed, unhashable list/dict, None) in one or two fields; the random stream also gets histories, "
        "shared instances and unhashable elements; plus a mapper stream: key-renaming mappers (class dict _serialization_/"
        "_deserialization_mapper, TO_LOWERCASE, TO_CAMELCASE, Deserializer/deserialize_structure(mapper=), "
        "camel_case_convert) on classes of collections / Enum / scalars (modelled: docOfMapped) and AnyOf / nested "
        "(oracle only), two-word snake_case field names, document written under the document keys; "
        "each judged call also after an earlier deserialization of the SAME class object under the other setting of "
        "camel_case_convert / mapper override / keep_undefined / fail-fast (valid document); an invalid input that "
        "raises nothing is a failure (invalid-input-accepted); formerly: "
        "shared instances and unhashable elements with p~0.3. Compared: phase one of deserialization "
        "(Lean `phaseOneInvalid` vs the real deserialize_single_field, field by field; Lean `p1Sites` — exception class, "
        "count/order, and the text every message must begin with given the OBSERVED scratch `_name`s of the inner Field "
        "instances — vs the real message(s); when phase one rejects nothing, the constructor model on the lifted arguments); "
        "model exception class / class prefix / path / shape vs str(exception); model parse vs the real ErrorInfo(s). "
        "Oracle: the property statement on the real results with the invalid set computed by Lean `validate`. "
        "Plus a DEEP stream: classes whose fields are collections nested 2..3 levels (every combination of Array/Deque/Tuple/Set/Map, homogeneous "
        "and positional) over scalars and nested structures (class references anywhere; inline StructureReference as direct fields only - inside "
        "collections an inline structure is deserialized without the aggregated mapper and a null field becomes a value: a region of the `deser` "
        "model kept out), collections of class references, top-level nested-structure fields, and AnyOf / OneOf / AllOf / NotField over "
        "scalars and collections (as a field or as the item of a collection); ONE position at a random depth of one or two "
        "fields made invalid (boundary neighbour of the declaration AT that position, payload text, other type); constructor and both "
        "deserialization entry points, fail-fast on/off; compared: the full suffix chain (Lean `locate`), deser accept/reject + exception class "
        "(Lean `deser` on the definition-order class dump), the head every message must begin with (Lean `dHead`); oracle additionally: the path "
        "names the rejected POSITION (wrong-position:suffix-chain). Plus a CLASS-NAME stream: classes used directly and through Partial / "
        "AllFieldsRequired / Extend / Omit / Pick (without / with explicit name), a subclass of a derived class, a local class (__qualname__ != "
        "__name__), and type() classes with unusual names (digits, underscores, dots, non-ASCII letters; combining mark, space, '-', '[' = the "
        "finding's region); whether a derived class's NAME stays in the field group is the model's prediction (Lean `derivedName`; a harmless "
        "renaming is no alarm), a non-word character that no user-chosen name contains is a separate failure "
        "(field-lost:non-word-name:generated-class-name).")
ASSUMPTIONS = [
    "Python's json module is an oracle (Codec): the only law assumed in theorems is loads(dumps(xs)) = xs on lists of strings (explicit hypothesis); the driver instantiates it with Lean.Data.Json",
    "the field group of errors.py, (?:[\\w.]|[^\\x00-\\x7f\\s])+ since 18c6055, is fully modelled (Lean pyFieldWord: ASCII letters/digits, '_', '.', every non-ASCII character that is not Python white space); theorems stay parametric in a `Word` W of which only the ASCII part and W ':' = false are assumed",
    "value and problem TEXTS are universally quantified parameters of the model (not predicted); the driver reads them off the real message; predicted are exception class, class prefix, path, suffix, shape, order and count",
    "deserialization: which supplied fields its first phase rejects (phaseOneInvalid) and where / under which leading path each rejection is raised (p1Sites: named / inner / foreign) are modelled and corresponded; the scratch `_name` of every inner Field instance is an INPUT of the model, observed by the harness just before the call; value / problem texts after the head are not predicted. The oracle accepts a known finding only at the site kind where the Lean model places it (never by message text, never by probing the code under test)",
    "PYTHONHASHSEED=0; the class dump lists fields in the real signature order",
    "deserialization of classes outside the flat domain: accept / reject, exception class and the deserialized constructor arguments come from Lean `deser` (Sem/Deser.lean) run on the class dump in DEFINITION order (the order construct_fields_map visits fields at every level); the heads (`dHead`) are the scratch-independent wrapper guarantees; keep_undefined is passed as the entry point passes it",
    "the theorems' hypothesis on texts (`goodTexts`: non-empty problem where the shape puts it, not starting with 'G' / ';') is checked on every real constructor message; membership of the problem text in typedpy's templates ('Expected …', 'Does not match regular expression: …') is recorded as evidence only, so a harmless rewording is not an alarm",
    "class names: the message heads carry the real class name; for classes typedpy derives (Partial / AllFieldsRequired / Extend / Omit / Pick) the Lean model `derivedName` predicts whether the name stays in [\\w.]+ and only that abstraction is compared",
]
TRUSTED_EXTRA = [
    "harness/suites/errors.py: to_doc / lift (document <-> constructor-argument correspondence for flat fields), names_field (path-names-field relation) and the finding classifier",
]


def cases(rng, tier):
    return S.gen_cases(rng, tier)


def search_cases(rng, tier):
    return S.gen_cases(rng, "thorough" if tier == "thorough" else "quick")


run_impl = S.run_impl
line = S.line
tags = S.tags
nontrivial = S.nontrivial
describe = S.describe


def judge(case, impl, model):
    if "unbuildable" in impl:
        return None, []
    if "abstraction_mismatch" in impl:
        import json
        return "dump(build(decl)) != decl: " + json.dumps(impl["abstraction_mismatch"])[:800], []
    msg = None
    if case.get("via") and model.get("clsNameWordModel") is not None and \
            model.get("clsNameWordModel") != model.get("clsNameWordReal"):
        msg = (f"class name: typedpy calls the class {impl.get('cls_name_real')!r} (in [\\w.]+: {model.get('clsNameWordReal')}), "
               f"the model (Lean derivedName) {model.get('clsNameModel')!r} (in [\\w.]+: {model.get('clsNameWordModel')}) "
               f"for {case['via']} of {case['cls']['name']!r}")
    if case["mode"] == "construct" and (model.get("flat") or model.get("path")):
        msg = msg or S.construct_correspondence(case, impl, model)
    if case["mode"] == "deser" and (model.get("flat") or model.get("path")):
        msg = msg or S.deser_correspondence(case, impl, model)
    msg = msg or S.readable_correspondence(impl, model)
    return msg, S.oracle(case, impl, model)
