"""C09 — schema-to-code output always executes and is equivalent to the schema (partial)."""
from ..suites import schemacode as S

ID = "C09"
SUITE = "schemacode"
LEAN_TARGETS = ["TypedpyModel.Props.C09", "TypedpyModel.Audit.C09"]
AUDIT = "C09"
THEOREMS = [
    "Typedpy.C09.repr_safe",
    "Typedpy.C09.reprSites_faithful",
    "Typedpy.C09.reprSitesL_faithful",
    "Typedpy.C09.reprSitesKV_faithful",
    "Typedpy.C09.enum_site_faithful",
    "Typedpy.C09.required_site_faithful",
    "Typedpy.C09.pattern_site_faithful",
    "Typedpy.C09.default_site_faithful",
    "Typedpy.C09.description_safe",
    "Typedpy.C09.description_site_faithful",
    "Typedpy.C09.unescaped_description_nul",
    "Typedpy.C09.description_statement_false",
    "Typedpy.C09.defaultsSites_faithful",
    "Typedpy.C09.all_sites_faithful",
    "Typedpy.C09.all_sites_faithfulL",
    "Typedpy.C09.all_sites_faithfulP",
    "Typedpy.C09.hostile_examples",
    "Typedpy.C09.schemaToDecl_inverse",
    "Typedpy.C09.schemaToClass_inverse",
    "Typedpy.C09.schemaToDef_inverse",
    "Typedpy.C09.canonReq_mem",
    "Typedpy.C09.rho0_classes",
    "Typedpy.C09.roundtrip_counterexample_default_required",
    "Typedpy.C09.roundtrip_counterexample_required_absent",
    "Typedpy.C09.roundtrip_counterexample_single_field",
    "Typedpy.C09.roundtrip_statement_false",
    "Typedpy.C09.refName_refOf",
    "Typedpy.C09.ref_roundtrip",
    "Typedpy.C09.refName_examples",
    "Typedpy.C09.required_not_mutated",
    "Typedpy.C09.emitted_required_example",
    "Typedpy.C09.roundtrip_example",
    "Typedpy.C09.expr_tokens",
    "Typedpy.C09.expr_parses",
    "Typedpy.C09.field_code_wf",
    "Typedpy.C09.nat_literal",
    "Typedpy.C09.emitted_module_tokens",
    "Typedpy.C09.emitted_module_accepted_partial",
    "Typedpy.C09.exOra_ok",
    "Typedpy.C09.counterexample_name_not_identifier",
    "Typedpy.C09.counterexample_description_nul",
    "Typedpy.C09.always_compiles_statement_false",
    "Typedpy.C09.accepted_example",
]
RULE = ("schemas from a recursive generator over the keyword set (type, properties, required, additionalProperties, "
        "items as schema/list, uniqueItems, additionalItems, min/max*, multiplesOf, pattern, enum, allOf/anyOf/oneOf/not, "
        "$ref into 0-3 ordered definitions, default, description), depth <= 3/4; definition and class names from a pool of "
        "identifiers whose heads cover every letter of '#/definitions/' (d e f i n t o s), other lower/upper-case letters, digits and "
        "underscores inside, names that are prefixes/suffixes of one another; a directed stream of 44 cases: every head letter x "
        "every position a $ref can stand in (property, items, positional items, combinator member, map value, nested object, "
        "definition-to-definition); string payloads for pattern / enum / "
        "default / description drawn from plain + hostile pieces (quotes, backslashes, escape-looking sequences, raw "
        "newline / CR / tab, triple quotes, non-ASCII incl. non-printable) with hostile probability 0/0.1/0.3; a fixed "
        "list of the known-finding schemas; through schema_to_struct_code + schema_definitions_to_code or "
        "write_code_from_schema (temp file under work/); per executable class up to 60 boundary documents, one property "
        "varied at a time around a validator-accepted base document; non-trivial = has pattern/enum/default/$ref/"
        "description or > 120 chars, distinct by sha256 of the case")
ASSUMPTIONS = [
    "partial: whether the whole emitted module compiles is decided by CPython's parser at run time; the model carries the lexing of the string literals only",
    "lexer model: \\N{name} escapes and escapes denoting lone surrogates are not modelled (generators avoid them); str.isprintable for non-ASCII characters is an oracle supplied per case",
    "property names are identifiers that are not Python keywords and do not start with an underscore",
    "numeric keywords: integers and dyadic floats (exact in decimal); multiplesOf is a positive int",
    "schemas are in typedpy's dialect (multiplesOf, not:[...]); the independent validator sees the two-rule dialect fix",
    "additionalItems on an array whose items is a single schema or absent has no counterpart in the model's declarations (no runtime effect): the Lean round-trip theorems abstract from it, the executed round-trip oracle compares it literally (true and false); " 
    "comparison of schemas is up to key order, required order and draft-4 default-valued keywords (exclusiveMaximum/uniqueItems false, additionalItems true, absent additionalProperties = true); description is compared through __doc__",
    "uniqueItems documents: for every uniqueItems array (directly, as array items, map values or nested-object properties, wrapped <= 2 deep; also after a positional prefix) element pairs that are JSON-equal but spelled differently (int vs float in nested arrays/objects, permuted object keys), JSON-different but Python-equal (true vs 1), identical and genuinely different; the draft-4 verdict decides; uniqueItems over Structure elements ($ref / properties) stays excluded", 
    "exact sub-fragment additionally excludes: defaults, unanchored patterns, enum members that are bool-like or equal across types (True == 1 == 1.0), multiplesOf on number, wrapped (non-object) top-level schemas, allOf/anyOf/oneOf/not over object / map / $ref members (deserialization of structured options is C06); document domain: deviations on null, bool-for-number, 'True'/'False' strings, short positional arrays and undeclared keys are keyed phenomena (known findings exact:*)",
]


def cases(rng, tier):
    return S.gen_cases(rng, tier, 3000 if tier == "quick" else 30000)


def search_cases(rng, tier):
    return S.gen_cases(rng, "thorough", 1500)


run_impl = S.run_impl
line = S.line
tags = S.tags
nontrivial = S.nontrivial
describe = S.describe
judge = S.judge
