"""C09 — schema-to-code output always executes and is equivalent to the schema (partial)."""
from ..suites import schemacode as S

ID = "C09"
SUITE = "schemacode"
LEAN_TARGETS = ["TypedpyModel.Props.C09", "TypedpyModel.Audit.C09"]
AUDIT = "C09"
THEOREMS = [
    "Typedpy.C09.repr_safe",
    "Typedpy.C09.reprSites_faithful",
    "Typedpy.C09.reprSitesL_faithful",
    "Typedpy.C09.reprSitesKV_faithful",
    "Typedpy.C09.enum_site_faithful",
    "Typedpy.C09.required_site_faithful",
    "Typedpy.C09.pattern_site_faithful",
    "Typedpy.C09.default_site_faithful",
    "Typedpy.C09.description_safe",
    "Typedpy.C09.description_site_faithful",
    "Typedpy.C09.fixed_description_nul",
    "Typedpy.C09.description_statement_holds",
    "Typedpy.C09.defaultsSites_faithful",
    "Typedpy.C09.all_sites_faithful",
    "Typedpy.C09.all_sites_faithfulL",
    "Typedpy.C09.all_sites_faithfulP",
    "Typedpy.C09.hostile_examples",
    "Typedpy.C09.schemaToDecl_inverse",
    "Typedpy.C09.schemaToClass_inverse",
    "Typedpy.C09.schemaToDef_inverse",
    "Typedpy.C09.canonReq_mem",
    "Typedpy.C09.rho0_classes",
    "Typedpy.C09.roundtrip_counterexample_default_required",
    "Typedpy.C09.roundtrip_counterexample_required_absent",
    "Typedpy.C09.roundtrip_counterexample_single_field",
    "Typedpy.C09.roundtrip_statement_false",
    "Typedpy.C09.refName_refOf",
    "Typedpy.C09.ref_roundtrip",
    "Typedpy.C09.refName_examples",
    "Typedpy.C09.required_not_mutated",
    "Typedpy.C09.emitted_required_example",
    "Typedpy.C09.roundtrip_example",
    "Typedpy.C09.expr_tokens",
    "Typedpy.C09.expr_parses",
    "Typedpy.C09.field_code_wf",
    "Typedpy.C09.nat_literal",
    "Typedpy.C09.emitted_module_tokens",
    "Typedpy.C09.emitted_module_accepted_partial",
    "Typedpy.C09.exOra_ok",
    "Typedpy.C09.counterexample_name_not_identifier",
    "Typedpy.C09.fixed_description_nul_module",
    "Typedpy.C09.always_compiles_statement_false",
    "Typedpy.C09.accepted_example",
    "Typedpy.C09.field_code_nesting",
    "Typedpy.C09.emitted_module_nesting",
    "Typedpy.C09.counterexample_extra_key_dropped",
    "Typedpy.C09.counterexample_unique_bool_vs_int",
    "Typedpy.C09.counterexample_cyclic_refs",
    "Typedpy.C09.exported_schema_is_source",
    "Typedpy.C09.admitted_is_accepted_partial",
    "Typedpy.C09.counterexample_bool_as_number",
    "Typedpy.C09.counterexample_bool_string",
    "Typedpy.C09.counterexample_short_positional_array",
    "Typedpy.C09.counterexample_null_optional",
    "Typedpy.C09.exactness_statement_false",
    "Typedpy.C09.admitted_is_accepted_example",
    "Typedpy.C09.emitted_module_clean",
    "Typedpy.C09.definitions_defined_before_use",
    "Typedpy.C09.counterexample_dict_order_forward_ref",
]
RULE = ("schemas from a recursive generator over the keyword set (type, properties, required, additionalProperties, "
        "items as schema/list, uniqueItems, additionalItems, min/max*, multiplesOf, pattern, enum, allOf/anyOf/oneOf/not, "
        "$ref into 0-3 ordered definitions, default, description), depth <= 3/4; definition and class names from a pool of "
        "identifiers whose heads cover every letter of '#/definitions/' (d e f i n t o s), other lower/upper-case letters, digits and "
        "underscores inside, names that are prefixes/suffixes of one another; a directed stream of 44 cases: every head letter x "
        "every position a $ref can stand in (property, items, positional items, combinator member, map value, nested object, "
        "definition-to-definition); string payloads for pattern / enum / "
        "default / description drawn from plain + hostile pieces (quotes, backslashes, escape-looking sequences, raw "
        "newline / CR / tab, triple quotes, non-ASCII incl. non-printable) with hostile probability 0/0.1/0.3; a fixed "
        "list of the known-finding schemas, of names that are not Python names and of annotation keywords whose text would be "
        "class-body code; annotation keywords (description / title / $comment / examples) at every sub-schema and on definitions with "
        "plain / hostile payloads (line breaks + indented statements, quotes, '#'); with p_odd property / definition names that are not "
        "identifiers (keywords, hyphens, digits first, __debug__, '#', '.', line break); through schema_to_struct_code + schema_definitions_to_code or "
        "write_code_from_schema (temp file under work/); per executable class up to 60 boundary documents, one property "
        "varied at a time around a validator-accepted base document; per case 4 mutants of the generated source (token deleted / "
        "duplicated / swapped, quote flipped, indentation changed, line break removed or inserted) for the recogniser-vs-compile tie; "
        "non-trivial = has pattern/enum/default/$ref/"
        "description or > 120 chars, distinct by sha256 of the case")
ASSUMPTIONS = [
    "recogniser (Sem/PyGram.lean): a hand-written model of CPython's tokenizer / parser for the emitted subset, three-valued; 'unknown' (no claim) for other operators and keywords, tabs, backslash continuations, string prefixes, \'\'\' literals, escapes the literal model does not decide, non-ASCII characters that are not identifier characters; bracket nesting above 200 is rejected (CPython's MAXLEVEL)",
    "oracles supplied per case: str.isprintable and str.isidentifier on non-ASCII characters, repr(float) (checked by the driver to be a decimal literal); the acceptance theorem is relative to these oracles (identOk X)",
    "lexer model of string literals: \\N{name} escapes and escapes denoting lone surrogates are not modelled (generators avoid them)",
    "property names in the proved region are identifiers that are not Python keywords, not __debug__, not name-mangled (__x) and do not start with an underscore; other names are generated on purpose and keyed compile:/exec:/roundtrip:name-not-identifier",
    "numeric keywords: integers and dyadic floats (exact in decimal); float-valued bounds are not integral; multiplesOf is a positive int",
    "schemas are in typedpy's dialect (multiplesOf, not:[...], minItems/maxItems on objects read, minProperties/maxProperties written); the independent validator sees the two-rule dialect fix",
    "the model's AST normalises draft-4 default-valued keywords (exclusiveMaximum / uniqueItems false, additionalItems true, additionalProperties true) and ignores annotation keywords and defaults below property level: the text comparison runs the real generator on the canonical form (canon_schema, the Python mirror of Schema.ofJson)",
    "additionalItems on an array whose items is a single schema or absent has no counterpart in the model's declarations (no runtime effect): the Lean round-trip theorems abstract from it, the executed round-trip oracle compares it literally (true and false); "
    "comparison of schemas is up to key order, required order, annotation keywords and draft-4 default-valued keywords; description is compared through __doc__",
    "uniqueItems documents: for every uniqueItems array (directly, as array items, map values or nested-object properties, wrapped <= 2 deep; also after a positional prefix) element pairs that are JSON-equal but spelled differently (int vs float in nested arrays/objects, permuted object keys), JSON-different but Python-equal (true vs 1), identical and genuinely different; the draft-4 verdict decides; uniqueItems over Structure elements ($ref / properties) stays excluded",
    "exact sub-fragment of the executed oracle additionally excludes: defaults, unanchored patterns, enum members that are bool-like or equal across types (True == 1 == 1.0), multiplesOf on number, wrapped (non-object) top-level schemas, allOf/anyOf/oneOf/not over object / map / $ref members (deserialization of structured options is C06); document domain: deviations on null, bool-for-number, 'True'/'False' strings, short positional arrays and undeclared keys are keyed phenomena (known findings exact:*)",
    "where the source of the generator moved from the pinned tree (extract/srcpins.py) a text difference alone is not an alarm",
]


def cases(rng, tier):
    return S.gen_cases(rng, tier, 3000 if tier == "quick" else 30000)


def search_cases(rng, tier):
    return S.gen_cases(rng, "thorough", 1500)


run_impl = S.run_impl
line = S.line
tags = S.tags
nontrivial = S.nontrivial
describe = S.describe
judge = S.judge
