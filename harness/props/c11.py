"""C11 — equality, hash, copy, deepcopy and pickle are mutually coherent."""
import json
import re

from ..suites import pairs as P
from ..suites import mutate as S

ID = "C11"
SUITE = "pairs"
LEAN_TARGETS = ["TypedpyModel.Props.C11", "TypedpyModel.Audit.C11"]
AUDIT = "C11"
THEOREMS = re.findall(r"#print axioms (\S+)", open(__file__.rsplit("/harness/", 1)[0] + "/lean/TypedpyModel/Audit/C11.lean").read())
RULE = ("classes: (a) the mutate suite's collection-heavy classes with its op histories, (b) classes rich in fields "
        "whose equal values have several spellings (Number/Anything/Set/Map/nested Set and Map/Tuple/Deque/inline and "
        "referenced structures), mutable, immutable and with immutable fields; per class 3 valid keyword sets, each "
        "expanded to a triple: the instance, an ==-preserving respelling (int/float/bool/Decimal spellings of one "
        "number, reversed/shuffled Set and Map insertion orders incl. colliding ints such as {0, 8} vs {8, 0}, keyword "
        "order), and a second respelling / respelling of the respelling / single-field perturbation / independent "
        "instance; real ==, !=, hash, set and dict-key collapse, membership on all ordered pairs; copy.copy, "
        "copy.deepcopy, pickle round trip (classes registered by name for the duration of the case) of the first "
        "instance; history of <=5 (quick) / <=12 (thorough) ops (setattr valid|invalid|None, del, every wrapper mutator) "
        "on the deep copy, on the unpickled copy, on a fresh twin and on the original, fingerprint (dump, hash, str, "
        "serialization) of the other instance after every op; deep alias probe: every native mutator / setattr / del on every "
        "object reachable (depth 3) from the copy resp. the original, the other instance must keep its fingerprint; "
        "assignments and deletions on copy.copy(x) vs a fresh twin; classes with _enable_undefined_value (20% of the "
        "spelling classes, 12% of the mutate classes, plus a directed stream of small mostly-optional classes): triples with "
        "different subsets of optional fields left unset / explicitly None in random order (both operand orders are compared), "
        "histories with x.f = None / re-assignment / None over a stored value; the first instance after its history joins the "
        "comparison matrix; Float positions (bare, in Array/Deque/Tuple/Map) given ints and floats — a number-type difference at a "
        "position declared Float is keyed @float-field, apart from the known eq-not-hash family; sequences of tuples holding "
        "lists / dicts / structures (depth-3 alias probe); on half of the cases a chain of 2-3 copy operations "
        "(copy/deepcopy/pickle in any order) whose every link must succeed and whose result must == x (model: composition of "
        "copyI/deepcopyI/pickleI); an oracle-only stream of classes with Constant attributes (not in the model's declaration "
        "language): same measurements on the real code, assignment to the constant on fresh instance and copies; a copy "
        "operation that raises anything but a can't-pickle error is a failure; typed wrappers nested at depth >= 2 below a Map / Array (Map->Array->leaf, "
        "Map->Deque->leaf, Map->Map->leaf, Array->Map->Array->leaf ..., every level non-empty) with Structure or untyped "
        "mutable leaves; the alias probe walks 5 levels and also makes a VALID assignment to every scalar attribute of each "
        "leaf structure; fields with defaults (0, 0.0, '', False, [], {}, and truthy ones) on 30% of the "
        "spelling classes plus a directed stream (plain / immutable / _enable_undefined_value / _ignore_none): default left "
        "to apply vs the same value passed explicitly vs assigned later vs explicit None; a defaulted field absent from "
        "__dict__ is keyed by how it came to be absent (@explicit-none, @post-history known; @constructor is not); wrapper "
        "calls on an unset field are not executed (they would edit the class-level default object); two fixed cases: __validate__ hook after unpickling, "
        "Decimals with different exponents; additional (undeclared) attributes with unusual names (leading underscore, dunder-like, sunder, "
        "method names, digits) on every 4th open-class case, carried through copy / deepcopy / pickle and chains (modelled), and assigned "
        "after construction on closed classes (sunder / dunder names: real-code oracle only); heap cases: the object graph of every 2nd "
        "case (quick) copied / deep-copied / pickled as a whole and wrapper by wrapper, compared with Sem/AliasC11.lean by identity; "
        "non-trivial = >=2 instances or a heap case; distinct by sha256 of the case line")
ASSUMPTIONS = [
    "_enable_undefined_value is modelled for the top-level class only (Inst.nones / Inst.undef, getA reads Undefined, setattrUndef); nested instances carry no _none_fields in the value model; the constructor model (C01/C02) does not know the flag, so start states of such classes are taken from the real code",
    "Python's str() of floats, Decimals, enum members, deques, frozensets is an oracle table per case (Render); theorems that need a property of it state it as a hypothesis",
    "hash(str) collisions between different strings are ignored: the correspondence compares str(x), the oracle compares hash(x)",
    "independence of copy.copy is not claimed by the property (it shares the wrappers, which stay bound to the original)",
    "nested Structure values are compared by the core pyEq (same attribute names, values ==), i.e. Structure.__eq__ without the default-for-unset-field reading; top-level instances use the full reading",
]
TRUSTED_EXTRA = [
    "Sem/EqHash.lean (model of Structure.__eq__/__str__/__hash__/__copy__/__deepcopy__/__getstate__, default __setstate__), tied by the `pairs` suite: exact comparison of == matrices, of str(x) and of the copies' states",
    "absence of shared mutable objects between an instance and its deep / unpickled copy is established on the real code (fingerprints after every mutation), not by the value-level model",
]

NUM_RANK = {"bool": 0, "int": 1, "float": 2, "decimal": 3}


def pre_build():
    from extract import wrappers
    wrappers.generate()
    from extract import aliasing_c11
    aliasing_c11.generate()


def cases(rng, tier):
    return P.gen_cases(rng, tier, 240 if tier == "quick" else 1900)


def search_cases(rng, tier):
    return P.gen_cases(rng, "thorough", 400)


run_impl = P.run_impl
line = P.line
tags = P.tags
nontrivial = P.nontrivial
describe = P.describe


def _kind_key(k):
    if "-vs-" in k:
        k, _, site = k.partition("@")
        a, b = k.split("-vs-")
        a, b = sorted([a, b], key=lambda t: NUM_RANK.get(t, 9))
        return f"{a}-vs-{b}" + (f"@{site}" if site else "")
    return k


def _kind_key_unused(k):
    if "-vs-" in k:
        a, b = k.split("-vs-")
        a, b = sorted([a, b], key=lambda t: NUM_RANK.get(t, 9))
        return f"{a}-vs-{b}"
    return k


def _class_fields(d, acc=None):
    """field names of every Structure class in the declaration tree, by (declared) class name"""
    acc = {} if acc is None else acc
    if isinstance(d, list):
        for x in d:
            _class_fields(x, acc)
    elif isinstance(d, dict):
        if d.get("k") == "struct":
            acc[d["name"]] = {n for n, _ in d["fields"]}
        for x in d.values():
            _class_fields(x, acc)
    return acc


def _has_live_extras(case, j, tbl=None):
    """some Structure in the dumped value (at any depth) carries a non-None additional property"""
    tbl = _class_fields(case["cls"]) if tbl is None else tbl
    if isinstance(j, list):
        return any(_has_live_extras(case, x, tbl) for x in j)
    if isinstance(j, dict):
        if "o" in j:
            names = tbl.get(j["o"][0])
            if names is not None and any(k not in names and v is not None for k, v in j["o"][1]):
                return True
            return any(_has_live_extras(case, v, tbl) for _, v in j["o"][1])
        return any(_has_live_extras(case, x, tbl) for x in j.values())
    return False


def _stale_none(state):
    """a field that is recorded in _none_fields while __dict__ still holds a value for it"""
    return set(state.get("nones") or []) & {k for k, _ in state["o"][1]}


def _none_with_default(case, sa, sb):
    """a field with a default is recorded as explicitly None on exactly one side"""
    names = {n for n, _ in case["cls"].get("defaults") or []}
    return bool(names & (set(sa.get("nones") or []) ^ set(sb.get("nones") or [])))


def judge_heap(case, impl, model):
    """heap cases: correspondence of the sharing structure with Sem/AliasC11.lean + the statement on the real graph:
    a deep / unpickled copy of an instance shares no mutable object with it (an ImmutableStructure returned as is and
    the scratch owners of nested wrappers, reachable through `_instance` only, are not mutable state of the instance)"""
    msg = P.correspondence(case, impl, model)
    fails = []
    for p in impl.get("probes", []):
        if p["op"] == "copy" or "unavailable" in p or p.get("same"):
            continue
        for t, path in zip(p.get("shared_tags", []), p.get("shared", [])):
            tag, via_back, depth, behind_imm = (list(t) + [False])[:4]
            if p["root"] == 0:
                if tag in ("ImmutableStructure", "tuple", "frozenset") or via_back or behind_imm:
                    continue
                fails.append((f"copy-shares-mutable:{p['op']}:{tag}",
                              f"the {p['op']} copy of x holds the very object x holds at {'.'.join(path)} (a {tag}): "
                              f"class {case['cls']['name']}"))
            elif path == ["_instance"]:
                # the deep / unpickled copy of a field's collection taken on its own is bound to the ORIGINAL owner
                fails.append((f"wrapper-copy-bound-to-owner:{p['op']}:{P.WRAPPER_KINDS.get(p['root_tag'], p['root_tag'])}",
                              f"the {p['op']} copy of a field's {p['root_tag']} taken on its own has the original instance as "
                              f"its _instance (heap case): class {case['cls']['name']}"))
    return msg, fails


def judge(case, impl, model):
    if case.get("heap"):
        return judge_heap(case, impl, model)
    msg = P.correspondence(case, impl, model)
    fails = []
    if "states" not in impl:
        return msg, fails
    n = len(impl["states"])
    eq, ne, heq = impl["eq"], impl["ne"], impl["heq"]
    show = lambda i: json.dumps(impl["states"][i]["o"])[:220] + (
        f" _none_fields={impl['states'][i]['nones']}" if impl["states"][i].get("nones") else "")
    for i in range(n):
        if not eq[i][i]:
            fails.append(("eq-not-reflexive", f"x == x is False for {show(i)}"))
        if not impl["hash_stable"][i]:
            fails.append(("hash-unstable", f"hash(x) changed between two calls for {show(i)}"))
        for j in range(n):
            if eq[i][j] != eq[j][i]:
                fails.append(("eq-not-symmetric", f"a == b is {eq[i][j]} but b == a is {eq[j][i]}: a={show(i)} b={show(j)}"))
            if ne[i][j] == eq[i][j]:
                fails.append(("ne-not-negation", f"a != b and a == b are both {eq[i][j]}: a={show(i)} b={show(j)}"))
            if eq[i][j] != impl["fieldwise"][i][j]:
                which = "eq-but-fields-differ" if eq[i][j] else "fields-equal-but-ne"
                stale = _stale_none(impl["states"][i]) | _stale_none(impl["states"][j])
                if not eq[i][j] and stale:
                    imm = set(case["cls"].get("immFields") or []) | {
                        nm for nm, fd in case["cls"]["fields"] if fd.get("k") in ("setAny", "setOf") and fd.get("imm")}
                    which = "none-recorded-over-immutable-field" if stale <= imm else "none-recorded-over-stored-value"
                elif not eq[i][j] and case["cls"].get("undef") and _none_with_default(case, impl["states"][i], impl["states"][j]):
                    which = "explicit-none-reads-default"
                fails.append((f"eq-vs-readback:{which}", f"a == b is {eq[i][j]} but field-wise equality of the values read back is "
                              f"{impl['fieldwise'][i][j]}: a={show(i)} b={show(j)}"))
            if i == j:
                continue
            if eq[i][j] and not heq[i][j]:
                kinds = [_kind_key(k) for k in impl["diffs"].get(f"{i},{j}", [])] or ["unexplained"]
                for k in kinds:
                    fails.append((f"eq-not-hash:{k}", f"a == b but hash(a) != hash(b) (len({{a, b}}) == {impl['setlen'][i][j]}): "
                                  f"str(a)={impl['strs'][i]!r} str(b)={impl['strs'][j]!r}"))
            if eq[i][j] and heq[i][j] and (impl["setlen"][i][j] != 1 or impl["dictlen"][i][j] != 1 or not impl["member"][i][j]):
                fails.append(("eq-no-collapse", f"a == b with equal hash but set/dict do not collapse: a={show(i)} b={show(j)}"))
            if not eq[i][j] and (impl["setlen"][i][j] != 2 or impl["member"][i][j]):
                fails.append(("unequal-collapse", f"a != b but they collapse in a set: a={show(i)} b={show(j)}"))
            for k in range(n):
                if eq[i][j] and eq[j][k] and not eq[i][k]:
                    fails.append(("eq-not-transitive", f"a == b == c but a != c: a={show(i)} b={show(j)} c={show(k)}"))
    # ---- copies
    copies = impl.get("copies", {})
    for kind in P.COPY_KINDS:
        c = copies.get(kind)
        if c and c.get("raised"):
            site = ":constant-field" if case.get("consts") else ""
            fails.append((f"{kind}-raises:{c['raised']}{site}", f"{kind} of x raised {c['unavailable']}: x={show(0)}"))
        if not c or "unavailable" in c:
            continue
        if not (c["eq"] and c["eqRev"]) or c["ne"] or not c["fieldwise"]:
            if kind == "pickle" and impl["states"][0]["nones"] and not c["state"]["nones"]:
                key = "pickle-not-eq:none-fields-lost"
            elif kind == "pickle" and _has_live_extras(case, {"o": impl["states"][0]["o"]}):
                key = "pickle-not-eq:extra-attrs"
            else:
                key = f"{kind}-not-eq"
            fails.append((key, f"{kind} of x is not == x: x={show(0)} copy={json.dumps(c['state']['o'])[:220]}"))
        elif not c["heq"] or c["setlen"] != 1:
            for k in [_kind_key(k) for k in c.get("diffs", [])] or ["unexplained"]:
                fails.append((f"{kind}-hash-differs:{k}", f"{kind} of x is == x but hashes differently: str(x)={impl['strs'][0]!r} str(copy)={c['str']!r}"))
    # ---- chain of copy operations
    ch = impl.get("chain")
    if ch:
        label = ">".join(ch["chain"])
        if ch.get("raised"):
            failing, before = ch["chain"][ch["at"]], ch["chain"][:ch["at"]]
            site = ":constant-field" if case.get("consts") else (":undefined-value-class" if case["cls"].get("undef") else "")
            upto = failing if (not before or case.get("consts")) else \
                f"{failing}-after-{'pickle' if 'pickle' in before else before[-1]}"
            fails.append((f"chain-raises:{upto}:{ch['raised']}{site}",
                          f"link {ch['at']} of the copy chain {label} raised {ch['unavailable']}: x={show(0)}"))
        elif "state" in ch:
            if not (ch["eq"] and ch["eqRev"] and ch["fieldwise"]):
                fails.append(("chain-not-eq", f"the result of the copy chain {label} is not == x: x={show(0)} "
                                              f"result={json.dumps(ch['state']['o'])[:220]}"))
            elif not ch["heq"]:
                for k in [_kind_key(k) for k in ch.get("diffs", [])] or ["unexplained"]:
                    first = next((kd for kd in ch["chain"] if kd != "copy"), "copy")
                    fails.append((f"{first}-hash-differs:{k}", f"the result of the copy chain {label} is == x but hashes "
                                  f"differently: str(x)={impl['strs'][0]!r} str(result)={ch['str']!r}"))
    # ---- independence and behaviour of the copies
    runs = impl.get("runs", {})
    ops = impl.get("ops_actual", [])
    fresh = runs.get("fresh", [])
    for kind in ("deepcopy", "pickle"):
        run = runs.get(kind)
        if not run:
            continue
        for i, st in enumerate(run.get("copy_steps", [])):
            if st.get("other_changed"):
                fails.append((f"{kind}-aliased:{S.op_site(case, ops[i])}",
                              f"{json.dumps(ops[i])[:200]} applied to the {kind} copy changed the original"))
        for i, st in enumerate(run.get("orig_steps", [])):
            if st.get("other_changed"):
                fails.append((f"{kind}-aliased-back:{S.op_site(case, ops[i])}",
                              f"{json.dumps(ops[i])[:200]} applied to the original changed its {kind} copy"))
        for r in run.get("deep_alias", []):
            fails.append((f"{kind}-aliased-deep:{r['direction']}:{r['mut'].split(':', 1)[-1]}",
                          f"in-place mutation ({r['mut']}) of an object reachable from the "
                          f"{'copy' if r['direction'] == 'copy-to-original' else 'original'} changed the other instance "
                          f"({kind}): x={show(0)}"))
        c = copies.get(kind, {})
        if "unavailable" in c or not (c.get("eq") and c.get("eqRev")) \
                or P.canon_state(c["state"])["o"] != P.canon_state(impl["states"][0])["o"]:
            continue        # the copy already differs (reported above); a behavioural comparison would only echo that
        for i, (st, fr) in enumerate(zip(run.get("copy_steps", []), fresh)):
            same_state = P.canon_state(st["state"])["o"] == P.canon_state(fr["state"])["o"]
            if st["out"] == fr["out"] and same_state:
                continue
            op = ops[i]
            if case.get("special") == "validate-hook" and kind == "pickle":
                key = "unpickled:validate-hook-skipped"
            elif kind == "pickle" and case["cls"].get("immutable") and op["op"] == "setattr" and fr["out"] == "ValueError":
                key = "unpickled:immutable-setattr-unprotected"
            else:
                key = f"{kind}-not-like-fresh:{S.op_site(case, op)}"
            fails.append((key, f"{json.dumps(op)[:200]} on the {kind} copy: {st['out']} {json.dumps(st['state']['o'])[:160]}; "
                               f"on a fresh equal instance: {fr['out']} {json.dumps(fr['state']['o'])[:160]}"))
            break           # later steps start from different states
    # ---- copies of a field's collection wrapper taken on its own
    for r in impl.get("wrapper_copies", []):
        site = f"{r['kind']}:{r['wrapper']}"
        if r.get("raised"):
            fails.append((f"wrapper-copy-raises:{site}:{r['raised']}", f"{r['kind']} of x.{r['f']} raised {r['unavailable']}: x={show(0)}"))
        if r.get("owner_changed"):
            fails.append((f"wrapper-copy-mutates-owner:{site}", f"taking the {r['kind']} of x.{r['f']} changed x itself: x={show(0)}"))
        if r.get("mutation_reaches_owner"):
            fails.append((f"wrapper-copy-bound-to-owner:{site}",
                          f"in-place mutation ({r['mutation_reaches_owner']}) of the {r['kind']} of x.{r['f']} "
                          f"(a {r.get('type')}, _instance is x: {r.get('bound_to_owner')}) changed x: x={show(0)}"))
    cr = runs.get("copy")
    if cr and copies.get("copy", {}).get("eq"):
        for j, (st, fr) in enumerate(zip(cr["copy_steps"], cr["fresh_steps"])):
            if st["out"] != fr["out"] or P.canon_state(st["state"])["o"] != P.canon_state(fr["state"])["o"]:
                op = ops[cr["ops"][j]]
                fails.append((f"copy-not-like-fresh:{S.op_site(case, op)}",
                              f"{json.dumps(op)[:200]} on copy.copy(x): {st['out']} {json.dumps(st['state']['o'])[:160]}; "
                              f"on a fresh equal instance: {fr['out']} {json.dumps(fr['state']['o'])[:160]}"))
                break
    return msg, fails
