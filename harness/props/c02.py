"""C02 — accept/reject decision, stored normal form and error class match the docs."""
import json
import random
from ..suites import construct as S
from ..suites import extras as X
from .. import dump

ID = "C02"
SUITE = "construct"
LEAN_TARGETS = ["TypedpyModel.Props.C02", "TypedpyModel.Audit.C02"]
AUDIT = "C02"
THEOREMS = [
    "Typedpy.C02.validate_complete", "Typedpy.C02.validate_reject", "Typedpy.C02.construct_complete",
    "Typedpy.C02.construct_reject", "Typedpy.C02.missing_required_is_TypeError",
    "Typedpy.C02.float_reads_float", "Typedpy.C02.boolean_reads_bool", "Typedpy.C02.enum_name_reads_member",
    "Typedpy.C02.immutableSet_reads_frozenset", "Typedpy.C02.decision_example",
    "Typedpy.C02.fmtMatch_formatOracles", "Typedpy.C02.string_field_exact", "Typedpy.C02.ipv4_field_exact",
    "Typedpy.C02.hostname_field_exact", "Typedpy.C02.sized_string_bound", "Typedpy.C02.format_example",
    "Typedpy.C02.toDecimal_exact", "Typedpy.C02.toDecimal_reject", "Typedpy.C02.decimal_field_exact",
    "Typedpy.C02.decimal_field_reject", "Typedpy.C02.decimal_reads_decimal", "Typedpy.C02.constructD_complete",
    "Typedpy.C02.constructD_reject", "Typedpy.C02.decimal_example",
    "Typedpy.C02.ipv4_field_chars", "Typedpy.C02.hostname_field_chars",
    "Typedpy.C02.bridge_instantiate_complete", "Typedpy.C02.bridge_instantiate_reject", "Typedpy.C02.bridge_example",
]
RULE = ("classes from the type-directed declaration generator (depth <= 3/4, each constraint keyword p~0.35); "
        "per field: valid-by-construction kwargs, ALL boundary neighbours of every bound (enumerated), one value "
        "of every other Python type, single-point corruptions, None, missing, extra kwarg; a case is non-trivial "
        "if its class has >=1 constraint or nesting >= 1, distinct by sha256 of the canonical case line; plus (round 5) the same streams with the extended declaration "
        "generator (SizedString / IPV4 / HostName / DateString / TimeString / JSONString at every scalar position, directed valid / near-valid pools in 13 container "
        "positions; Lean, an independent Python implementation and typedpy are compared on every string), a transplant stream (typed wrappers read from laxer instances as "
        "arguments), a DecimalNumber stream (bare / Array items / Map values; int, float, Decimal, bool, every numeric-string spelling, boundary neighbours in each type, "
        "ill-formed strings, other types; NaN / Infinity / beyond-context values judged on the real code alone) and an oracle-only DateTime / DateField / TimeField stream "
        "(documented decision from the docstrings; ints and floats of every magnitude, bools) and an oracle-only FLOAT multiplesOf stream (steps 0.1, 0.01, 0.3, 2.5, "
        "0.25 ... on Float / Number / PositiveFloat, bare and nested; documented decision = value / step integral in float arithmetic, computed independently)")
ASSUMPTIONS = [
    "numeric domain: finite non-bool numbers; ints given to Float fields have |n| < 2^53; multiplesOf is a non-zero int",
    "regex behaviour is an oracle (Python re answers are supplied to the model per case); so are datetime.strptime, json.loads and Decimal(str) (standard library, never typedpy); IPV4 / HostName are decided in Lean",
    "a FLOAT multiplesOf is outside the Lean model (int steps only): executed on the real code by the extras-floatstep stream",
    "DecimalNumber with multiplesOf: |value| < 10^26 (Decimal % int must stay inside the decimal context)",
    "PYTHONHASHSEED=0 (order of required parameters comes from a set); with several invalid fields the model's set of exception classes is compared",
]


def cases(rng, tier):
    base = S.gen_cases(rng, tier, 90 if tier == "quick" else 1200) + S.default_cases(random.Random(str(rng.getstate()[1][0])), tier, 150 if tier == "quick" else 2500) + S.crosstype_cases() \
        + X.directed_ctor_cases() + X.decimal_cases() + X.temporal_cases() + X.floatstep_cases()
    ext = S.gen_cases(random.Random("ext" + str(rng.getstate()[1][0])), tier, 70 if tier == "quick" else 1000, ext=True, prefix="E") + S.xstring_cases() \
        + S.default_cases(random.Random("extd" + str(rng.getstate()[1][0])), tier, 80 if tier == "quick" else 1200, ext=True)
    # arguments that are the library's own typed wrappers, read from a laxly declared field of another instance
    tp = S.transplant_cases(random.Random("tp" + str(rng.getstate()[1][0])), tier, 60 if tier == "quick" else 800)
    # DecimalNumber (Sem/Decimal.lean): bare, Array items, Map values
    dec = S.decimal_cases(random.Random("dec" + str(rng.getstate()[1][0])), tier, 40 if tier == "quick" else 500)
    return base + ext + tp + dec


def search_cases(rng, tier):
    return S.gen_cases(rng, "thorough", 400) + S.gen_cases(random.Random("ext-s" + str(rng.getstate()[1][0])), "thorough", 200, ext=True, prefix="E") \
        + S.transplant_cases(random.Random("tp-s" + str(rng.getstate()[1][0])), "thorough", 150) \
        + S.decimal_cases(random.Random("dec-s" + str(rng.getstate()[1][0])), "thorough", 100)


def _x(case):
    return case.get("suite") in ("extras-ctor", "extras-decimal", "extras-temporal", "extras-floatstep")


def _fs(case):
    return case.get("suite") == "extras-floatstep"


def _tmp(case):
    return case.get("suite") == "extras-temporal"


def _dec(case):
    return case.get("suite") == "extras-decimal"


def run_impl(case):
    if _fs(case):
        return X.run_floatstep(case)
    if _tmp(case):
        return X.run_temporal(case)
    if _dec(case):
        return X.run_decimal(case)
    return X.run_ctor(case) if _x(case) else S.run_impl(case)


def line(case, impl):
    return None if _x(case) else S.line(case, impl)


def tags(case, impl, model):
    if _fs(case):
        return ["stream:extras-floatstep", f"floatstep:{case['kind']}:{impl.get('out', 'skipped')}"]
    if _tmp(case):
        return ["stream:extras-temporal", f"temporal:{case['leaf']}:{impl.get('out', 'skipped')}"]
    if _dec(case):
        return ["stream:extras-decimal"] + [f"decimal:{p['probe']}:{p['ctor']}" for p in impl.get("probes", [])]
    if _x(case):
        return ["stream:extras-ctor", "extras:" + impl.get("out", "skipped")] + (["extras-exc:" + impl["exc"]] if "exc" in impl else [])
    return S.tags(case, impl, model)


def nontrivial(case):
    return True if _x(case) else S.nontrivial(case)


def describe(case, impl, model):
    if _fs(case):
        return {"floatstep": case, "result": impl}
    if _tmp(case):
        return {"temporal": case, "result": impl}
    if _dec(case):
        return {"decimal": case, "probes": impl.get("probes")}
    return {"extras": [case["leaf"], case["wrap"]], "value": impl.get("value"), "out": impl.get("out"), "exc": impl.get("exc")} if _x(case) else S.describe(case, impl, model)


def judge(case, impl, model):
    if _fs(case):
        return None, X.judge_floatstep(case, impl)
    if _tmp(case):
        return None, X.judge_temporal(case, impl)
    if _dec(case):
        return None, ([] if "skip" in impl else X.judge_decimal_ctor(case, impl))
    if _x(case):
        return None, X.judge_ctor(case, impl)
    if model is None:
        return None, S.oracle_only_findings(case, impl)
    dev = S.deviation_findings(case, impl, "accepts-undocumented", "rejects-documented")        # the library's bare formatted-string field vs the documented language
    msg = S.correspondence(case, impl, model)
    fails = list(dev)
    if "unbuildable" in impl or "abstraction_mismatch" in impl:
        return msg, fails
    crash = S.reraise_crash(impl)
    if crash:
        fails.append((f"error-class:reraise-crash:{crash}", f"the constructor failed while building its own exception: {impl.get('err')}: {impl.get('msg')} for "
                      + json.dumps(case["kw"])[:200]))
        return msg, fails
    kind = S.top_kind(case)
    admits = model["admits"]
    if "ok" in impl:
        if not admits:
            fails.append((f"accepts-undocumented:{kind}",
                          "real constructor accepts arguments the documented rules reject: " + json.dumps(case["kw"])[:300]))
        elif dump.canon(model["norm"]) != dump.canon(impl["ok"]):
            fails.append((f"normal-form:{kind}",
                          "value read back is not the documented normal form: got " + json.dumps(impl["ok"])[:300]
                          + " expected " + json.dumps(model["norm"])[:300]))
    else:
        if admits:
            fails.append((f"rejects-documented:{kind}",
                          f"real constructor raises {impl['err']} for arguments the documented rules accept: "
                          + json.dumps(case["kw"])[:300] + " :: " + impl.get("msg", "")))
        if impl["err"] not in ("TypeError", "ValueError", "InvalidStructureErr"):
            fails.append((f"error-class:{kind}", f"rejection raised {impl['err']} (not TypeError/ValueError): {impl.get('msg')}"))
        missing = [r for r in case["cls"]["required"] if r not in [k for k, _ in case["kw"]]]
        if missing and impl["err"] not in ("TypeError", "InvalidStructureErr"):
            fails.append((f"missing-required-class:{kind}", f"missing required {missing} raised {impl['err']}"))
    return msg, fails
