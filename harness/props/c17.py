"""C17 — versioned conversion composes, reaches the latest version, leaves its input intact."""
import json
from ..suites import convert as S

ID = "C17"
SUITE = "convert"
LEAN_TARGETS = ["TypedpyModel.Props.C17", "TypedpyModel.Props.C17Deser", "TypedpyModel.Audit.C17"]
AUDIT = "C17"
THEOREMS = [
    "Typedpy.C17.convert_version", "Typedpy.C17.convert_version_max", "Typedpy.C17.convert_version_keyed",
    "Typedpy.C17.convert_version_max_keyed", "Typedpy.C17.convert_version_versionless",
    "Typedpy.C17.convert_version_law", "Typedpy.C17.convert_is_upgrade", "Typedpy.C17.convert_compose",
    "Typedpy.C17.convert_compose_error", "Typedpy.C17.convert_latest_id", "Typedpy.C17.convert_idempotent",
    "Typedpy.C17.convert_pure", "Typedpy.C17.convert_empty_mapping", "Typedpy.C17.convert_frame",
    "Typedpy.C17.convert_deleted_absent", "Typedpy.C17.convert_constant_set",
    "Typedpy.C17.versioned_deser_equiv", "Typedpy.C17.versioned_deser_result", "Typedpy.C17.versioned_deser_extras",
    "Typedpy.C17.deser_extras_example",
    "Typedpy.C17.new_instance_latest", "Typedpy.C17.version_statement_holds",
    "Typedpy.C17.compose_statement_holds", "Typedpy.C17.deser_default_history_holds",
    "Typedpy.C17.fixed_versionless_example", "Typedpy.C17.fixed_clobber_example",
    "Typedpy.C17.fixed_compose_versionless_example", "Typedpy.C17.fixed_compose_clobber_example",
    "Typedpy.C17.fixed_deser_no_attribute_example", "Typedpy.C17.beq_sound", "Typedpy.C17.laws_example",
    "Typedpy.C17.step_contract_holds", "Typedpy.C17.step_contract_top_holds", "Typedpy.C17.convert_steps_contract",
    "Typedpy.C17.step_contract_sensitive_example", "Typedpy.C17.fixed_nonpositive_example",
    "Typedpy.C17.nonpositive_rejected_holds", "Typedpy.C17.convert_nonpositive_raises",
    "Typedpy.C17.sites_doc_const_copy_today", "Typedpy.C17.no_doc_writes_today",
    "Typedpy.C17.convert_input_intact", "Typedpy.C17.convert_input_intact_today",
    "Typedpy.C17.step_input_intact", "Typedpy.C17.convert_result_disjoint", "Typedpy.C17.heap_examples",
    "Typedpy.C17.versioned_deserialize_whole_path", "Typedpy.C17.versioned_deserialize_is_plain",
    "Typedpy.C17.whole_path_example", "Typedpy.C17.convert_fn_error_propagates", "Typedpy.C17.convert_fn_result",
    "Typedpy.C17.versioned_deserialize_trusted_whole_path", "Typedpy.C17.convert_nonint_version_raises", "Typedpy.C17.deser_nonpositive_raises", "Typedpy.C17.step_contract_precedence_example", "Typedpy.C17.versioned_instance_latest", "Typedpy.C17.versioned_instance_latest_trusted",
]
RULE = ("histories of 0..5 (thorough 0..8) mappings over top-level keys a..e (+ rarely `version`) with Constant, Deleted, "
        "moves (plain and dotted paths, degenerate paths), nested `._mapper` entries (depth <= 2) over sub-documents and "
        "lists of sub-documents, FunctionCall with user functions drawn from 15 Python functions (total / partial / raising "
        "ValueError, KeyError, ZeroDivisionError, RuntimeError / float-producing / container functions / seeded-hash 'random' "
        "functions of any arity; args None / [] / matching / wrong arity) — the Lean model gets each function as the table of "
        "calls observed on the real code plus the calls the step contract asks about; documents with role-typed values "
        "(scalars incl. floats, sub-documents, lists of sub-documents incl. None / scalar elements); start versions: 78% in "
        "1..n+1, 9% no version key, 4% beyond latest, 5% <= 0, 4% non-int (str, None, bool, list, dict, float); ALL split "
        "points 0..n (+ occasionally n+2); per case one Versioned class (fields Anything / Integer / String / Sub / "
        "Array[Sub]; in half of the cases ~45% of the keys a..e are NOT fields, so histories move / delete / add non-field "
        "keys; nested class with or without the key `a` declared), `_additional_properties` unset / True / False, "
        "keep_undefined default / True / False, with and without `_versions_mapping` when n == 0, regular (80%) and "
        "direct_trusted_mapping deserialization (20%; 70% of those with all-typed fields so that the trusted shortcut is "
        "really taken), the real instance / exception compared with the whole-path Lean model in both; a case is non-trivial if at "
        "least one mapping is non-empty; distinct by sha256 of the case")
ASSUMPTIONS = [
    "documents are JSON values (None/bool/int/str/finite float/list/dict with str keys); floats are exact ratios, no NaN/inf/-0.0",
    "a FunctionCall function is a pure function of its arguments' values (it may raise; any arity); the theorems quantify over "
    "ALL such functions (`UserFn := List Json -> R Json`); per case the driver uses the observed call table (a call the table "
    "lacks is reported as a disagreement)",
    "a mapping is a Python dict: keys unique per nesting level (`wfMapping`, checked per case); keys of Deleted / move / "
    "FunctionCall entries do not end in '._mapper'; values of '._mapper' keys are dicts",
    "law checks apply to every history (also with entries for `version`) and start versions v >= 1 (a document without `version` "
    "counts as version 1, as convert_dict treats it, and so does `True`); int versions v <= 0 must be rejected (ValueError since typedpy e6a2398; before: findings "
    "invalid-version-accepted:*); non-int versions (bool, str, float, ...) are only corresponded (Python slice / arithmetic semantics are modelled)",
    "key order of documents is modelled (insertion order) but compared order-insensitively, like Python ==",
    "heap-level theorems: user functions obey the capability discipline FnOk (allocate only; return an atom, something new or "
    "something reachable from the arguments); `copy.deepcopy` is a tree copy (internal sharing is not preserved — irrelevant to "
    "separation from the input)",
]
TRUSTED_EXTRA = [
    "C17: wire codec of lean/TypedpyModel/Drive/Convert.lean (objects as ordered pair lists, floats as ratios, `._mapper` suffix "
    "stripped, `str.split('.')` modelled by Lean `String.splitOn`, user functions as call tables looked up up to Python ==), "
    "harness/suites/convert.py (object builders, call recorder, deep snapshots, container-identity alias probe, instance dump)",
    "C17: extract/aliasing_c17.py (AST reading of the copy sites and of writes through caller objects in versioned_mapping.py "
    "-> Generated/AliasingC17.lean); the heap-level model Sem/AliasC17.lean is hand-written, tied to the source through that "
    "table and run per case through the encoding of Drive/ConvertHeap.lean (JSON values as cells, scalars as interned atoms)",
    "C17: the whole-path model Sem/ConvertDeser.lean reuses Sem/Deser.lean (C05/C06) for the remainder of deserialization and "
    "Sem/Trusted.lean (C10) for direct_trusted_mapping (garbage documents that model declares outside its domain, "
    "`outside-model:*`, are tied by the twin-class comparison only)",
]


def pre_build():
    # copy sites / parameter writes of versioned_mapping.py, read off the source under test (heap-level theorems)
    from extract import aliasing_c17
    aliasing_c17.generate()


def cases(rng, tier):
    return S.gen_cases(rng, tier, 2500 if tier == "quick" else 45000)


def search_cases(rng, tier):
    return S.gen_cases(rng, "thorough", 6000)


run_impl = S.run_impl
line = S.line
tags = S.tags
nontrivial = S.nontrivial
describe = S.describe


def _short(x, n=260):
    return json.dumps(x, ensure_ascii=False)[:n]


def judge(case, impl, model):
    msg = S.correspondence(case, impl, model)
    fails = []
    if "full" not in impl:
        return msg, fails
    doc = S.dec(case["doc"])
    n = len(case["ms"])
    versionless = isinstance(doc, dict) and "version" not in doc
    raw_ver = None if versionless else doc.get("version")
    ver = 1 if (versionless or raw_ver is True) else raw_ver      # a bool is an int in Python: `True` is version 1
    strict_int = versionless or type(raw_ver) is int              # the deserialization theorems speak of int versions
    wf = not any(k in ("version", "version" + S.SUFFIX) for m in case["ms"] for k, _ in m)
    int_version = type(ver) is int
    # until typedpy commit f017e49 version-less documents and histories with an entry for `version` were
    # known-finding regions with their own keys; since the fix they are judged like every other case
    region = None
    history = _short(case["ms"], 400)

    if model.get("wfMappings") is False:
        msg = msg or "harness: a generated mapping is not a Python dict (duplicate key) — the step-contract theorems do not cover it"

    # ---- the heap-level model (Sem/AliasC17.lean, copy sites as read off the source under test) run on this case
    hp = model.get("heap")
    if hp is not None:
        if not hp.get("agrees"):
            msg = msg or (f"heap-level model and value-level model differ: heap {'raised' if hp.get('raised') else _short(hp.get('result'))} "
                          f"value-level {_short(model.get('full'))}")
        predicted = (not hp.get("inputIntact")) or bool(hp.get("shared"))
        observed = bool(impl["mutated"]) or bool(impl["alias"]) or bool(impl.get("full_is_input"))
        if predicted and not observed:
            msg = msg or (f"heap-level model with the copy sites of the source predicts that convert_dict touches / shares the "
                          f"caller's objects (intact={hp.get('inputIntact')}, shared={hp.get('shared')}) but snapshots and "
                          f"alias probe show nothing")

    # ---- start versions below 1 (the documentation has versions start at 1; `version` is a PositiveInt field):
    # convert_dict must reject the document (it used to slice the history with a negative index; fixed in e6a2398)
    if (int_version and ver < 1) or raw_ver is False:
        if "ok" in impl["full"]:
            fails.append(("invalid-version-accepted:convert_dict-nonpositive-start-version",
                          f"convert_dict on a document with version {ver} (versions start at 1) applied "
                          f"versions_mapping[{ver - 1}:] and returned {_short(impl['full'])}: doc={_short(doc)} history={history}"))
        d_old = impl.get("deser_old")
        if d_old is not None and "ok" in d_old:
            fails.append(("invalid-version-accepted:deserialize-nonpositive-start-version",
                          f"Deserializer(V).deserialize of a document with version {ver} returned an instance "
                          f"{_short(d_old)} (version: PositiveInt is never validated, Versioned.__init__ overwrites it): "
                          f"doc={_short(doc)} history={history}"))

    # ---- inputs intact (applies to every case, whatever the start version)
    for what, site, extra in impl["mutated"]:
        fails.append((f"mutated:{what}", f"{site} modified its {what}: {extra} history={history} doc={_short(doc)}"))
    for what, site in impl["alias"]:
        if what == "constant-value":
            fails.append(("live-state:constant-value-shared-with-result",
                          f"{site} returned a document that contains the very list/dict object held by a Constant of "
                          f"the history (mutating the result changes the mapping): history={history} doc={_short(doc)}"))
        else:
            fails.append((f"live-state:{what}-shared-with-result",
                          f"{site} returned a document sharing a mutable container with its {what}: "
                          f"history={history} doc={_short(doc)}"))
    if impl.get("full_is_input"):
        fails.append(("live-state:input-document-returned", f"convert_dict returned the input object itself: doc={_short(doc)}"))

    # ---- an exception raised by a user function propagates (theorem convert_fn_error_propagates)
    if impl.get("swallowed"):
        name, args, exc = impl["swallowed"]
        fails.append(("function-exception-swallowed:convert_dict",
                      f"the user function {name}({_short(args, 120)}) raised {exc} during convert_dict, which nevertheless "
                      f"returned {_short(impl['full'])}: doc={_short(doc)} history={history}"))

    # ---- documented single-step contract (Spec `stepViolations`, evaluated by the Lean driver on the real states)
    for k, v in enumerate(model.get("modelSteps") or []):
        if v:
            msg = msg or f"model self-check: the model's own step {k}->{k + 1} violates the step contract: {v}"
    for k, v in enumerate(model.get("implSteps") or []):
        if v:
            clause = v[0].split("/")[-1].split(":")[0]
            st = impl["stages"]
            fails.append((f"step-contract:{clause}",
                          f"applying mapping {k + 1} ({_short(case['ms'][k], 300)}) to {_short(st[k]['s1'])} gave "
                          f"{_short(st[k + 1]['s1'])}: violates {v[:4]}"))
            break

    # ---- laws for start versions convert_dict is specified for
    if int_version and ver >= 1:
        full = impl["full"]
        # (1) result version
        if "ok" in full and ver <= n + 1:
            r = S.dec(full["ok"])
            rv = r.get("version", 1) if isinstance(r, dict) else None
            rv_ok = (type(rv) is int and rv == n + 1) or (rv is True and n == 0)
            if not rv_ok:
                key = {"versionless-document": "version-off-by-one:versionless-document",
                       "mapping-writes-version": "version-clobbered:mapping-writes-version"}.get(region,
                                                                                                "version-law:wrong-result-version")
                fails.append((key, f"convert_dict on a version-{ver} document with {n} mappings returned version "
                                   f"{rv!r} (expected {n + 1}): doc={_short(doc)} history={history} result={_short(r)}"))
            lean = (model.get("implLaws") or {}).get("version")
            if lean is not None and lean != rv_ok and not (versionless and n == 0):
                msg = msg or f"Lean versionLaw ({lean}) and the Python check disagree on {_short(r)}"
        # (2) composition at every split point
        lean_compose = (model.get("implLaws") or {}).get("compose") or []
        for i, st in enumerate(impl["stages"]):
            two = st["s2"] if "ok" in st["s1"] else st["s1"]
            ok = S.res_key(two) == S.res_key(full)
            if not ok:
                key = f"compose-broken:{region}" if region else "compose-law:two-stage-differs"
                fails.append((key, f"split k={st['k']}: convert_dict(convert_dict(d, ms[:k]), ms) = {_short(two)} but "
                                   f"convert_dict(d, ms) = {_short(full)}; stage one = {_short(st['s1'])}; "
                                   f"doc={_short(doc)} history={history}"))
            if i < len(lean_compose) and lean_compose[i] is not None and lean_compose[i] != ok:
                msg = msg or f"Lean sameResult ({lean_compose[i]}) and the Python check disagree at split {st['k']}"
        # (3) a document at (or beyond) the latest version comes back unchanged
        if ver >= n + 1 and not versionless:
            if S.res_key(full) != "ok:" + S.canon(doc):
                fails.append(("latest-id:latest-document-changed",
                              f"document at version {ver} (latest {n + 1}) was not returned unchanged: {_short(full)} "
                              f"doc={_short(doc)} history={history}"))
        # (4) Versioned deserialization: old version == converted latest version
        d_old, d_new, d_plain = impl.get("deser_old"), impl.get("deser_new"), impl.get("deser_plain")
        if d_old is not None and not versionless and strict_int:
            if d_new is not None and not S.same_deser(d_old, d_new):
                key = f"deser-inequivalent:{region}" if region else "deser-law:old-version-differs-from-latest"
                fails.append((key, f"Deserializer(V).deserialize(d, keep_undefined={case.get('keep')}) = {_short(d_old)} "
                                   f"but on the converted document {_short(d_new)}; doc={_short(doc)} history={history} "
                                   f"fields={case['ftypes']} additional_properties={case.get('addl')}"))
            if d_plain is not None and not S.same_deser(d_old, d_plain, ignore_version=True):
                if not case["hasAttr"] and d_old.get("err") == "AttributeError":
                    fails.append(("deser-crash:versions-mapping-attribute-absent",
                                  "a Versioned class that does not define _versions_mapping (the default empty history "
                                  "Versioned.__init__ allows) cannot be deserialized: " + _short(d_old)))
                elif not region:
                    fails.append(("deser-law:differs-from-plain-class-on-converted-document",
                                  f"Deserializer(V).deserialize(d) = {_short(d_old)} but the same fields without Versioned "
                                  f"on convert_dict(d) give {_short(d_plain)}; doc={_short(doc)} history={history}"))
            if "ok" in d_old and d_old.get("version") != n + 1 and ver <= n + 1:
                fails.append(("deser-law:instance-not-at-latest-version",
                              f"deserialized instance has version {d_old.get('version')!r}, expected {n + 1}: "
                              f"doc={_short(doc)} history={history}"))
    # ---- (5) a new instance carries the latest version, whatever the caller passes
    init = impl.get("init")
    if init is not None and "ok" in init and init["ok"] != n + 1:
        fails.append(("new-instance:not-latest-version",
                      f"V(**{_short(S.dec(case['kw']))}).version == {init['ok']!r}, expected {n + 1}"))
    return msg, fails
