"""C05 — serialize then deserialize returns an equal instance; output is pure JSON."""
import json
import random
import re
from ..suites import serde as S
from ..suites import extras as X

ID = "C05"
SUITE = "serde"
LEAN_TARGETS = ["TypedpyModel.Props.C05", "TypedpyModel.Audit.C05"]
AUDIT = "C05"
try:
    THEOREMS = re.findall(r"#print axioms (\S+)", open(__file__.rsplit("/harness/", 1)[0] + "/lean/TypedpyModel/Audit/C05.lean").read())
except OSError:
    THEOREMS = []
RULE = ("classes over the serializable fragment (scalars, Enum by name, Array/Set/Tuple/Deque/Map, nested and inline "
        "structures, Optional/AnyOf; 20% with lossy kinds Anything/untyped collections/OneOf/AllOf/NotField), with and "
        "without _ignore_none and additional properties; up to 4 valid instances per class; Serializer -> json.dumps -> "
        "Deserializer -> ==, serialize() vs Serializer, fixpoint; keep_undefined in {True, False, None} x "
        "ignore_invalid_additional_properties in {True, False}; directed: every ordered pair of 14 AnyOf options, and every "
        "distinguishable pair as Optional[Union[A, B]] with None listed last / first / in the middle holding a value of either "
        "option; non-trivial = constraint or nesting; distinct by case hash; the driver reports for every case whether it lies "
        "inside the PROVED fragment (proved-fragment tags); plus the extras stream (suites/extras.py): DecimalNumber, Enum by "
        "value and by name over plain/IntEnum/Flag/str-valued enums with falsy members and JSON-looking values, "
        "DateField (two formats)/DateTime/DateString/TimeString/EmailAddress/HostName/IPV4, strings whose text is a JSON document, "
        "each bare / Optional / Optional[Union[X, int]] / Array / Deque / Set / Map / Tuple / nested collections / nested class / "
        "compact single-field wrapper (own, inherited), every leaf x wrapper once (directed) and random mixes: the cases the Lean "
        "model of the extension kinds covers (Sem/SerdeX.lean: Decimal, Enum by value / by name over IntEnum, DateField/DateTime, "
        "DateString/TimeString/IPV4/HostName/EmailAddress, core scalars in every wrapper, compact wrappers included) are corresponded with it (suite serdex: instance, document, round trip), the others are "
        "oracle-only; for all of them the serialized form must equal the documented JSON form written down independently; plus "
        "classes with _enable_undefined_value (an Optional field set / explicitly None / Undefined: three states the document "
        "tells apart and the round trip must keep); plus, on the main stream, the round trip through JSON TEXT and "
        "serialize_field(Class.f, x.f) against the class-level document; plus an entry-point stream (oracle-only): classes over every "
        "collection kind (empty / one / several elements, alone, next to scalars, two collections) - the document must come back "
        "equal, with fields of the same builtin kind, also through Deserializer(cls).deserialize(doc, direct_trusted_mapping=True), "
        "and the FastSerializable twin of the class must write the same pure-JSON document (Serializer(x).serialize(), x.serialize())")
ASSUMPTIONS = [
    "mapper-free (key-renaming mappers: C07); cases with no model line (a few wrappers of not-modelled leaves) are executed on the real code only (oracle-only part of the extras stream)",
    "float(Decimal), Decimal(str), strptime, strftime and the format tests of DateString/TimeString/IPV4/HostName are oracles of the model (tables per case; universally quantified in the theorems); a Decimal that is not a double is in the lossy clause",
    "structures held at untyped positions (Anything, untyped Array/Map) are outside the model",
]


def cases(rng, tier):
    return [c for c in S.gen_cases(rng, tier, 250 if tier == "quick" else 3500) if c["mode"] == "roundtrip"] \
        + S.anyof_optional_cases(random.Random("aopt" + str(rng.getstate()[1][0])), 60 if tier == "quick" else None) \
        + X.directed_cases() + X.gen_cases(rng, 300 if tier == "quick" else 6000) \
        + X.entry_cases() + X.directed_undef_cases() + X.undef_cases(random.Random("undef" + str(rng.getstate()[1][0])), 100 if tier == "quick" else 2000)


def search_cases(rng, tier):
    return [c for c in S.gen_cases(rng, "thorough", 800) if c["mode"] == "roundtrip"] + X.gen_cases(rng, 1500)


def _x(case):
    return case.get("suite") == "extras"


def _en(case):
    return case.get("suite") == "extras-entry"


def run_impl(case):
    if _en(case):
        return X.run_entry(case)
    return X.run_impl(case) if _x(case) else S.run_impl(case)


def line(case, impl):
    if _en(case):
        return None
    return X.xline(case, impl) if _x(case) else S.line(case, impl)


def tags(case, impl, model):
    if _en(case):
        return ["stream:extras-entry", "entry-trusted:" + ("ok" if impl.get("trusted") == "ok" else "raises-or-skipped")]
    if _x(case):
        return ["stream:extras", "extras-model:" + ("line" if impl.get("xline") else "oracle-only")] + \
            (["proved-fragment(xclass_round_trip_partial):" + str((model.get("out") or {}).get("inFrag"))] if impl.get("xline") else []) + (["extras:skipped"] if "skip" in impl else ["extras:" + k for k in impl.get("kinds", [])])
    return S.tags(case, impl, model)


def nontrivial(case):
    return True if _x(case) or _en(case) else S.nontrivial(case)


def describe(case, impl, model):
    if _en(case):
        return {"entry": case, "impl": impl}
    return {"extras": case["fields"], "doc": impl.get("doc"), "equal": impl.get("equal")} if _x(case) else S.describe(case, impl, model)


def judge(case, impl, model):
    if _en(case):
        return None, X.judge_entry(case, impl)
    if _x(case):
        return X.xcorrespond(case, impl, model), X.judge(case, impl)
    msg = S.correspondence(case, impl, model)
    fails = []
    if "unbuildable" in impl or "abstraction_mismatch" in impl or "ser" not in impl:
        return msg, fails
    frag = S.in_fragment(case["cls"])
    kinds = sorted({fd["k"] for _, fd in case["cls"]["fields"]})
    site = "+".join(kinds)[:60]
    if frag:
        if "ok" not in impl["ser"]:
            fails.append((f"serialize-raises:{site}", f"Serializer raised {impl['ser']['err']}: {impl['ser'].get('msg')} for {json.dumps(impl['inst'])[:300]}"))
        else:
            if impl.get("dumps") is not True:
                fails.append((f"not-json:{site}", f"json.dumps refuses the serialized form: {impl.get('dumps')}"))
            if model.get("isJson") is False and impl.get("dumps") is True:
                fails.append((f"not-pure-json:{site}", "serialized form contains non-JSON Python objects: " + json.dumps(impl["ser"]["ok"])[:300]))
            if not impl.get("ser_fn_same"):
                fails.append((f"serialize-fn-differs:{site}", "serialize(x) != Serializer(x).serialize()"))
            if impl.get("ser_field_diffs") not in (None, []):
                fails.append((f"serialize-field-differs:{site}", f"serialize_field(Class.f, x.f) is not field f's part of Serializer(x).serialize(): {impl['ser_field_diffs']}"))
            if "ok" not in impl.get("back", {}):
                fails.append((f"roundtrip-raises:{site}", f"Deserializer rejects the serialized form: {impl['back'].get('err')}: {impl['back'].get('msg')}; doc " + json.dumps(impl["ser"]["ok"])[:300]))
            elif not impl.get("eq"):
                fails.append((f"roundtrip-differs:{site}", "deserialize(serialize(x)) != x: x=" + json.dumps(impl["inst"])[:250] + " back=" + json.dumps(impl["back"]["ok"])[:250]))
            # through JSON text: json.dumps turns the non-string keys of a Map[Integer | Float | Boolean | ..., X] into
            # strings, which the key field then refuses (or reads as another key)
            tb = impl.get("text_back")
            if tb is not None and "ok" in impl.get("back", {}) and impl.get("eq") and tb.get("ok") is not True:
                nk = sorted(S.nonstring_map_keys(case["cls"]))
                where = ("map-key:" + nk[0]) if nk else site
                fails.append((f"text-roundtrip-fails:{where}", "Deserializer(cls).deserialize(json.loads(json.dumps(Serializer(x).serialize()))) "
                              + (f"raises {tb.get('err')}: {tb.get('msg')}" if "err" in tb else "!= x") + " although the round trip of the Python document succeeds; doc "
                              + json.dumps(impl["ser"]["ok"])[:250]))
    elif S.lossy_only(case["cls"]):
        if "ok" in impl["ser"] and "ok" in impl.get("back", {}):
            s2 = impl.get("ser2", {})
            if "ok" not in s2 or S.canon_doc(case["cls"], s2["ok"]) != S.canon_doc(case["cls"], impl["ser"]["ok"]):
                fails.append((f"no-fixpoint:{site}", "serialize(deserialize(serialize(x))) != serialize(x) for a lossy field type: "
                              + json.dumps(impl["ser"]["ok"])[:200] + " vs " + json.dumps(s2)[:200]))
    if impl.get("doc_aliases") and (frag or S.lossy_only(case["cls"])):
        # (outside the statement's fragment - e.g. an AnyOf of indistinguishable options, where the first option whose
        #  shallow check passes serializes the value - aliasing of the returned document is C19's subject, not C05's)
        fails.append((f"live-document:{site}", "mutating the returned document changed the instance (C19)"))
    return msg, fails
