"""C14 — inheritance only adds strictness; invalid class definitions fail when defined."""
import json
import re
from ..suites import define as S

ID = "C14"
SUITE = "define"
LEAN_TARGETS = ["TypedpyModel.Props.C14", "TypedpyModel.Audit.C14"]
AUDIT = "C14"
THEOREMS = [
    "Typedpy.C14.ancestor_fields_subset",
    "Typedpy.C14.ancestor_field_same",
    "Typedpy.C14.defined_class_ok",
    "Typedpy.C14.base_in_mro",
    "Typedpy.C14.sub_fields_superset",
    "Typedpy.C14.not_owned_of_not_declared",
    "Typedpy.C14.inherited_field_same",
    "Typedpy.C14.sub_required_superset_partial",
    "Typedpy.C14.same_field_same_behaviour",
    "Typedpy.C14.fault_rejected_partial",
    "Typedpy.C14.fault_yields_no_class",
    "Typedpy.C14.immutableField_subclass_rejected",
    "Typedpy.C14.abstract_not_instantiable",
    "Typedpy.C14.abstract_subclass_not_instantiable",
    "Typedpy.C14.falsy_default_not_validated",
    "Typedpy.C14.mutable_class_form_default_accepted",
    "Typedpy.C14.fixed_pep604_union_refused",
    "Typedpy.C14.fault_rejected_statement_false",
    "Typedpy.C14.abstractStructure_itself_not_instantiable",
    "Typedpy.C14.fixed_constant_required_kept",
    "Typedpy.C14.fixed_second_base_required_kept",
    "Typedpy.C14.inheritance_example",
    "Typedpy.C14.keys_of_example",
    "Typedpy.reachable_ok",
    "Typedpy.C14.abstract_not_instantiable_via",
    "Typedpy.C14.concrete_trusted_entry_instantiates",
    "Typedpy.c14_construct_ok_iff",
    "Typedpy.c14_toStruct_order_irrelevant",
    "Typedpy.c14_construct_restrict",
    "Typedpy.C14.ctor_accepts_restricted",
    "Typedpy.C14.sub_accepts_base_accepts",
    "Typedpy.C14.defined_no_sealed_ancestor",
    "Typedpy.C14.sealed_base_rejected",
    "Typedpy.C14.ctor_example",
    "Typedpy.C14.ignore_none_exclusion_necessary",
    "Typedpy.C14.fixed_second_base_ctor",
    "Typedpy.C14.abstract_entries_example",
    "Typedpy.C14.reachable_no_sealed_ancestor",
    "Typedpy.C14.sub_required_superset",
    "Typedpy.C14.sub_accepts_base_accepts_reachable",
    "Typedpy.C14.direct_sub_accepts_base_accepts",
    "Typedpy.reachable_sigOk",
    "Typedpy.reachable_bridge_wf",
]
RULE = ("histories of class statements: DAG hierarchies of 1..4 classes (single / two struct bases, plain mixins "
        "before or after, ImmutableStructure / FinalStructure / AbstractStructure roots), fields from the type-directed "
        "declaration generator with `default=` / annotation `=` / class-form defaults (literal or generating function), "
        "Constants, `_required` / `_optional` / `_additional_properties` / `_ignore_none` / `_immutable` at every level, "
        "redeclaration of inherited names, other class attributes, @keys_of with 1..3 enum classes over own and inherited "
        "names (p=0.15, a third of them with one member of one enum - any argument position - not a field); every third "
        "case appends every single-fault variant (unknown attribute: fresh name, and a name that already exists on a plain "
        "mixin / on an ancestor Structure defined while the guard was off / as an internal name of Structure, at depth "
        "1..3, values bool / list / dict, guard switched inside the history; keys_of: 1/2/3 enums x every position of the enum holding the missing "
        "member, the other members being own / inherited fields) "
        "(with its fault-free control) for both guard settings drawn at random; built by type(name, bases, dict) or by "
        "exec of class-statement text; outside the faults stream every class that defines is also rendered through the bridge "
        "(FieldDecl.struct compared with the real class) and constructed from 6 keyword lists (2 valid by construction, one "
        "field replaced by a boundary neighbour / a value of another type / None, one argument missing, an undeclared "
        "keyword or a Constant passed) through the constructor and - for the first two lists, all lists on abstract classes - "
        "from_other_class(mapping), class-level trust flag, from_trusted_data(**kw) / (mapping) and trusted deserialization; "
        "accepted lists are replayed, restricted, on every ancestor whose fields are inherited unchanged; "
        "non-trivial = >= 2 class statements; distinct by sha256 of the case line")
ASSUMPTIONS = [
    "class identity is the class name (the harness uses fresh names); a literal None default is generated and modelled (it is no default); default factories returning None and Structure-instance defaults are not generated",
    "typing-style annotations (list[int], Optional[...]) are C13's subject; entries here are Field objects / Field classes",
    "PYTHONHASHSEED=0 in the run; the order of the required parameters (a Python set) is read off the real signature and given to the model as an oracle (theorem: accept/reject does not depend on it); _required / signature-required are compared as sets",
    "a sunder/dunder-named attribute holding a bare type is exempted by the code (_is_sunder/_is_dunder) and not counted as the fault",
]


def cases(rng, tier):
    return S.gen_define_cases(rng, tier, 900 if tier == "quick" else 9000)


def search_cases(rng, tier):
    return S.gen_define_cases(rng, "thorough", 400)


run_impl = S.run_impl
line = S.line
tags = S.tags
nontrivial = S.nontrivial
describe = S.describe


def judge(case, impl, model):
    msg = S.correspondence(case, impl, model)
    fails = []
    steps = case["steps"]
    results = impl.get("steps", [])
    for i, (st, r) in enumerate(zip(steps, results)):
        if "skipped" in r:
            continue
        if st["op"] == "abstract":
            if "ok" in r:
                fails.append(("abstract-instantiable:AbstractStructure", "AbstractStructure() returns an instance"))
            for kwname, via in (r.get("via") or {}).items():
                for e, res in (via or {}).items():
                    if e != "ctor" and "ok" in res:
                        fails.append((f"abstract-instantiable:AbstractStructure:{e}",
                                      f"AbstractStructure through entry point {e} with arguments {kwname} returns an instance of {res['ok']}"))
            continue
        if st.get("fault"):
            kind = st["fault"]
            if st["op"] == "define":
                control = results[i - 1]
                if "ok" not in control:
                    continue   # the fault-free control does not define cleanly: no verdict
            if st.get("expect_raise") and "ok" in r:
                nm = st.get("src", {}).get("name") or st.get("name")
                key_kind = "keys-of-missing" if kind.startswith("keys-of-missing") else re.sub(r":depth\d+$", "", kind)
                fails.append((f"fault-accepted:{key_kind}",
                              f"class statement {nm} with fault '{kind}' did not raise: "
                              + (json.dumps(st["src"].get("keysOf")) + " " if st.get("src", {}).get("keysOf") else "")
                              + json.dumps(st.get("src", {}).get("entries", [])[-1:])[:300]))
            if "err" in r and st["op"] == "define" and st["src"]["name"] in json.dumps(results[i + 1:i + 2]):
                pass
            continue
        if st["op"] != "define" or "ok" not in r:
            continue
        obs = r["obs"]
        name = st["src"]["name"]
        # @keys_of: a class the decorated statement yields has a field for every member of every enum
        have = {n for n, _ in r["ok"]["fields"]}
        for pos, members in enumerate(st["src"].get("keysOf") or []):
            lacking = [n for n in members if n not in have]
            if lacking:
                fails.append(("fault-accepted:keys-of-missing",
                              f"class statement {name} decorated with @keys_of({len(st['src']['keysOf'])} enums) did not raise "
                              f"although members {lacking} of enum #{pos + 1} {members} are not fields (fields: {sorted(have)})"))
        for b in obs["bases"]:
            if b["missing_fields"]:
                fails.append(("fields-not-superset", f"{name} lacks fields {b['missing_fields']} of base {b['base']}"))
            for n in b["missing_required"]:
                if n in b["base_constants"] and (n in b["redeclared"] or n in b.get("replaced_constants", [])):
                    continue   # the base's Constant is a Field in the subclass (replaced by the subclass or by a branch earlier in the MRO)
                if n in b["base_constants"]:
                    key = "required-not-superset:constant"
                elif n in b["shadowed"]:
                    key = "required-not-superset:optional-in-earlier-base"
                elif n in b["redeclared"]:
                    key = "required-not-superset:redeclared"
                else:
                    key = "required-not-superset"
                fails.append((key, f"{name}._required lacks '{n}' required by base {b['base']}"))
        for f in obs["inherited"]:
            if "diff" in f:
                fails.append(("inherited-field-behaviour",
                              f"{name}.{f['field']} (inherited from {f['owner']}) treats {json.dumps(f['diff']['value'])[:120]} "
                              f"differently: base {f['diff']['first']} sub {f['diff']['second']}"))
            if "default_diff" in f:
                fails.append(("inherited-field-default", f"{name}.{f['field']} default differs from {f['owner']}: {f['default_diff']}"))
        if obs.get("abstract_instantiated"):
            fails.append(("abstract-instantiable:direct-subclass", f"{name}() of a direct AbstractStructure subclass did not raise the abstract TypeError"))
        if S.is_abstract_src(st["src"]):
            for c in r.get("ctor", []):
                for e, res in (c.get("via") or {}).items():
                    if "ok" in res:
                        fails.append((f"abstract-instantiable:direct-subclass:{e}",
                                      f"{name} lists AbstractStructure as a direct base but entry point {e} returns an instance "
                                      f"of {res['ok']} for {json.dumps(c['kw'])[:160]}"))
        for ca in obs.get("cast_to_abstract", []):
            fails.append(("abstract-instantiable:cast_to",
                          f"an instance of {name} cast_to its abstract ancestor {ca['target']}: {ca.get('got') or ca.get('err')}"))
        for br in obs.get("base_rejects", []):
            fails.append(("base-rejects-what-sub-accepts",
                          f"{name}(**kw) is accepted but base {br['base']} raises {br['err']} ({br['msg']}) on the same "
                          f"arguments restricted to its fields: {json.dumps(br['kw'])[:200]}"))
        if not obs.get("bases_unchanged", True):
            fails.append(("base-changed-by-subclassing", f"defining {name} changed one of its bases"))
    return msg, fails
