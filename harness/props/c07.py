"""C07 — key-renaming mappers apply consistently in both directions at every level."""
import json
from ..suites import mapper as S

ID = "C07"
SUITE = "mapper"
LEAN_TARGETS = ["TypedpyModel.Props.C07", "TypedpyModel.Audit.C07"]
AUDIT = "C07"
THEOREMS = [
    "Typedpy.C07.agg_field_pointwise",
    "Typedpy.C07.ser_deser_same_field_keys",
    "Typedpy.C07.ser_keys_eq_image",
    "Typedpy.C07.ser_keys_every_level",
    "Typedpy.C07.dropped_absent",
    "Typedpy.C07.no_collision_if_injective",
    "Typedpy.C07.mapper_round_trip",
    "Typedpy.C07.mapper_round_trip_serialize",
    "Typedpy.C07.absent_field_not_captured",
    "Typedpy.C07.flat_round_trip",
    "Typedpy.C07.bad_mapper_key_rejected",
    "Typedpy.C07.good_mapper_keys_accepted",
    "Typedpy.C07.fallback_capture_fixed",
    "Typedpy.C07.dns_deserialize_fixed",
    "Typedpy.C07.dns_populated_outside_domain",
    "Typedpy.C07.nested_resync_counterexample",
    "Typedpy.C07.C07_statement_false",
    "Typedpy.C07.round_trip_example",
    "Typedpy.C07.cache_transparent",
    "Typedpy.C07.history_transparent",
    "Typedpy.C07.history_transparent_from_empty",
    "Typedpy.C07.spec_ser_eq_ser",
    "Typedpy.C07.ser_aggregate_pointwise_every_level",
    "Typedpy.C07.deser_aggregate_shape",
    "Typedpy.C07.sync_in_region",
    "Typedpy.C07.mapper_round_trip_region",
    "Typedpy.C07.step_ok_of_plain",
    "Typedpy.C07.region_example",
    "Typedpy.C07.region_all_dict_example",
    "Typedpy.C07.region_nested_entry_example",
    "Typedpy.C07.region_enum_everywhere_example",
    "Typedpy.C07.mro_collection_example",
    "Typedpy.C07.serC_eq_ser",
    "Typedpy.C07.map_values_example",
    "Typedpy.C07.camel_idempotent_ascii",
    "Typedpy.C07.mapper_round_trip_region_ascii",
    "Typedpy.C07.mapper_round_trip_K",
    "Typedpy.C07.mapper_round_trip_region_K",
    "Typedpy.C07.keep_undefined_leak_fixed",
    "Typedpy.C07.inherited_closed_fixed",
    "Typedpy.C07.closed_round_trip_example",
    "Typedpy.C07.closed_tree_round_trip",
    "Typedpy.C07.deserializer_default_keeps_nothing",
    "Typedpy.C07.cache_transparent_nested",
    "Typedpy.C07.history_transparent_nested",
    "Typedpy.C07.cache_nested_example",
]
RULE = ("class hierarchies (1-3 levels of single inheritance, fresh classes per case) with 1-7 Integer / nested "
        "fields (nested classes directly, in Array, in Set — every other single-level Set item class is an ImmutableStructure; nesting depth <= 3), per-class _serialization_mapper "
        "drawn from {none, dict rename incl. swaps / rotations / chains on the current key / renames onto other "
        "field names / dotted keys / DoNotSerialize / explicit '<field>._mapper' entries, TO_LOWERCASE, "
        "TO_CAMELCASE, lists of 1-3 of these}; field names from 20 shapes (a_b1, x, aB, first_name, X, firstName, "
        "...) chosen to collide under upper()/camelCase; valid instances with optional fields absent with p in "
        "{0.2,0.5,0.8}; camel_case_convert on/off; use_strict_mapping on/off; explicit mapper= (22%, of which 30% "
        "with a non-field key) to Serializer and Deserializer; plus the identity-keyed document through the "
        "Deserializer (fallback / strict behaviour); 15% of the cases deserialize through deserialize_structure(..., "
        "keep_undefined=False); a stream of class trees in which some classes set _additional_properties / "
        "_additionalProperties = False (on the class or on a base level, outer and/or nested) — since round 2 compared "
        "with the Lean model too (undefined keys kept / refused); a stream with explicit keep_undefined=True / False to "
        "Deserializer.deserialize; a stream of classes that also define _deserialization_mapper (a copy of the "
        "serialization mapper, or a different one: then compared with the model only); a stream of classes with SEVERAL "
        "BASES (3-5 class statements, diamonds, each with own fields and mapper attribute; the Lean model computes the "
        "C3 linearisation and collects the attributes along it); a stream of classes holding structures as Map values next to directly / Array-nested ones, "
        "full mapper vocabulary, keep_undefined None/True/False — compared with the Lean model (class-directed serializer); an "
        "ORACLE-ONLY stream of classes holding structures as "
        "Map values (Map[String, V], Array[Map[String, V]], V with a nested class, safe mappers only: specified document "
        "and round trip on the real code); an ORACLE-ONLY stream of FunctionCall mapper values (one FunctionCall without / with "
        "field-name args, optional rename of another field, top / nested / Array-nested, explicit mapper= or class-level, "
        "camel on/off: specified document and round trip with the inverse function); an ORACLE-ONLY stream of String / Boolean / "
        "Float / Integer leaves incl. falsy values under collision-free mappers (flat, nested, Array-nested): specified "
        "document and round trip; three further ORACLE-ONLY streams: holders with POSITIONAL items of several classes sharing a "
        "field name (Array(items=[A, B])) serialized before / after the item classes on their own (each class alone must "
        "keep its own keys; entries of aggregated_mapper_by_class must never change once filed — the latter also checked after "
        "every call of every modelled history); nested values that are instances of a SUBCLASS of the declared class (direct "
        "field and Array item) x camel_case_convert (own class's keys, camelCased); a BASE class round trip first (on its own "
        "or reached as a nested class) and then its field-adding SUBCLASS's in one process; 40% of the cases carry a HISTORY of 1-3 earlier calls in the same "
        "process on the same class objects (same class with the other / same camel flag, same / other override, "
        "a nested class serialized on its own first), plus a directed stream of [camel, plain, camel] and [plain, "
        "camel] histories per class (process-wide cache aggregated_mapper_by_class); every call of a history is "
        "compared with the model (which threads the cache, nested-class entries included: every entry the real code "
        "files under a key the model files too must hold the model's aggregate) and judged by the oracle. Non-trivial = "
        "some mapper, camel flag or explicit mapper present; distinct by sha256 of the canonical case line")
ASSUMPTIONS = [
    "the Lean model is rename-only: no FunctionCall / Constant values (FunctionCall: oracle-only stream); structures stored as Map values are in the Lean model but outside its round-trip theorems and specification document (their round trip is judged by the oracle-only stream)",
    "scalar fields of the Lean model are Integer fields (other JSON-native scalars: oracle-only stream); Set[...] fields are compared order-insensitively; no compact form",
    "PYTHONHASHSEED=0 (the order of instance attributes, which decides the winner of a key collision, comes from the constructor signature)",
    "entry points: Deserializer(cls, ...).deserialize(doc) with its default keep_undefined or an explicit one, and deserialize_structure(..., keep_undefined=False); an explicit keep_undefined=True (and deserialize_structure's default) deliberately keeps every key that is not a field name, mapped keys included (pinned by typedpy's test_custom_mapper_keeps_undefined_attributes), so it is compared with the model but is not an entry point of the round-trip claim",
    "a _deserialization_mapper that differs from the serialization mapper asks for different keys by design: compared with the model, never judged for round trip",
    "camel_case_convert switches keep_undefined off for every class that does not set _additional_properties = True explicitly (such classes are not generated)",
    "several bases: field order and required set are read from the real class (the class-definition properties C12/C14 own that part); the mapper collection along the MRO is modelled",
    "round trip demanded only where: no populated field is dropped (an instance with a populated DoNotSerialize field is never judged for round trip), populated keys distinct and not equal to an absent field's key, no dotted key — at every level",
]


def cases(rng, tier):
    return S.gen_cases(rng, tier, 2000 if tier == "quick" else 26000)


def search_cases(rng, tier):
    return S.gen_cases(rng, "thorough", 700)


run_impl = S.run_impl
line = S.line
tags = S.tags
nontrivial = S.nontrivial
describe = S.describe


def judge(case, impl, model):
    """the main call and every call of its history are judged alike"""
    if case.get("oracle") == "map":
        return S.judge_map(case, impl)
    if case.get("oracle") == "fc":
        return S.judge_fc(case, impl)
    if case.get("oracle") == "scalar":
        return S.judge_scalar(case, impl)
    if case.get("oracle") == "positional":
        return S.judge_positional(case, impl)
    if case.get("oracle") == "subclass":
        return S.judge_subclass(case, impl)
    if case.get("oracle") == "inherit":
        return S.judge_inherit(case, impl)
    cd = case["cls"]
    pre = case.get("pre") or []
    hist = ""
    if pre:
        hist = (" [history before this call: "
                + "; ".join(f"{c['target']} camel={c['camel']} override={'yes' if c['explicit'] else 'no'}" for c in pre)
                + "]")
    msg, fails = judge_call(cd, case, impl, model, hist)
    if impl.get("cache_mutated"):
        fails.append(("cache-entry-mutated:aggregated_mapper_by_class",
                      "an entry of the process-wide mapper cache changed after it was filed: "
                      + json.dumps(impl["cache_mutated"])[:500] + hist))
    ipre, mpre = impl.get("pre") or [], model.get("pre") or []
    if pre and (len(ipre) != len(pre) or len(mpre) != len(pre)):
        return msg or "history length mismatch between case, real run and model", fails
    for i, (call, im, mo) in enumerate(zip(pre, ipre, mpre)):
        tcd = S.find_cd(cd, call["target"])
        m2, f2 = judge_call(tcd, call, im, mo, f" [call #{i + 1} of the history, on {call['target']}]")
        if m2 and not msg:
            msg = f"history call #{i + 1}: {m2}"
        fails += f2
    return msg, fails


def judge_call(cd, case, impl, model, hist):
    msg = S.correspondence(cd, impl, model)
    fails = []
    # ---- explicit mapper naming a non-field must be rejected when the wrapper is built
    bad = S.bad_explicit_keys(case, cd)
    if bad:
        for w, name in (("ser_wrapper", "Serializer"), ("des_wrapper", "Deserializer")):
            if impl.get(w) == "ok":
                fails.append((f"bad-mapper-key-accepted:{name}",
                              f"{name} built with explicit mapper naming non-field(s) {bad}"))
            elif impl.get(w) != "ValueError":
                fails.append((f"bad-mapper-key-error-class:{name}",
                              f"{name} rejected non-field key(s) {bad} with {impl.get(w)}, not ValueError"))
        return msg, fails
    if "ser_err" in impl:
        fails.append((f"serialize-raises:{impl['ser_err']}",
                      f"serializing a valid instance raised {impl['ser_err']}: {impl.get('ser_msg')} for instance "
                      + json.dumps(case["kw"])[:200] + " mappers "
                      + json.dumps([lv["mapper"] for lv in cd["levels"]])[:300] + hist))
    if "doc" not in impl:
        return msg, fails
    real_doc = S.wire_to_py(impl["doc"])
    spec_doc = S.wire_to_py(model["spec"])
    # ---- key-set law at every level (incl. DoNotSerialize absent, no collision the mapper does not make)
    if real_doc != spec_doc and not S.has_maps(cd):       # the specification document has no Map values
        fails.append((keyset_key(real_doc, spec_doc),
                      f"serialized document (camel_case_convert={case['camel']}) is not the image of the populated "
                      "fields under the aggregated mapping: real " + json.dumps(real_doc)[:300] + " specified "
                      + json.dumps(spec_doc)[:300] + hist))
    # ---- round trip inside the demanded domain
    hyp = model["hyp"]
    # theorems checked against the model itself (a contradiction means model/driver and proofs diverged)
    if hyp.get("region") and hyp.get("domE") and not hyp.get("rtNoKu", hyp["rt"]) and not msg:
        msg = "inside regionOK and levelDomE but levelOK fails somewhere: theorem sync_in_region contradicted"
    if hyp.get("wf") and hyp.get("conf") and model["spec"] != model["ser"] and not msg:
        msg = "model document differs from the specification document: theorem spec_ser_eq_ser contradicted"
    # not demanded: an explicit keep_undefined=True (keeps every key that is not a field name, by design),
    # a _deserialization_mapper that differs from the serialization mapper (different keys by design)
    demanded = S.call_ku(case) is not True and not S.des_differs(cd)
    if hyp["dom"] and "deser" in impl and demanded:
        r = impl["deser"]
        good = ("ok" in r and r.get("equal") and not r.get("extras")
                and S.canon_inst(r["ok"], cd) == S.canon_inst(impl["inst_canon"], cd))
        if not good:
            # dom and not rtNoKu  <=>  Sync fails at some (necessarily nested) level;
            # rtNoKu and not rt   <=>  some serialized key of some level is kept as an undefined attribute
            #                          (exFree fails: keep_undefined reaches a class that does not drop it)
            if not hyp.get("rtNoKu", hyp["rt"]):
                key = "nested-resync"
            elif not hyp["rt"]:
                key = "roundtrip:undefined-keys-unexplained"
                if r.get("extras"):
                    key = "keep-undefined-leak:Deserializer-closed-outer"
                elif "err" in r and "non-field" in r.get("msg", ""):
                    key = "inherited-closed-class-rejects-mapped-key:deserialize_structure_internal"
            else:
                key = "roundtrip:unexplained"
                if hyp.get("region") and hyp.get("domE"):
                    key = "roundtrip:inside-the-proved-region"
                # the former findings fixed in /repo 0225533 / 005d815 keep their keys if they return
                if S.closed(cd) and r.get("extras"):
                    key = "keep-undefined-leak:Deserializer-closed-outer"
                elif S.closed(cd) and "err" in r and "non-field" in r.get("msg", ""):
                    key = "inherited-closed-class-rejects-mapped-key:deserialize_structure_internal"
            fails.append((key, "deserialize(serialize(x)) != x: document " + json.dumps(real_doc)[:200] + " gave "
                          + json.dumps(r)[:300] + " for instance " + json.dumps(case["kw"])[:200]
                          + " mappers " + json.dumps([lv["mapper"] for lv in cd["levels"]])[:300] + hist))
    return msg, fails


def keyset_key(real, spec):
    if isinstance(real, dict) and isinstance(spec, dict):
        if set(real) != set(spec):
            return "keyset-law:" + ("missing" if set(spec) - set(real) else "extra")
        for k in real:
            if real[k] != spec[k]:
                return keyset_key(real[k], spec[k]).replace("keyset-law:", "keyset-law:nested-")
    if isinstance(real, list) and isinstance(spec, list) and len(real) == len(spec):
        for a, b in zip(real, spec):
            if a != b:
                return keyset_key(a, b)
    return "keyset-law:value"
