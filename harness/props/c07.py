"""C07 — key-renaming mappers apply consistently in both directions at every level."""
import json
from ..suites import mapper as S

ID = "C07"
SUITE = "mapper"
LEAN_TARGETS = ["TypedpyModel.Props.C07", "TypedpyModel.Audit.C07"]
AUDIT = "C07"
THEOREMS = [
    "Typedpy.C07.agg_field_pointwise",
    "Typedpy.C07.ser_deser_same_field_keys",
    "Typedpy.C07.ser_keys_eq_image",
    "Typedpy.C07.ser_keys_every_level",
    "Typedpy.C07.dropped_absent",
    "Typedpy.C07.no_collision_if_injective",
    "Typedpy.C07.mapper_round_trip",
    "Typedpy.C07.mapper_round_trip_serialize",
    "Typedpy.C07.flat_round_trip",
    "Typedpy.C07.bad_mapper_key_rejected",
    "Typedpy.C07.good_mapper_keys_accepted",
    "Typedpy.C07.fallback_capture_counterexample",
    "Typedpy.C07.strict_mapping_no_capture_example",
    "Typedpy.C07.dns_blocks_deserialize_counterexample",
    "Typedpy.C07.nested_resync_counterexample",
    "Typedpy.C07.C07_statement_false",
    "Typedpy.C07.round_trip_example",
]
RULE = ("class hierarchies (1-3 levels of single inheritance, fresh classes per case) with 1-7 Integer / nested "
        "fields (nested classes directly, in Array, in Set; nesting depth <= 3), per-class _serialization_mapper "
        "drawn from {none, dict rename incl. swaps / rotations / chains on the current key / renames onto other "
        "field names / dotted keys / DoNotSerialize / explicit '<field>._mapper' entries, TO_LOWERCASE, "
        "TO_CAMELCASE, lists of 1-3 of these}; field names from 20 shapes (a_b1, x, aB, first_name, X, firstName, "
        "...) chosen to collide under upper()/camelCase; valid instances with optional fields absent with p in "
        "{0.2,0.5,0.8}; camel_case_convert on/off; use_strict_mapping on/off; explicit mapper= (22%, of which 30% "
        "with a non-field key) to Serializer and Deserializer; plus the identity-keyed document through the "
        "Deserializer (fallback / strict behaviour). Non-trivial = some mapper, camel flag or explicit mapper "
        "present; distinct by sha256 of the canonical case line")
ASSUMPTIONS = [
    "rename-only mappers: no FunctionCall / Constant values, no Map-nested structures, no _deserialization_mapper, single inheritance",
    "scalar fields are Integer fields; Set[...] fields are compared order-insensitively; default class options (additional properties allowed, no compact form)",
    "PYTHONHASHSEED=0 (the order of instance attributes, which decides the winner of a key collision, comes from the constructor signature)",
    "round trip demanded only where: no populated field is dropped, populated keys distinct and not equal to an absent field's key, no dotted key — at every level",
]


def cases(rng, tier):
    return S.gen_cases(rng, tier, 2000 if tier == "quick" else 36000)


def search_cases(rng, tier):
    return S.gen_cases(rng, "thorough", 700)


run_impl = S.run_impl
line = S.line
tags = S.tags
nontrivial = S.nontrivial
describe = S.describe


def judge(case, impl, model):
    msg = S.correspondence(case, impl, model)
    fails = []
    cd = case["cls"]
    # ---- explicit mapper naming a non-field must be rejected when the wrapper is built
    bad = S.bad_explicit_keys(case)
    if bad:
        for w, name in (("ser_wrapper", "Serializer"), ("des_wrapper", "Deserializer")):
            if impl.get(w) == "ok":
                fails.append((f"bad-mapper-key-accepted:{name}",
                              f"{name} built with explicit mapper naming non-field(s) {bad}"))
            elif impl.get(w) != "ValueError":
                fails.append((f"bad-mapper-key-error-class:{name}",
                              f"{name} rejected non-field key(s) {bad} with {impl.get(w)}, not ValueError"))
        return msg, fails
    if "ser_err" in impl:
        fails.append((f"serialize-raises:{impl['ser_err']}",
                      f"serializing a valid instance raised {impl['ser_err']}: {impl.get('ser_msg')} for instance "
                      + json.dumps(case["kw"])[:200] + " mappers "
                      + json.dumps([lv["mapper"] for lv in cd["levels"]])[:300]))
    if "doc" not in impl:
        return msg, fails
    real_doc = S.wire_to_py(impl["doc"])
    spec_doc = S.wire_to_py(model["spec"])
    # ---- key-set law at every level (incl. DoNotSerialize absent, no collision the mapper does not make)
    if real_doc != spec_doc:
        fails.append((keyset_key(real_doc, spec_doc),
                      "serialized document is not the image of the populated fields under the aggregated "
                      "mapping: real " + json.dumps(real_doc)[:300] + " specified " + json.dumps(spec_doc)[:300]))
    # ---- round trip inside the demanded domain
    hyp = model["hyp"]
    if hyp["dom"] and "deser" in impl:
        r = impl["deser"]
        good = "ok" in r and r.get("equal") and S.canon_inst(r["ok"], cd) == S.canon_inst(impl["inst_canon"], cd)
        if not good:
            if hyp["rt"]:
                key = "roundtrip:unexplained"
            elif hyp["rtNoCap"]:
                key = "fallback-capture"
            elif not hyp["keys"]:
                key = "dns-blocks-deserialize"
            else:
                key = "nested-resync"
            fails.append((key, "deserialize(serialize(x)) != x: document " + json.dumps(real_doc)[:200] + " gave "
                          + json.dumps(r)[:300] + " for instance " + json.dumps(case["kw"])[:200]
                          + " mappers " + json.dumps([lv["mapper"] for lv in cd["levels"]])[:300]))
    return msg, fails


def keyset_key(real, spec):
    if isinstance(real, dict) and isinstance(spec, dict):
        if set(real) != set(spec):
            return "keyset-law:" + ("missing" if set(spec) - set(real) else "extra")
        for k in real:
            if real[k] != spec[k]:
                return keyset_key(real[k], spec[k]).replace("keyset-law:", "keyset-law:nested-")
    if isinstance(real, list) and isinstance(spec, list) and len(real) == len(spec):
        for a, b in zip(real, spec):
            if a != b:
                return keyset_key(a, b)
    return "keyset-law:value"
