"""C08 — the exported JSON schema is well-formed and admits every serialized valid instance."""
import re
from ..suites import schema as S

ID = "C08"
SUITE = "schema"
LEAN_TARGETS = ["TypedpyModel.Props.C08", "TypedpyModel.Audit.C08"]
AUDIT = "C08"
try:
    THEOREMS = re.findall(r"#print axioms (\S+)", open(__file__.rsplit("/harness/", 1)[0] + "/lean/TypedpyModel/Audit/C08.lean").read())
except OSError:
    THEOREMS = []
RULE = ("classes over the schema-mappable fragment (Integer/Number/Float with bounds, exclusiveMaximum, multiplesOf and sign "
        "classes; String with length/pattern; Boolean; Enum of literals / enum classes; Array homogeneous / positional "
        "with and without additionalItems; Tuple homogeneous / positional; Set; Map with plain, constrained and non-String "
        "keys; nested classes by $ref incl. one class referenced twice and two classes under one name; StructureReference; "
        "AllOf/AnyOf/OneOf/NotField; Optional and its neighbouring non-Optional shapes, also in ELEMENT position (array / tuple / "
        "set item, map value, positional item); defaults (in normal form); field-wrapper classes; 8% with "
        "Anything/NoneField; 1200 classes quick / 16000 thorough; 10% of them additionally with a key-renaming "
        "_serialization_mapper: ONE dict mapper on the top-level class that renames its own keys to strings = modelled "
        "(Sch.classSchemaM / renameDoc: model schema and model serialization compared with the real ones); case converters, "
        "'<field>._mapper' entries, mappers on nested classes = oracle-only stream), up to 3 valid "
        "instances per class plus instances poked into the known regions (bool in a numeric field, None for a defaulted "
        "field), up to 24 boundary documents per class (every bound of every top-level field +-1, missing/extra key, wrong "
        "JSON type, single-point corruptions). Correspondence: model schema/definitions == real (canonical), Lean "
        "wfDocument == Draft4Validator.check_schema + $ref resolution, Lean jsValidFuel == Draft4Validator.is_valid on the "
        "same (real schema, document) pairs, model serialization == real. Oracle on the real code: check_schema of the "
        "dialect-fixed schema, every $ref resolves, every serialized valid instance validates, and on the statement's exact "
        "sub-fragment every admitted boundary document (and the base document they vary) is accepted by the real Deserializer; "
        "a failure inside the hypotheses of a proved theorem is keyed *:inside-the-proved-region. non-trivial = constraint, "
        "nesting or more than one field; distinct by case hash")
ASSUMPTIONS = [
    "key-renaming serialization mappers are in the Lean model only as one string-valued key map on the top-level class; everything else about mappers is exercised by the oracle-only stream",
    "Enum serialization_by_value, DecimalNumber, date/time fields, custom to_json_schema are not in the model",
    "regular expressions are an oracle: re.match answers for typedpy, re.search answers for the validator, supplied per case; the theorems assume match => search (and search => match for start-anchored patterns)",
    "a field-wrapper class (one required field, no additional properties) is paired with compact=True serialization at top level, as the documentation does",
]


def cases(rng, tier):
    return S.gen_cases(rng, tier, 1200 if tier == "quick" else 16000)


def search_cases(rng, tier):
    return S.gen_cases(rng, "thorough", 900)


run_impl = S.run_impl
line = S.line
tags = S.tags
nontrivial = S.nontrivial
describe = S.describe


def judge(case, impl, model):
    return S.correspondence(case, impl, model), S.oracle(case, impl, model)
