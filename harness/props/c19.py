"""C19 — operations never mutate caller data and never hand out live internal state."""
import os
import re

from ..suites import alias as S

ID = "C19"
SUITE = "alias"
LEAN_TARGETS = ["TypedpyModel.Props.C19", "TypedpyModel.Audit.C19"]
AUDIT = "C19"
THEOREMS = re.findall(r"#print axioms (\S+)", open(os.path.join(
    os.path.dirname(os.path.dirname(os.path.dirname(os.path.abspath(__file__)))),
    "lean", "TypedpyModel", "Audit", "C19.lean")).read())
RULE = ("per generated class (DeclGen over the whole field vocabulary incl. untyped collections, positional items, "
        "inline/ClassReference structures, AnyOf/OneOf/AllOf; ValGen values; 30% restricted to the fast-serializable "
        "kinds): construct (valid and corrupted kwargs), setattr per non-scalar field, Deserializer on the JSON image "
        "and on single-point corruptions, Serializer / serialize() / compact, <field>.serialize per field, "
        "create_serializer + .serialize(), Omit/Pick/Extend/Partial/AllFieldsRequired with a names list, "
        "structure_to_schema, schema_to_struct_code, convert_dict over 3 documents x mapping histories (Constant, "
        "Deleted, rename, nested ._mapper, FunctionCall); multi-field wrappers keep ALL their options (at most one per "
        "container value class; the model picks per value / per element), 20% of the classes are ImmutableStructures "
        "(modelled: `owned`); the trusted short cuts (direct_trusted_mapping via Deserializer / deserialize_structure on "
        "every generated class and on 7 hand-built class shapes with enum.Enum-backed Enum fields, nested classes, arrays "
        "of nested classes x 4 mappers; from_trusted_data mapping / kwargs; trust_supplied_values: argument snapshots only); "
        "one direct probe per public entry point outside the operation streams (harness/suites/alias_api.py); schema streams "
        "over the ext field kinds AND user-defined SerializableField / Field subclasses with a pass-through serialize and "
        "mutable dict / list defaults; plus one "
        "directed witness case per (operation, table site) (~560).  Per case on the real code: deep snapshot of every argument before/after (failing calls included); "
        "`is`-identity comparison of the source object graph with the produced/kept graph; poke oracle = every native "
        "mutator (introspected from the runtime type: list/dict/deque/set members found by probing the native type, "
        "Structure setattr/del) on every mutable object reachable from the returned value (output ops) or from the "
        "arguments (input ops), instance/class fingerprint (deep canonical field values + Serializer output; class: "
        "_required, field names, mapper, enum values, defaults, schema output) compared before/after, one fresh "
        "situation per detected change.  Lean side: the heap model runs on the abstraction (heapify) of the same "
        "source graph with the declaration abstracted to a Shape under the table regenerated from /repo; predicted "
        "shared source cells and argument mutation must equal the real verdicts.  non-trivial = every case; "
        "distinct by sha256 of the case")
ASSUMPTIONS = [
    "scope of the retained-input clause (statement: 'constructor of typed fields'): untyped content (Anything, elements "
    "of untyped collections, undeclared keys/additional properties, additional positional items, whatever a NotField "
    "lets through) and Structure instances passed to ClassReference fields are shared by reference by design and are "
    "excluded (`inScopeSite`); they are still modelled and corresponded",
    "the `definitions` dict of structure_to_schema is an accumulator (statement) and is not part of the snapshot",
    "cyclic argument graphs and recursion-limit depths are outside the generated cases (the model's deep copy fails "
    "when its fuel runs out, like RecursionError)",
    "default configuration (defensive_copy_on_get on, uniqueness features off); the trusted short cuts "
    "(direct_trusted_mapping, from_trusted_data, trust_supplied_values) keep what they are given by contract: only their "
    "argument snapshots are judged; the `mapper=` argument is passed as None / dict / list of chained mappers and "
    "snapshotted, the renaming semantics of custom mappers are C07's (suite `mapper`)",
    "which option of a multi-field wrapper takes a value is decided by the model from the value's shape (Python container "
    "class / scalar class); value constraints of the options are not modelled, so generated wrappers keep at most one option "
    "per container value class (sequence-like, dict-like) and no NotField / Anything option",
    "nested classes of generated declarations are given the FastSerializable mixin by the harness before fast "
    "serialization (dump.build_class builds plain Structures)",
    "PYTHONHASHSEED=0",
]
TRUSTED_EXTRA = [
    "extract/aliasing.py (AST idiom matcher + witness probe producing Generated/Aliasing.lean), "
    "harness/aliasprobe.py heapify/object_graph (abstraction of Python object graphs to heap cells: containers and "
    "Structure instances are cells, everything else an atom carrying its Python class; typed wrappers and "
    "ImmutableStructure instances tagged apart) and harness/suites/alias.shape_for (declaration -> Shape, all options of a "
    "multi-field wrapper; the option `<Wrapper>.serialize` delegates to is read off the source)",
    "harness/suites/alias.py py_fits / resolve_shape / site_chain_v (Python mirror of the model's option choice): used only "
    "to NAME the table site a finding is blamed on and to see which site a witness exercises, never for a verdict",
    "harness/suites/alias_api.py (introspection of the public API; one probe per entry point outside the operation streams)",
]


def pre_build():
    from extract import aliasing
    aliasing.generate()


def cases(rng, tier):
    return S.gen_cases(rng, tier, 60 if tier == "quick" else 1100)


def search_cases(rng, tier):
    return S.gen_cases(rng, "thorough", 150)


run_impl = S.run_impl
line = S.line
tags = S.tags
nontrivial = S.nontrivial
describe = S.describe
judge = S.judge
