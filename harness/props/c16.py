"""C16 — generated .pyi stubs parse and agree with the runtime constructor signatures (partial)."""
import json
from ..suites import stub as S

ID = "C16"
SUITE = "stub"
LEAN_TARGETS = ["TypedpyModel.Props.C16", "TypedpyModel.Audit.C16"]
AUDIT = "C16"
THEOREMS = [
    "Typedpy.C16.stub_names_agree", "Typedpy.C16.stub_names_are_nonconstant_fields",
    "Typedpy.C16.stub_required_agree", "Typedpy.C16.stub_default_iff",
    "Typedpy.C16.stub_kw_iff",
    "Typedpy.C16.helper_fields_agree", "Typedpy.C16.stub_mandatory_first",
    "Typedpy.C16.stub_perm_invariant", "Typedpy.C16.stub_set_invariant", "Typedpy.C16.stub_imports_sorted",
    "Typedpy.C16.required_optional_fixed_example", "Typedpy.C16.stub_params_agree_example",
    "Typedpy.C16.stub_init_text_parses",
    "Typedpy.C16.stub_helper_text_parses",
    "Typedpy.C16.init_text_parses_of_mandatory_first",
    "Typedpy.C16.stub_class_header_parses",
    "Typedpy.C16.stub_attr_text_parses",
    "Typedpy.C16.stub_method_text_roundtrip",
    "Typedpy.C16.stub_init_dupfree_iff",
    "Typedpy.C16.stub_helper_dupfree_iff",
    "Typedpy.C16.fixed_name_clash_example", "Typedpy.C16.stub_methods_dupfree",
    "Typedpy.C16.stub_text_example",
    "Typedpy.C16.parse_rejects_examples",
    "Typedpy.C16.type_info_wf", "Typedpy.C16.type_info_example",
    "Typedpy.C16.lex_render_roundtrip", "Typedpy.C16.stub_init_text_accepted",
    "Typedpy.C16.stub_helper_text_accepted", "Typedpy.C16.stub_method_text_accepted",
    "Typedpy.C16.stub_kw_agree",
    "Typedpy.C16.sig_kwargs_iff_admitted",
    "Typedpy.C16.stub_sigkw_agree",
    "Typedpy.C16.stub_kw_apd_iff",
    "Typedpy.C16.stub_params_agree",
    "Typedpy.C16.C16_statement_holds",
    "Typedpy.C16.C16_signature_statement_holds",
    "Typedpy.C16.fixed_inherited_addl_example",
    "Typedpy.C16.fixed_inherited_addl_off_example",
    "Typedpy.C16.stub_kw_apd_declared", "Typedpy.C16.stub_kw_apd_undeclared",
    "Typedpy.C16.stubD_names_agree_iff",
    "Typedpy.C16.stubD_required_agree",
    "Typedpy.C16.stubD_kw_iff",
    "Typedpy.C16.stubD_sigkw_agree", "Typedpy.C16.stubD_sigkw_is_define",
    "Typedpy.C16.stubD_mandatory_first",
    "Typedpy.C16.stubD_init_text_parses", "Typedpy.C16.stubD_helper_text_parses", "Typedpy.C16.stubD_init_text_accepted",
    "Typedpy.C16.stubD_diamond_example",
    "Typedpy.C16.fixed_diamond_names_example", "Typedpy.C16.stubD_sig_names_in_stub_reachable",
    "Typedpy.C16.stubD_names_agree_reachable",
    "Typedpy.C16.stubD_namesCovered_reachable",
    "Typedpy.C16.C16_define_statement_holds",
]
RULE = ("generated modules: 2-7 Structure classes (annotation and assignment style; inheritance from 1-2 earlier "
        "classes, Partial/Omit/Pick/Extend/AllFieldsRequired bases, ImmutableStructure; _required/_optional/"
        "_additional_properties/_ignore_none/_immutable written or not, incl. chains where a base sets all flags and 1-3 subclasses restate nothing; `import datetime/decimal` with attribute-access field types; typing.Optional and AnyOf/OneOf/AllOf[X, None] fields, defaults, "
        "Constants (every allowed value type, falsy and truthy incl. zero-valued IntEnum/Flag members; on the class, a base, the "
        "subclass only and through Partial/Omit/Extend), two bases declaring the same field in every pair of "
        "required/_optional/default/Constant forms in both orders, nested collections, enum/reference fields, EVERY Field class exported by the working tree (enumerated from typedpy, typedpy.fields, typedpy.extfields; each once required, once in every non-required form: _required without it, _optional, _required=[], Partial/Omit/Pick/Extend/subclass derived, and mixed into the random stream), overriding of inherited fields, custom __init__), "
        "enums, plain classes, dataclasses, functions, module constants; module-level functions, methods (Structure / plain / "
        "dataclass / staticmethod / classmethod) and user-written __init__ (Structure / plain / dataclass) over the product "
        "parameter layout (positional-only, positional, *args, keyword-only after bare * and after *args, **kw, all mixed) x "
        "default kind (none, literal, None, class, lambda, named function, functools.partial, callable instance, mutable "
        "literal), each compared by name and kind with inspect.signature; additional_properties_default in "
        "{True, False}; every module through the real create_stub_for_file, ast.parse, parameter extraction; "
        "byte-identity under 1-2 other PYTHONHASHSEEDs in fresh interpreters; Enum fields over plain values (hostile strings: quotes, backslashes, "
        "line breaks, non-ASCII, brackets; list / tuple / Enum[...] / SET-valued under other hash seeds); shared-ancestor hierarchies (6 diamond shapes, "
        "overriding along one branch, flags anywhere, the constant-shadowing family); stub default != runtime default; subclasses of classes with a "
        "user-written __init__; the module import block in every form (plain, dotted, aliased, aliased dotted, several names, from-imports) alone and mixed; per module every def/class header of the real stub and ~8 token-level mutations of them through the Lean lexer + "
        "recogniser and CPython's ast.parse; a case is non-trivial if a class has "
        ">= 2 own fields or a non-trivial base; distinct by sha256 of the canonical case")
ASSUMPTIONS = [
    "partial property: file I/O, import resolution, module constants / enum bodies / import lines and the character-level lexer are decided or corresponded by running CPython (ast.parse, compile, tokenize), not proved",
    "the recogniser models the token / expression subset the generator writes (names, subscriptions, list displays, literals, `...`; no operators, calls, slices, starred items, parentheses inside parameter lists)",
    "of get_type_info only the nesting combinators (Optional / Union / dict[..]) are modelled; every other field kind is a leaf whose annotation AST is read off the real get_type_info per case and universally quantified in the theorems",
    "tree-shaped hierarchies: theorems by induction over the whole hierarchy (Sem/Stub.lean); shared ancestors / diamonds: one-step theorems over Sem/Define.lean worlds (Sem/StubDefine.lean)",
    "classes that inherit a user-written __init__: the stub is compared with inspect.signature(cls) only",
    "TypedPyDefaults.additional_properties_default does not change between the definition of a base and of its subclasses",
]
TRUSTED_EXTRA = [
    "abstraction function harness/suites/stub.py:dump_hierarchy (real classes -> ClassInfo table), checked per case against the generated declaration",
    "CPython ast.parse / inspect.signature as oracles",
]


def cases(rng, tier):
    S.reset_work()
    cs = ([json.loads(json.dumps(c)) for c in S.CORPUS] + S.zoo_cases(rng, tier) + S.sig_cases(rng, tier) + S.const_cases(rng, tier) + S.mi_cases(rng, tier) + S.enumvals_cases(rng, tier) + S.diamond_cases(rng, tier) + S.apd_cases(rng, tier) + S.inh_init_cases(rng, tier) + S.import_cases(rng, tier)
          + S.gen_cases(rng, tier, 450 if tier == "quick" else 6000))
    S.prepare(cs)
    return cs


def search_cases(rng, tier):
    cs = S.zoo_cases(rng, tier) + S.sig_cases(rng, tier) + S.const_cases(rng, tier) + S.mi_cases(rng, tier) + S.enumvals_cases(rng, tier) + S.diamond_cases(rng, tier) + S.apd_cases(rng, tier) + S.inh_init_cases(rng, tier) + S.import_cases(rng, tier) + S.gen_cases(rng, "thorough", 150)
    S.prepare(cs)
    return cs


run_impl = S.run_impl
line = S.line
tags = S.tags
nontrivial = S.nontrivial
describe = S.describe


def final_fields(table, i):
    """field table of class i as `_get_all_fields_by_name` builds it (harness-side, for classifying failures)"""
    order = []

    def mro(j):
        order.append(j)
        for b in table[j]["bases"]:
            mro(b)
    mro(i)
    out = {}
    for j in reversed(order):
        for f in table[j]["fields"]:
            out[f["n"]] = f
    return out


def judge(case, impl, model):
    fails, msgs = [], []
    if "unbuildable" in impl or "unsupported" in impl:
        return None, fails
    for p in impl.get("abstraction", []):
        msgs.append("abstraction: " + p)
    if "gen_err" in impl:
        imported = [it["module"] for it in case["mod"]["items"] if it["kind"] == "import"]
        if imported and "AttributeError" in impl["gen_err"] and "has no attribute '__module__'" in impl["gen_err"]:
            fails.append(("generator-raises:import-name-clash",
                          f"create_stub_for_file raised {impl['gen_err']} (module does `import {imported[0]}` and a field's "
                          "python type has the module's name, e.g. datetime.datetime / DateTime)"))
        elif case.get("sig_site"):
            fails.append((f"generator-raises:signature:{case['sig_site']}:{case['sig_default']}",
                          f"create_stub_for_file raised {impl['gen_err']} (site {case['sig_site']}, default kind {case['sig_default']})"))
        elif case.get("zoo"):
            fails.append((f"generator-raises:field-kind:{case['zoo']}",
                          f"create_stub_for_file raised {impl['gen_err']} for a module with a {case['zoo_pos']} {case['zoo']} field"))
        else:
            fails.append(("generator-raises:other", "create_stub_for_file raised " + impl["gen_err"]))
        return _m(msgs), fails
    for s, sha in impl.get("seeds", {}).items():
        if sha != impl["sha"]:
            fails.append(("nondeterministic:hashseed",
                          f"stub bytes under PYTHONHASHSEED={s} differ from PYTHONHASHSEED=0 ({sha[:60]})"))
    specs = {it["name"]: it for it in case["mod"]["items"] if it["kind"] == "struct"}
    ex = impl.get("extra_imports")
    if ex is None:
        msgs.append("extra-import block not found in the stub")
    elif ex and all(x.startswith("from ") and " import " in x for x in ex) and model.get("imports") != ex:
        msgs.append(f"extra imports: model renders {model.get('imports')} real {ex}")
    if "syntax_err" in impl:
        se = impl["syntax_err"]
        if case.get("sig_site"):
            fails.append((f"unparsable-stub:signature:{case['sig_site']}:{case['sig_default']}",
                          f"generated .pyi does not parse: {se['msg']} at `{se['line']}`"))
            return _m(msgs), fails
        fails.append(("unparsable-stub:other", f"generated .pyi does not parse: {se['msg']} at `{se['line']}`"))
        return _m(msgs), fails
    if "compile_err" in impl:
        ce = impl["compile_err"]
        clash = sorted({f["n"] for d in impl["table"] for f in d["fields"]} & {"source_object", "ignore_props", "cls", "self", "kw"})
        if clash and "duplicate argument" in ce["msg"] and any(f"'{c}'" in ce["msg"] for c in clash):
            fails.append(("uncompilable-stub:parameter-name-clash",
                          f"field named {clash} collides with a fixed parameter (source_object / ignore_props / **kw) of a generated method: {ce['msg']}"))
        else:
            fails.append(("uncompilable-stub:other", f"generated .pyi parses but does not compile: {ce['msg']} at `{ce['line']}`"))
    stub = impl["stub"]["classes"]
    mclasses = {c["name"]: c for c in model["classes"]}
    dclasses = {c["name"]: c for c in model.get("classesD", [])}
    table = impl["table"]
    nontree = set(impl.get("nontree", []))
    for ti, name in zip(impl["targets"], specs):
        rv = impl["runtime"][name]
        mc = mclasses.get(name)
        dc = dclasses.get(name)
        if ti in nontree:
            mc = dc         # shared ancestor: the Define-based model (C3) is the model of this class
        elif dc is not None:
            # tree-shaped: the two models of the same code must agree with each other
            for k in ("init", "shallowClone", "fromOtherClass", "fromTrustedData", "consts", "fieldOrder",
                      "admitsExtra", "inheritedAddlOn", "inheritedAddlOff"):
                if mc[k] != dc[k]:
                    msgs.append(f"{name}: tree model and Define-based model differ in {k}: {mc[k]} / {dc[k]}")
            if sorted(mc["runtime"]["params"]) != sorted(dc["runtime"]["params"]) or mc["runtime"]["kw"] != dc["runtime"]["kw"] \
                    or sorted(set(mc["required"])) != sorted(set(dc["required"])):
                msgs.append(f"{name}: tree model and Define-based model differ in the runtime signature / _required")
        sc = stub.get(name)
        ff = final_fields(table, ti)
        # ---- correspondence: model of the runtime side vs the real class
        if sorted(mc["runtime"]["params"]) != rv["sig"]:
            msgs.append(f"{name}: runtime signature: model {sorted(mc['runtime']['params'])} real {rv['sig']}")
        if mc["runtime"]["kw"] != rv["sigkw"]:
            msgs.append(f"{name}: **kwargs in __signature__: model {mc['runtime']['kw']} real {rv['sigkw']}")
        if sorted(set(mc["required"])) != rv["required"]:
            msgs.append(f"{name}: _required: model {sorted(set(mc['required']))} real {rv['required']}")
        if sorted(mc["consts"]) != rv["consts"]:
            msgs.append(f"{name}: _constants: model {sorted(mc['consts'])} real {rv['consts']}")
        if mc["fieldOrder"] != rv["fieldOrder"]:
            msgs.append(f"{name}: field order: model {mc['fieldOrder']} real {rv['fieldOrder']}")
        admits = None
        if rv.get("guard") is not None:
            admits = rv["sigkw"] and rv["guard"]
            if mc["admitsExtra"] != admits:
                msgs.append(f"{name}: admits extra keyword: model {mc['admitsExtra']} real sig-kwargs={rv['sigkw']} guard={rv['guard']}")
        b = rv.get("behav")
        if b and b.get("base_ok"):
            if not rv["custom"]:
                if b["extra_ok"] != mc["admitsExtra"]:
                    msgs.append(f"{name}: constructor accepts extra keyword: model {mc['admitsExtra']} real {b['extra_ok']} ({b.get('extra_err')})")
                admits = b["extra_ok"]
                need_model = sorted(n for n, d in mc["runtime"]["params"] if not d)
                if b["needed"] != need_model:
                    msgs.append(f"{name}: constructor needs {b['needed']}, model signature requires {need_model}")
                if b["consts_rejected"] != rv["consts"]:
                    msgs.append(f"{name}: constants accepted as keyword: rejected {b['consts_rejected']} of {rv['consts']}")
        # ---- the stub
        if sc is None:
            fails.append(("class-missing:structure", f"Structure class {name} is not declared in the stub"))
            continue
        rt_names = {n for n, _ in rv["sig"]}
        rt_required = {n for n, d in rv["sig"] if not d}
        init = S.stub_init_view(sc)
        if not rt_names and not sc["methods"] and not rv["custom"]:
            continue    # no field keywords at all: the generator writes `pass` (nothing to disagree about)
        known_kw = mc["inheritedAddlOn"]
        if rv["custom"]:
            cs = rv["custom_sig"]
            if init is None or [init["pos"], init["kwonly"], init["vararg"], init["kw"]] != \
                    [cs["pos"], cs["kwonly"], cs["vararg"], cs["kw"]]:
                fails.append(("custom-init-mismatch", f"{name}: stub __init__ {init} differs from the user-written __init__ {cs}"))
        else:
            if init is None:
                fails.append(("init-missing", f"{name}: stub has {len(sc['methods'].get('__init__', []))} __init__ definitions"))
                continue
            if init["kwonly"] or init["vararg"]:
                fails.append(("init-shape", f"{name}: unexpected keyword-only/var-positional parameters in stub __init__"))
            # correspondence with the model (ordered)
            if init["pos"] != mc["init"]["params"] or init["kw"] != mc["init"]["kw"]:
                msgs.append(f"{name}: stub __init__: model {mc['init']} real pos={init['pos']} kw={init['kw']}")
            # oracle
            sn = [n for n, _ in init["pos"]]
            if len(sn) != len(set(sn)):
                fails.append(("duplicate-parameter:init", f"{name}: {sn}"))
            in_consts = sorted(set(sn) & set(rv["consts"]))
            if in_consts:
                fails.append(("constant-in-stub:init", f"{name}: Constant field(s) {in_consts} are keyword parameters of the stub __init__"))
            elif set(sn) != rt_names:
                if dc is not None and not dc["namesCovered"] and ti in nontree:
                    fails.append(("names-mismatch:constant-shadowed-in-diamond",
                                  f"{name}: stub __init__ keywords {sorted(sn)} != inspect.signature names {sorted(rt_names)}: a base "
                                  "took the name for a Constant (its signature drops it) while this class resolves it to "
                                  "another branch's Field"))
                else:
                    fails.append(("names-mismatch:init", f"{name}: stub __init__ keywords {sorted(sn)} != runtime-accepted {sorted(rt_names)}"))
            for n, d in init["pos"]:
                if n not in rt_names:
                    continue
                if d == (n in rt_required):
                    shape = " (AnyOf[X, None] shape)" if ff.get(n, {}).get("o") else ""
                    fails.append(("default-mismatch:init",
                                  f"{name}.{n}{shape}: stub default present={d}, runtime required={n in rt_required}"))
            if b and b.get("base_ok"):
                stub_need = sorted(n for n, d in init["pos"] if not d and n in b["given"])
                if stub_need != b["needed"]:
                    fails.append(("default-mismatch:behaviour",
                                  f"{name}: stub parameters without default {stub_need}, constructor insists on {b['needed']}"))
            seen_default = False
            for n, d in init["pos"]:
                if d:
                    seen_default = True
                elif seen_default:
                    fails.append(("param-order:init", f"{name}: mandatory parameter {n} after an optional one"))
                    break
            # the `**` clause against inspect.signature(cls) (the observation point named by the property)
            if init["kw"] != rv["sigkw"] and not (known_kw and init["kw"]) and not (
                    case["apd"] != case["dflt"] and not mc.get("addlDeclared", True)):
                if mc["inheritedAddlOff"] and rv["sigkw"] and not init["kw"] and admits is False:
                    fails.append(("inherited-additional-properties-off:signature-kwargs",
                                  f"{name}: inspect.signature(cls) has **kwargs, the stub __init__ has no **kw; the "
                                  "constructor rejects unknown keywords (_additional_properties=False only inherited): "
                                  "the runtime __signature__ is the wrong side"))
                else:
                    fails.append(("kw-mismatch:signature",
                                  f"{name}: stub **kw={init['kw']}, inspect.signature **kwargs={rv['sigkw']}, admits={admits}"))
            by_config = case["apd"] != case["dflt"] and not mc.get("addlDeclared", True)
            if admits is not None and init["kw"] != admits and by_config:
                pass        # the flag is declared nowhere: the stub's `**` clause is the configured apd
            elif admits is not None and init["kw"] != admits:
                if known_kw and init["kw"] and not admits:
                    fails.append(("inherited-additional-properties",
                                  f"{name}: stub __init__ has **kw, the constructor rejects unknown keywords "
                                  "(default off, _additional_properties=True only inherited)"))
                else:
                    fails.append(("kw-mismatch:init", f"{name}: stub **kw={init['kw']}, class admits additional properties={admits}"))
        # ---- helper methods
        for hk, mname in S.HELPERS.items():
            ms = sc["methods"].get(mname, [])
            if len(ms) != 1:
                fails.append((f"helper-missing:{mname}", f"{name}: {len(ms)} definitions"))
                continue
            h = ms[0]
            flat = h["pos"] + h["kwonly"]
            if flat != mc[hk]["params"] or h["kw"] != mc[hk]["kw"]:
                msgs.append(f"{name}.{mname}: model {mc[hk]} real {flat} kw={h['kw']}")
            if hk == "shallowClone":
                fields, ok_shape = h["pos"], not h["kwonly"] and not h["vararg"] and not h["deco"]
            else:
                want0 = ["source_object", hk == "fromTrustedData"]
                fields = h["kwonly"][1:]
                ok_shape = (h["pos"] == [want0] and h["kwonly"][:1] == [["ignore_props", True]] and not h["vararg"]
                            and h["deco"] == ["classmethod"])
            if not ok_shape:
                fails.append((f"helper-shape:{mname}", f"{name}: {h}"))
            hn = [n for n, _ in fields]
            rt_all = rt_names
            if hk != "shallowClone":    # since the repair of parameter-name-clash: what the fixed parameters shadow is left out
                rt_names = rt_all - {"source_object", "ignore_props"}
            if set(hn) != rt_names and dc is not None and not dc["namesCovered"] and ti in nontree:
                fails.append(("names-mismatch:constant-shadowed-in-diamond",
                              f"{name}.{mname}: field keywords {sorted(hn)} != inspect.signature names {sorted(rt_names)}"))
            elif set(hn) != rt_names or len(hn) != len(set(hn)):
                fails.append((f"helper-names-mismatch:{mname}",
                              f"{name}: field keywords {sorted(hn)} != runtime-accepted {sorted(rt_names)}"))
            if not all(d for _, d in fields):
                fails.append((f"helper-default-missing:{mname}",
                              f"{name}: {[n for n, d in fields if not d]} have no default"))
            rt_names = rt_all
            if admits is not None and h["kw"] != admits and case["apd"] != case["dflt"] and not mc.get("addlDeclared", True):
                pass
            elif admits is not None and h["kw"] != admits:
                if known_kw and h["kw"] and not admits:
                    fails.append(("inherited-additional-properties", f"{name}.{mname}: **kw although unknown keywords are rejected"))
                else:
                    fails.append((f"kw-mismatch:{mname}", f"{name}: stub **kw={h['kw']}, class admits additional properties={admits}"))
    # ---- the text tie: Lean lexer + recogniser against CPython on the real and the mutated headers; the model's
    #      token sequences against the lexed real text
    if "text_err" in impl:
        msgs.append("text tie failed: " + impl["text_err"])
    mt, tp = (model or {}).get("text"), (impl.get("text") or {}).get("py")
    if mt and tp:
        for arr in ("defs", "muts"):
            texts = impl["text"]["wire"][arr]
            for i, (m, p) in enumerate(zip(mt[arr], tp[arr])):
                lean_ok = bool(m.get("lex")) and m.get("parse") is not None
                what = "real header" if arr == "defs" else f"mutated header ({tp['mut_ops'][i]})"
                if lean_ok and p is None:
                    msgs.append(f"recogniser accepts a {what} that CPython rejects: `{texts[i][:160]}`")
                elif p is not None and not lean_ok:
                    if tp[arr + "_subset"][i]:
                        msgs.append(f"recogniser rejects a {what} that CPython accepts: `{texts[i][:160]}`")
                elif lean_ok and (m["parse"]["name"] != p["name"] or m["parse"]["params"] != p["params"]):
                    msgs.append(f"recogniser reads {m['parse']['params']} where CPython reads {p['params']}: `{texts[i][:160]}`")
        for i, (m, p) in enumerate(zip(mt["cls"], tp["cls"])):
            lean = m.get("parse") if m.get("lex") else None
            if (lean is None) != (p is None) or (lean is not None and lean != p):
                if p is None or lean is not None or in_names_only(impl["text"]["wire"]["cls"][i]):
                    msgs.append(f"class header `{impl['text']['wire']['cls'][i][:120]}`: recogniser {lean} CPython {p}")
        if "syntax_err" not in impl:
            lean_dup = any(m.get("parse") and not m["parse"]["dupFree"] for m in mt["defs"])
            py_dup = "compile_err" in impl and "duplicate argument" in impl["compile_err"]["msg"]
            if lean_dup != py_dup:
                msgs.append(f"duplicate parameter names: model {lean_dup}, compile() {py_dup}")
        for c in mt["classes"]:
            if not c["domain"]:
                continue
            for k in ("init", "shallowClone", "fromOtherClass", "fromTrustedData", "header"):
                e = c.get(k)
                if e is not None and not e["eq"]:
                    msgs.append(f"{c['name']}.{k} text: model writes `{e['model'][:200]}`, the stub has something else")
            if c["attrBad"]:
                msgs.append(f"{c['name']}: attribute lines {c['attrBad']} differ from the model's text")
        for qn, m in zip(tp.get("meths", []), mt.get("meths", [])):
            if not m["valid"]:
                msgs.append(f"{qn}: inspect.signature reports a parameter list the model calls illegal")
            elif not m["eq"]:
                msgs.append(f"{qn} text: model writes `{m['model'][:200]}`, the stub has something else")
            elif not m["roundtrip"]:
                msgs.append(f"{qn}: printed signature `{m['model'][:200]}` does not parse back to itself")
    # ---- every function / method signature: same parameter names and kinds as inspect.signature
    site_of = {}
    for it in case["mod"]["items"]:
        for owner, name, shape in it.get("expect", []) if it["kind"] == "raw" else []:
            site_of[f"{owner or ''}.{name}"] = f"{case.get('sig_site')}:{shape}:{case.get('sig_default')}"
        for cn in it.get("classes", []) if it["kind"] == "raw" else []:
            if cn not in stub:
                fails.append(("class-missing:other", f"class {cn} is not declared in the stub"))
    for qn, rt in sorted(impl.get("sigs", {}).items()):
        owner, name = qn.split(".", 1)
        where = site_of.get(qn, "generated-item")
        site = case.get("sig_site") or ("func" if not owner else "method")
        if isinstance(rt, str):
            msgs.append(f"{qn}: runtime signature unavailable: {rt}")
            continue
        if owner:
            if owner not in stub:
                continue
            st = [m["full"] for m in stub[owner]["methods"].get(name, [])]
        else:
            st = impl["stub"]["funcs"].get(name, [])
        if len(st) != 1:
            fails.append((f"signature-missing:{site}", f"{qn} ({where}): {len(st)} definitions in the stub"))
            continue
        st = st[0]
        s_nk, r_nk = [[n, k] for n, k, _ in st], [[n, k] for n, k, _ in rt]
        if s_nk != r_nk:
            if s_nk == [[n, "pk" if k == "po" else k] for n, k in r_nk]:
                fails.append(("signature-kind:positional-only-marker-lost",
                              f"{qn} ({where}): the `/` is not rendered, positional-only parameters "
                              f"{[n for n, k in r_nk if k == 'po']} become positional-or-keyword in the stub"))
            else:
                fails.append((f"signature-mismatch:{site}",
                              f"{qn} ({where}): stub parameters {s_nk} != inspect.signature {r_nk}"))
        elif [d for _, _, d in st] != [d for _, _, d in rt]:
            fails.append((f"signature-default-mismatch:{site}",
                          f"{qn} ({where}): default presence differs: stub {st} runtime {rt}"))
    # ---- enums, other classes, functions
    for e, members in impl.get("enums", {}).items():
        if e not in stub:
            fails.append(("class-missing:enum", f"enum {e} is not declared in the stub"))
        elif stub[e]["assigned"] != members:
            it_names = impl.get("enums_iter", {}).get(e)
            if it_names != members and stub[e]["assigned"] == it_names:
                fails.append(("enum-members:non-canonical-member-dropped",
                              f"enum {e}: members {[m for m in members if m not in it_names]} (zero-valued Flag member / "
                              f"alias: not yielded by iterating the class) are missing in the stub: {stub[e]['assigned']}"))
            else:
                fails.append(("enum-members", f"enum {e}: stub members {stub[e]['assigned']} != {members}"))
    for o in impl.get("others", []):
        if o not in stub:
            fails.append(("class-missing:other", f"class {o} is not declared in the stub"))
    for fn in impl.get("functions", []):
        if fn not in impl["stub"]["funcs"]:
            fails.append(("function-missing", f"function {fn} is not declared in the stub"))
    return _m(msgs), fails


def in_names_only(header):
    """a class header whose bases are plain dotted names (the subset `parseClass` models)"""
    import re
    return re.fullmatch(r"class [A-Za-z_][A-Za-z0-9_]*(\(([A-Za-z_][A-Za-z0-9_.]*(, )?)*\))?:", header) is not None


def _m(msgs):
    return "; ".join(msgs[:4]) if msgs else None
