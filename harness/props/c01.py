"""C01 — no validating entry point ever yields an instance that violates its declaration."""
import json
import re
import random
from ..suites import construct as S

ID = "C01"
SUITE = "construct"
LEAN_TARGETS = ["TypedpyModel.Props.C01", "TypedpyModel.Audit.C01"]
AUDIT = "C01"
THEOREMS = re.findall(r"#print axioms (\S+)", open(__file__.rsplit("/harness/", 1)[0] + "/lean/TypedpyModel/Audit/C01.lean").read())
RULE = ("classes from the type-directed declaration generator; kwargs streams valid/boundary/confusion/corrupt/None/"
        "missing/extra; chains of 1..3 (quick) / 1..6 (thorough) entry points drawn from copy, deepcopy, pickle, "
        "shallow_clone_with_overrides(+valid/invalid override), from_other_class(instance | mapping, +ignore_props, "
        "+override), cast_to; oracle = Lean `wellFormed` evaluated by the driver on the dumped instance the real "
        "code returned; non-trivial = class has >=1 constraint or nesting >= 1; distinct by sha256 of the case line; plus an "
        "oracle-only stream for INHERITANCE (the Lean declarations are flat): hierarchies of depth 1..3 whose class-level "
        "settings (_additional_properties, _required, _ignore_none, immutability) are stated on the base only, through 11 entry "
        "kinds (constructor with/without an unknown keyword, missing/None/invalid arguments, Deserializer with an extra key x "
        "keep_undefined, shallow_clone_with_overrides / from_other_class(instance|mapping) with an extra name, assignment of a new "
        "attribute, copy/deepcopy/clone/cast_to chain; the Undefined sentinel given for a required field; keyword / document / mapping "
        "names equal to the library's per-instance bookkeeping flags next to invalid values; a cross-field __validate__ hook stated on the base, "
        "through constructor / clone / from_other_class / mapping / Deserializer / cast_to from a subclass with a looser hook / a copy chain); the declaration is checked on the returned instance in Python")
ASSUMPTIONS = [
    "trusted entry points (from_trusted_data, trust_supplied_values, direct_trusted_mapping) are excluded by the statement",
    "Deserializer as an entry point is covered by C05/C06's suites, not here",
    "instances passed as nested ClassReference arguments are themselves products of the real constructor",
]


# ---- inheritance (the Lean declarations are flat): class-level settings stated on a BASE only - the statement is
# executed on the real subclasses (oracle-only cases, no model line)
ENTRY_KINDS = ["ctor", "ctor-extra", "deser-extra", "clone-extra", "from-other-extra", "from-mapping-extra", "setattr-extra",
               "ctor-missing", "ctor-none", "ctor-bad", "copy-chain",
               # sentinels and bookkeeping names as ARGUMENTS: the Undefined sentinel for a required field, and keyword
               # names equal to the library's per-instance flags (which switch validation off when set on an instance)
               "ctor-undefined-required", "ctor-internal-trust", "ctor-internal-skip", "from-mapping-internal", "deser-internal",
               "clone-internal",
               # the class's own __validate__ hook (a cross-field condition stated on the BASE): every entry point that
               # yields an instance must have run it
               "hook-ctor-bad", "hook-clone-bad", "hook-from-other-bad", "hook-from-mapping-bad", "hook-deser-bad",
               "hook-cast-bad", "hook-chain-good"]


def inherit_cases(rng, n):
    out = []
    for ci in range(n):
        out.append({"suite": "inherit",
                    "addl": rng.choice([False, False, True, None]),          # on the base only
                    "required_on_base": rng.random() < 0.5, "ignore_none": rng.choice([None, True, False]),
                    "immutable": rng.random() < 0.2, "depth": rng.choice([1, 2, 3]), "restate": rng.random() < 0.15,
                    "entry": rng.choice(ENTRY_KINDS), "keep_undefined": rng.choice([True, False, None])})
    # every entry kind x (flag off on the base) at depth 1 and 2: always run
    for entry in ENTRY_KINDS:
        for depth in (1, 2):
            for addl in ((False, None, True) if "internal" in entry or "undefined" in entry else (False,)):
                out.append({"suite": "inherit", "addl": addl, "required_on_base": True, "ignore_none": None, "immutable": False,
                            "depth": depth, "restate": False, "entry": entry, "keep_undefined": True})
    return out


def run_inherit(case):
    import copy
    import pickle
    from typedpy import Structure, ImmutableStructure, Integer, String, Array, Deserializer
    base_body = {"a": Integer(minimum=0), "tags": Array(items=String(), maxItems=2)}
    base_body["_required"] = ["a"] if case["required_on_base"] else []
    if case["addl"] is not None:
        base_body["_additional_properties"] = case["addl"]
    if case["ignore_none"] is not None:
        base_body["_ignore_none"] = case["ignore_none"]
    hooked = case["entry"].startswith("hook-")
    if hooked:
        def __validate__(self):
            if self.a is not None and self.tags is not None and self.a < len(self.tags):
                raise ValueError("a must be at least the number of tags")
        base_body["__validate__"] = __validate__
    try:
        cls = type("Base", ((ImmutableStructure if case["immutable"] else Structure),), base_body)
        names = ["a", "tags"]
        for d in range(case["depth"]):
            body = {f"b{d}": String(maxLength=3), "_required": []}
            if case["restate"] and case["addl"] is not None:
                body["_additional_properties"] = case["addl"]
            cls = type(f"Sub{d}", (cls,), body)
            names.append(f"b{d}")
    except Exception as e:
        return {"skip": f"definition: {type(e).__name__}: {e}"[:200]}
    addl = getattr(cls, "_additional_properties", True)
    required = ["a"] if case["required_on_base"] else []
    good = {"a": 1, "tags": ["x"], "b0": "ab"}
    entry = case["entry"]
    try:
        if entry == "ctor":
            x = cls(**good)
        elif entry == "ctor-extra":
            x = cls(**good, zz_extra=1)
        elif entry == "ctor-missing":
            x = cls(tags=["x"])
        elif entry == "ctor-none":
            x = cls(a=1, b0=None, tags=None)
        elif entry == "ctor-bad":
            x = cls(a=-1, b0="toolong", tags=["x", "y", "z"])
        elif entry == "deser-extra":
            x = Deserializer(cls).deserialize({**good, "zz_extra": 1}, keep_undefined=case["keep_undefined"])
        elif entry == "clone-extra":
            x = cls(**good).shallow_clone_with_overrides(zz_extra=1)
        elif entry == "from-other-extra":
            x = cls.from_other_class(cls(**good), zz_extra=1)
        elif entry == "from-mapping-extra":
            x = cls.from_other_class({**good, "zz_extra": 1})
        elif entry == "setattr-extra":
            x = cls(**good)
            x.zz_extra = 1
        elif entry == "ctor-undefined-required":
            from typedpy import Undefined
            x = cls(a=Undefined, tags=["x"])
        elif entry == "ctor-internal-trust":
            x = cls(a=-1, b0="toolong", tags=["x", "y", "z"], _trust_supplied_values=True)
        elif entry == "ctor-internal-skip":
            x = cls(a=-1, b0="toolong", tags=["x", "y", "z"], _skip_validation=True)
        elif entry == "from-mapping-internal":
            x = cls.from_other_class({"a": -1, "b0": "toolong", "tags": ["x"], "_trust_supplied_values": True}, _skip_validation=True)
        elif entry == "deser-internal":
            x = Deserializer(cls).deserialize({"_trust_supplied_values": True, "_skip_validation": True, "a": -1, "b0": "toolong", "tags": ["x"]},
                                              keep_undefined=case["keep_undefined"])
        elif entry == "clone-internal":
            x = cls(**good).shallow_clone_with_overrides(_trust_supplied_values=True, a=-1)
        elif entry == "hook-ctor-bad":
            x = cls(a=0, tags=["x"], b0="ab")
        elif entry == "hook-clone-bad":
            x = cls(a=2, tags=["x", "y"]).shallow_clone_with_overrides(a=1)
        elif entry == "hook-from-other-bad":
            x = cls.from_other_class(cls(a=2, tags=["x", "y"]), a=0)
        elif entry == "hook-from-mapping-bad":
            x = cls.from_other_class({"a": 1, "tags": ["x", "y"]})
        elif entry == "hook-deser-bad":
            x = Deserializer(cls).deserialize({"a": 0, "tags": ["x"]}, keep_undefined=case["keep_undefined"])
        elif entry == "hook-cast-bad":
            # a subclass that loosens the hook; casting its instance to the parent class must run the parent's hook
            loose = type("Loose", (cls,), {"__validate__": lambda self: None})
            x = loose(a=0, tags=["x"]).cast_to(cls)
        elif entry == "hook-chain-good":
            x = copy.deepcopy(copy.copy(cls(a=2, tags=["x", "y"]))).shallow_clone_with_overrides(a=3).cast_to(cls)
        elif entry == "copy-chain":
            x = copy.deepcopy(copy.copy(cls(**good))).shallow_clone_with_overrides().cast_to(cls)
        else:
            raise AssertionError(entry)
    except Exception as e:
        return {"out": "raised", "exc": type(e).__name__, "documented_exc": isinstance(e, (TypeError, ValueError)), "msg": str(e)[:160]}
    attrs = {k: v for k, v in x.__dict__.items() if k not in ("_instantiated", "_none_fields", "_trust_supplied_values", "_skip_validation")}
    problems = []
    undeclared = sorted(k for k in attrs if k not in names)
    if undeclared and not addl:
        problems.append(f"undeclared attribute(s) {undeclared} although additional properties are off")
    for r in required:
        if attrs.get(r) is None:
            problems.append(f"required field {r} is not set")
    if "a" in attrs and attrs["a"] is not None and not (isinstance(attrs["a"], int) and attrs["a"] >= 0):
        problems.append(f"a = {attrs['a']!r} violates Integer(minimum=0)")
    if attrs.get("b0") is not None and not (isinstance(attrs["b0"], str) and len(attrs["b0"]) <= 3):
        problems.append(f"b0 = {attrs['b0']!r} violates String(maxLength=3)")
    if attrs.get("tags") is not None and not (isinstance(attrs["tags"], list) and len(attrs["tags"]) <= 2 and all(isinstance(t, str) for t in attrs["tags"])):
        problems.append(f"tags = {attrs['tags']!r} violates Array(items=String, maxItems=2)")
    if hooked and attrs.get("a") is not None and attrs.get("tags") is not None and attrs["a"] < len(attrs["tags"]):
        problems.append(f"a = {attrs['a']!r} with {len(attrs['tags'])} tags: the class's __validate__ hook rejects this instance")
    return {"out": "instance", "problems": problems, "inst": str(x)[:200]}


def cases(rng, tier):
    base = S.gen_cases(rng, tier, 90 if tier == "quick" else 1200) + S.default_cases(random.Random(str(rng.getstate()[1][0])), tier, 150 if tier == "quick" else 2500) + S.crosstype_cases() + S.hook_cases(random.Random("hook" + str(rng.getstate()[1][0])), tier, 120 if tier == "quick" else 2000) + inherit_cases(rng, 150 if tier == "quick" else 3000)
    # the extension field kinds (SizedString, IPV4, HostName, DateString, TimeString, JSONString) inside the modelled region:
    # the same type-directed streams with the extended declaration generator, and the directed pools
    ext = S.gen_cases(random.Random("ext" + str(rng.getstate()[1][0])), tier, 70 if tier == "quick" else 1000, ext=True, prefix="E") + S.xstring_cases()
    # arguments that are the library's own typed wrappers, read from a laxly declared field of another instance
    tp = S.transplant_cases(random.Random("tp" + str(rng.getstate()[1][0])), tier, 60 if tier == "quick" else 800)
    # DecimalNumber (Sem/Decimal.lean): bare, Array items, Map values
    dec = S.decimal_cases(random.Random("dec" + str(rng.getstate()[1][0])), tier, 40 if tier == "quick" else 500)
    return base + ext + tp + dec


def search_cases(rng, tier):
    return S.gen_cases(rng, "thorough", 400) + inherit_cases(rng, 500) + S.gen_cases(random.Random("ext-s" + str(rng.getstate()[1][0])), "thorough", 200, ext=True, prefix="E") \
        + S.transplant_cases(random.Random("tp-s" + str(rng.getstate()[1][0])), "thorough", 150) \
        + S.decimal_cases(random.Random("dec-s" + str(rng.getstate()[1][0])), "thorough", 100)


def _i(case):
    return case.get("suite") == "inherit"


def run_impl(case):
    return run_inherit(case) if _i(case) else S.run_impl(case)


def line(case, impl):
    return None if _i(case) else S.line(case, impl)


def tags(case, impl, model):
    if _i(case):
        return ["stream:inherit", f"inherit:{case['entry']}:{impl.get('out', 'skipped')}"]
    return S.tags(case, impl, model)


def nontrivial(case):
    return True if _i(case) else S.nontrivial(case)


def describe(case, impl, model):
    return {"inherit": case, "result": impl} if _i(case) else S.describe(case, impl, model)


def judge(case, impl, model):
    if _i(case):
        fails = []
        for pr in impl.get("problems", []):
            fails.append((f"ill-formed-instance:inherited:{case['entry']}", f"{case['entry']} on a subclass (settings on the base: {json.dumps({k: case[k] for k in ('addl', 'required_on_base', 'ignore_none', 'immutable', 'depth')})}) "
                          f"returned {impl.get('inst')}: {pr}"))
        if impl.get("out") == "raised" and not impl.get("documented_exc"):
            fails.append((f"error-class:inherited:{case['entry']}:{impl['exc']}", f"{case['entry']} raised {impl['exc']}: {impl.get('msg')}"))
        return None, fails
    if model is None:
        return None, []          # no model line (NaN / Infinity given to a DecimalNumber): C02 judges the error class
    dev = S.deviation_findings(case, impl, "ill-formed-instance", None)        # the library's bare formatted-string field vs the documented language
    msg = S.correspondence(case, impl, model) or S.chain_correspondence(case, impl, model)
    fails = list(dev)
    if "unbuildable" in impl or "abstraction_mismatch" in impl:
        return msg, fails
    kind = S.top_kind(case)
    if "implWellFormed" in model and not model["implWellFormed"]:
        via = "chain " + json.dumps([o["op"] for o in impl["chain"].get("applied", [])]) if impl.get("chain", {}).get("ok") else "constructor"
        final = impl.get("chain", {}).get("ok") or impl.get("ok")
        fails.append((f"ill-formed-instance:{kind}",
                      f"{via} returned an instance that violates its declaration: " + json.dumps(final)[:400]))
    return msg, fails
