"""C01 — no validating entry point ever yields an instance that violates its declaration."""
import json
from ..suites import construct as S

ID = "C01"
SUITE = "construct"
LEAN_TARGETS = ["TypedpyModel.Props.C01", "TypedpyModel.Audit.C01"]
AUDIT = "C01"
THEOREMS = [
    "Typedpy.C01.validate_sound", "Typedpy.C01.construct_sound", "Typedpy.C01.entry_sound",
    "Typedpy.C01.entry_chain_sound", "Typedpy.C01.construct_then_chain_sound", "Typedpy.C01.soundness_example",
]
RULE = ("classes from the type-directed declaration generator; kwargs streams valid/boundary/confusion/corrupt/None/"
        "missing/extra; chains of 1..3 (quick) / 1..6 (thorough) entry points drawn from copy, deepcopy, pickle, "
        "shallow_clone_with_overrides(+valid/invalid override), from_other_class(instance | mapping, +ignore_props, "
        "+override), cast_to; oracle = Lean `wellFormed` evaluated by the driver on the dumped instance the real "
        "code returned; non-trivial = class has >=1 constraint or nesting >= 1; distinct by sha256 of the case line")
ASSUMPTIONS = [
    "trusted entry points (from_trusted_data, trust_supplied_values, direct_trusted_mapping) are excluded by the statement",
    "Deserializer as an entry point is covered by C05/C06's suites, not here",
    "instances passed as nested ClassReference arguments are themselves products of the real constructor",
]


def cases(rng, tier):
    return S.gen_cases(rng, tier, 90 if tier == "quick" else 1200)


def search_cases(rng, tier):
    return S.gen_cases(rng, "thorough", 400)


run_impl = S.run_impl
line = S.line
tags = S.tags
nontrivial = S.nontrivial
describe = S.describe


def judge(case, impl, model):
    msg = S.correspondence(case, impl, model) or S.chain_correspondence(case, impl, model)
    fails = []
    if "unbuildable" in impl or "abstraction_mismatch" in impl:
        return msg, fails
    kind = S.top_kind(case)
    if "implWellFormed" in model and not model["implWellFormed"]:
        via = "chain " + json.dumps([o["op"] for o in impl["chain"].get("applied", [])]) if impl.get("chain", {}).get("ok") else "constructor"
        final = impl.get("chain", {}).get("ok") or impl.get("ok")
        fails.append((f"ill-formed-instance:{kind}",
                      f"{via} returned an instance that violates its declaration: " + json.dumps(final)[:400]))
    return msg, fails
