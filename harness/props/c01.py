"""C01 — no validating entry point ever yields an instance that violates its declaration."""
import json
import re
import random
from ..suites import construct as S
from ..suites import extras as X

ID = "C01"
SUITE = "construct"
LEAN_TARGETS = ["TypedpyModel.Props.C01", "TypedpyModel.Audit.C01"]
AUDIT = "C01"
THEOREMS = re.findall(r"#print axioms (\S+)", open(__file__.rsplit("/harness/", 1)[0] + "/lean/TypedpyModel/Audit/C01.lean").read())
RULE = ("classes from the type-directed declaration generator; kwargs streams valid/boundary/confusion/corrupt/None/"
        "missing/extra; chains of 1..3 (quick) / 1..6 (thorough) entry points drawn from copy, deepcopy, pickle, "
        "shallow_clone_with_overrides(+valid/invalid override), from_other_class(instance | mapping, +ignore_props, "
        "+override), cast_to; oracle = Lean `wellFormed` evaluated by the driver on the dumped instance the real "
        "code returned; non-trivial = class has >=1 constraint or nesting >= 1; distinct by sha256 of the case line; plus an "
        "oracle-only stream for INHERITANCE (the Lean declarations are flat): hierarchies of depth 1..3 whose class-level "
        "settings (_additional_properties, _required, _ignore_none, immutability) are stated on the base only, through 11 entry "
        "kinds (constructor with/without an unknown keyword, missing/None/invalid arguments, Deserializer with an extra key x "
        "keep_undefined, shallow_clone_with_overrides / from_other_class(instance|mapping) with an extra name, assignment of a new "
        "attribute, copy/deepcopy/clone/cast_to chain; the Undefined sentinel given for a required field; keyword / document / mapping "
        "names equal to the library's per-instance bookkeeping flags next to invalid values; a cross-field __validate__ hook stated on the base, "
        "through constructor / clone / from_other_class / mapping / Deserializer / cast_to from a subclass with a looser hook / a copy chain); the declaration is checked on the returned instance in Python; "
        "plus (round 5) the same type-directed streams with the EXTENDED declaration generator (SizedString, IPV4, HostName, DateString, TimeString, JSONString at every "
        "position a scalar can occupy; directed pools of valid / near-valid strings bare and inside 12 container positions), a TRANSPLANT stream (every collection among the "
        "arguments is first stored in a laxly declared field of another instance and read back: the library's own typed wrappers as arguments), a DECIMAL stream (DecimalNumber "
        "bare / Array items / Map values x every accepted input type and spelling), chains through the DESERIALIZER (JSON images and single-point corruptions under every flag "
        "setting, serialize-then-deserialize) and an oracle-only NESTED-HOOK stream (a hooked class at 7 nested positions x 10 entry kinds)")
ASSUMPTIONS = [
    "trusted entry points (from_trusted_data, trust_supplied_values, direct_trusted_mapping) are excluded by the statement",
    "Deserializer as an entry point: the chain theorems cover every document; the correspondence drives it on classes of the serializable fragment (C05/C06 tie the Deser model elsewhere)",
    "instances passed as nested ClassReference arguments are themselves products of the real constructor",
]


# ---- inheritance (the Lean declarations are flat): class-level settings stated on a BASE only - the statement is
# executed on the real subclasses (oracle-only cases, no model line)
ENTRY_KINDS = ["ctor", "ctor-extra", "deser-extra", "clone-extra", "from-other-extra", "from-mapping-extra", "setattr-extra",
               "ctor-missing", "ctor-none", "ctor-bad", "copy-chain",
               # sentinels and bookkeeping names as ARGUMENTS: the Undefined sentinel for a required field, and keyword
               # names equal to the library's per-instance flags (which switch validation off when set on an instance)
               "ctor-undefined-required", "ctor-internal-trust", "ctor-internal-skip", "from-mapping-internal", "deser-internal",
               "clone-internal",
               # the class's own __validate__ hook (a cross-field condition stated on the BASE): every entry point that
               # yields an instance must have run it
               "hook-ctor-bad", "hook-clone-bad", "hook-from-other-bad", "hook-from-mapping-bad", "hook-deser-bad",
               "hook-cast-bad", "hook-chain-good"]


def inherit_cases(rng, n):
    out = []
    for ci in range(n):
        out.append({"suite": "inherit",
                    "addl": rng.choice([False, False, True, None]),          # on the base only
                    "required_on_base": rng.random() < 0.5, "ignore_none": rng.choice([None, True, False]),
                    "immutable": rng.random() < 0.2, "depth": rng.choice([1, 2, 3]), "restate": rng.random() < 0.15,
                    "entry": rng.choice(ENTRY_KINDS), "keep_undefined": rng.choice([True, False, None])})
    # every entry kind x (flag off on the base) at depth 1 and 2: always run
    for entry in ENTRY_KINDS:
        for depth in (1, 2):
            for addl in ((False, None, True) if "internal" in entry or "undefined" in entry else (False,)):
                out.append({"suite": "inherit", "addl": addl, "required_on_base": True, "ignore_none": None, "immutable": False,
                            "depth": depth, "restate": False, "entry": entry, "keep_undefined": True})
    return out


def run_inherit(case):
    import copy
    import pickle
    from typedpy import Structure, ImmutableStructure, Integer, String, Array, Deserializer
    base_body = {"a": Integer(minimum=0), "tags": Array(items=String(), maxItems=2)}
    base_body["_required"] = ["a"] if case["required_on_base"] else []
    if case["addl"] is not None:
        base_body["_additional_properties"] = case["addl"]
    if case["ignore_none"] is not None:
        base_body["_ignore_none"] = case["ignore_none"]
    hooked = case["entry"].startswith("hook-")
    if hooked:
        def __validate__(self):
            if self.a is not None and self.tags is not None and self.a < len(self.tags):
                raise ValueError("a must be at least the number of tags")
        base_body["__validate__"] = __validate__
    try:
        cls = type("Base", ((ImmutableStructure if case["immutable"] else Structure),), base_body)
        names = ["a", "tags"]
        for d in range(case["depth"]):
            body = {f"b{d}": String(maxLength=3), "_required": []}
            if case["restate"] and case["addl"] is not None:
                body["_additional_properties"] = case["addl"]
            cls = type(f"Sub{d}", (cls,), body)
            names.append(f"b{d}")
    except Exception as e:
        return {"skip": f"definition: {type(e).__name__}: {e}"[:200]}
    addl = getattr(cls, "_additional_properties", True)
    required = ["a"] if case["required_on_base"] else []
    good = {"a": 1, "tags": ["x"], "b0": "ab"}
    entry = case["entry"]
    try:
        if entry == "ctor":
            x = cls(**good)
        elif entry == "ctor-extra":
            x = cls(**good, zz_extra=1)
        elif entry == "ctor-missing":
            x = cls(tags=["x"])
        elif entry == "ctor-none":
            x = cls(a=1, b0=None, tags=None)
        elif entry == "ctor-bad":
            x = cls(a=-1, b0="toolong", tags=["x", "y", "z"])
        elif entry == "deser-extra":
            x = Deserializer(cls).deserialize({**good, "zz_extra": 1}, keep_undefined=case["keep_undefined"])
        elif entry == "clone-extra":
            x = cls(**good).shallow_clone_with_overrides(zz_extra=1)
        elif entry == "from-other-extra":
            x = cls.from_other_class(cls(**good), zz_extra=1)
        elif entry == "from-mapping-extra":
            x = cls.from_other_class({**good, "zz_extra": 1})
        elif entry == "setattr-extra":
            x = cls(**good)
            x.zz_extra = 1
        elif entry == "ctor-undefined-required":
            from typedpy import Undefined
            x = cls(a=Undefined, tags=["x"])
        elif entry == "ctor-internal-trust":
            x = cls(a=-1, b0="toolong", tags=["x", "y", "z"], _trust_supplied_values=True)
        elif entry == "ctor-internal-skip":
            x = cls(a=-1, b0="toolong", tags=["x", "y", "z"], _skip_validation=True)
        elif entry == "from-mapping-internal":
            x = cls.from_other_class({"a": -1, "b0": "toolong", "tags": ["x"], "_trust_supplied_values": True}, _skip_validation=True)
        elif entry == "deser-internal":
            x = Deserializer(cls).deserialize({"_trust_supplied_values": True, "_skip_validation": True, "a": -1, "b0": "toolong", "tags": ["x"]},
                                              keep_undefined=case["keep_undefined"])
        elif entry == "clone-internal":
            x = cls(**good).shallow_clone_with_overrides(_trust_supplied_values=True, a=-1)
        elif entry == "hook-ctor-bad":
            x = cls(a=0, tags=["x"], b0="ab")
        elif entry == "hook-clone-bad":
            x = cls(a=2, tags=["x", "y"]).shallow_clone_with_overrides(a=1)
        elif entry == "hook-from-other-bad":
            x = cls.from_other_class(cls(a=2, tags=["x", "y"]), a=0)
        elif entry == "hook-from-mapping-bad":
            x = cls.from_other_class({"a": 1, "tags": ["x", "y"]})
        elif entry == "hook-deser-bad":
            x = Deserializer(cls).deserialize({"a": 0, "tags": ["x"]}, keep_undefined=case["keep_undefined"])
        elif entry == "hook-cast-bad":
            # a subclass that loosens the hook; casting its instance to the parent class must run the parent's hook
            loose = type("Loose", (cls,), {"__validate__": lambda self: None})
            x = loose(a=0, tags=["x"]).cast_to(cls)
        elif entry == "hook-chain-good":
            x = copy.deepcopy(copy.copy(cls(a=2, tags=["x", "y"]))).shallow_clone_with_overrides(a=3).cast_to(cls)
        elif entry == "copy-chain":
            x = copy.deepcopy(copy.copy(cls(**good))).shallow_clone_with_overrides().cast_to(cls)
        else:
            raise AssertionError(entry)
    except Exception as e:
        return {"out": "raised", "exc": type(e).__name__, "documented_exc": isinstance(e, (TypeError, ValueError)), "msg": str(e)[:160]}
    attrs = {k: v for k, v in x.__dict__.items() if k not in ("_instantiated", "_none_fields", "_trust_supplied_values", "_skip_validation")}
    problems = []
    undeclared = sorted(k for k in attrs if k not in names)
    if undeclared and not addl:
        problems.append(f"undeclared attribute(s) {undeclared} although additional properties are off")
    for r in required:
        if attrs.get(r) is None:
            problems.append(f"required field {r} is not set")
    if "a" in attrs and attrs["a"] is not None and not (isinstance(attrs["a"], int) and attrs["a"] >= 0):
        problems.append(f"a = {attrs['a']!r} violates Integer(minimum=0)")
    if attrs.get("b0") is not None and not (isinstance(attrs["b0"], str) and len(attrs["b0"]) <= 3):
        problems.append(f"b0 = {attrs['b0']!r} violates String(maxLength=3)")
    if attrs.get("tags") is not None and not (isinstance(attrs["tags"], list) and len(attrs["tags"]) <= 2 and all(isinstance(t, str) for t in attrs["tags"])):
        problems.append(f"tags = {attrs['tags']!r} violates Array(items=String, maxItems=2)")
    if hooked and attrs.get("a") is not None and attrs.get("tags") is not None and attrs["a"] < len(attrs["tags"]):
        problems.append(f"a = {attrs['a']!r} with {len(attrs['tags'])} tags: the class's __validate__ hook rejects this instance")
    return {"out": "instance", "problems": problems, "inst": str(x)[:200]}


# ---- __validate__ hooks of NESTED classes (oracle-only: the model's hook oracle speaks about the top class): every entry
# point that BUILDS a nested instance (the Deserializer at every position, from_other_class of a mapping) must have run
# the nested class's hook; the ones that pass an instance on must not lose it
NESTED_POS = ["field", "array", "map", "optional", "tuple", "deep", "set-of-tuples-no", "anyof-second"]
NESTED_ENTRIES = ["deser-bad", "deser-good", "deser-bad-inherited-hook", "ctor-dict-bad", "ctor-good", "clone-override-good", "chain-good",
                  "from-mapping-bad", "deser-bad-keep-undefined", "deser-bad-second-item"]


def nestedhook_cases():
    return [{"suite": "nestedhook", "pos": p, "entry": e} for p in NESTED_POS if "-no" not in p for e in NESTED_ENTRIES]


def run_nestedhook(case):
    import copy
    import pickle
    from typedpy import Structure, Integer, String, Array, Map, Tuple, AnyOf, NoneField, Deserializer

    def __validate__(self):
        if self.lo is not None and self.hi is not None and self.lo > self.hi:
            raise ValueError("lo must not exceed hi")
    base = type("Range0", (Structure,), {"lo": Integer(), "hi": Integer(), "_required": ["lo", "hi"], "__validate__": __validate__})
    inner = type("Range", (base,), {"tag": String(), "_required": []}) if "inherited" in case["entry"] else base
    pos = case["pos"]
    fld = {"field": lambda: inner, "array": lambda: Array[inner], "map": lambda: Map[String(), inner], "optional": lambda: AnyOf[inner, NoneField()],
           "tuple": lambda: Tuple[inner, Integer()], "deep": lambda: Array[Map[String(), Array[inner]]], "anyof-second": lambda: AnyOf[Integer(), inner]}[pos]()
    try:
        outer = type("Outer", (Structure,), {"f": fld, "n": Integer(), "_required": ["f"]})
    except Exception as e:
        return {"skip": f"definition: {type(e).__name__}: {e}"[:200]}
    good, bad = {"lo": 1, "hi": 2}, {"lo": 2, "hi": 1}
    wrap_doc = {"field": lambda d: d, "array": lambda d: [good, d], "map": lambda d: {"k": d}, "optional": lambda d: d, "tuple": lambda d: [d, 3],
                "deep": lambda d: [{"a": [good, d]}], "anyof-second": lambda d: d}[pos]
    wrap_val = {"field": lambda v: v, "array": lambda v: [v], "map": lambda v: {"k": v}, "optional": lambda v: v, "tuple": lambda v: (v, 3),
                "deep": lambda v: [{"a": [v]}], "anyof-second": lambda v: v}[pos]
    entry = case["entry"]
    try:
        if entry in ("deser-bad", "deser-bad-inherited-hook"):
            x = Deserializer(outer).deserialize({"f": wrap_doc(bad), "n": 1})
        elif entry == "deser-bad-keep-undefined":
            x = Deserializer(outer).deserialize({"f": wrap_doc(dict(bad, zz=1)), "n": 1, "zz": 2}, keep_undefined=True)
        elif entry == "deser-bad-second-item":
            x = Deserializer(outer).deserialize({"f": wrap_doc(bad), "n": 0})
        elif entry == "deser-good":
            x = Deserializer(outer).deserialize({"f": wrap_doc(good), "n": 1})
        elif entry == "ctor-dict-bad":
            x = outer(f=wrap_val(bad), n=1)          # a plain dict where an instance is expected: must be refused (or built through the hook)
        elif entry == "ctor-good":
            x = outer(f=wrap_val(inner(**good)), n=1)
        elif entry == "clone-override-good":
            x = outer(f=wrap_val(inner(**good)), n=1).shallow_clone_with_overrides(f=wrap_val(inner(lo=0, hi=0)))
        elif entry == "chain-good":
            x = copy.copy(copy.deepcopy(outer(f=wrap_val(inner(**good)), n=1))).shallow_clone_with_overrides(n=2).cast_to(outer)   # (classes made with type() cannot be pickled by name)
        elif entry == "from-mapping-bad":
            x = outer.from_other_class({"f": wrap_val(bad), "n": 1})
        else:
            raise AssertionError(entry)
    except Exception as e:
        return {"out": "raised", "exc": type(e).__name__, "documented_exc": isinstance(e, (TypeError, ValueError)), "msg": str(e)[:160]}
    problems = []

    def walk(v, path):
        if isinstance(v, Structure):
            d = {k: w for k, w in v.__dict__.items() if not k.startswith("_")}
            if isinstance(v, base) and d.get("lo") is not None and d.get("hi") is not None and d["lo"] > d["hi"]:
                problems.append(f"{path}: nested {type(v).__name__}(lo={d['lo']}, hi={d['hi']}) is rejected by its own __validate__ hook")
            for k, w in d.items():
                walk(w, f"{path}.{k}")
        elif isinstance(v, dict):
            if "lo" in v and "hi" in v and not isinstance(v, Structure):
                problems.append(f"{path}: holds a plain dict {dict(v)!r} where the declaration says {inner.__name__}")
            for k, w in v.items():
                walk(w, f"{path}[{k!r}]")
        elif isinstance(v, (list, tuple, set, frozenset)):
            for i, w in enumerate(v):
                walk(w, f"{path}[{i}]")
    walk(x, "x")
    return {"out": "instance", "problems": problems, "inst": str(x)[:200]}


def cases(rng, tier):
    base = S.gen_cases(rng, tier, 90 if tier == "quick" else 1200) + S.default_cases(random.Random(str(rng.getstate()[1][0])), tier, 150 if tier == "quick" else 2500) + S.crosstype_cases() + S.hook_cases(random.Random("hook" + str(rng.getstate()[1][0])), tier, 120 if tier == "quick" else 2000) + inherit_cases(rng, 150 if tier == "quick" else 3000)
    # the extension field kinds (SizedString, IPV4, HostName, DateString, TimeString, JSONString) inside the modelled region:
    # the same type-directed streams with the extended declaration generator, and the directed pools
    ext = S.gen_cases(random.Random("ext" + str(rng.getstate()[1][0])), tier, 70 if tier == "quick" else 1000, ext=True, prefix="E") + S.xstring_cases() \
        + S.default_cases(random.Random("extd" + str(rng.getstate()[1][0])), tier, 80 if tier == "quick" else 1200, ext=True)
    # arguments that are the library's own typed wrappers, read from a laxly declared field of another instance
    tp = S.transplant_cases(random.Random("tp" + str(rng.getstate()[1][0])), tier, 60 if tier == "quick" else 800)
    # DecimalNumber (Sem/Decimal.lean): bare, Array items, Map values
    dec = S.decimal_cases(random.Random("dec" + str(rng.getstate()[1][0])), tier, 40 if tier == "quick" else 500)
    # the Deserializer as an entry point of the chain (Sem/EntryD.lean)
    dz = S.deser_chain_cases(random.Random("dz" + str(rng.getstate()[1][0])), tier, 150 if tier == "quick" else 2500)
    # the element-wise oracle of C02's extras stream, in C01's direction: a leaf value the BARE field rejects must not be
    # accepted at a nested position (oracle-only kinds: enums by value, date / datetime fields, bounded DecimalNumber ...)
    nh = S.nested_hook_cases(random.Random("nh" + str(rng.getstate()[1][0])), tier, 40 if tier == "quick" else 600)
    return base + ext + tp + dec + dz + nh + nestedhook_cases() + X.directed_ctor_cases() + X.decimal_cases() + X.floatstep_cases()


def search_cases(rng, tier):
    return S.gen_cases(rng, "thorough", 400) + inherit_cases(rng, 500) + S.gen_cases(random.Random("ext-s" + str(rng.getstate()[1][0])), "thorough", 200, ext=True, prefix="E") \
        + S.transplant_cases(random.Random("tp-s" + str(rng.getstate()[1][0])), "thorough", 150) \
        + S.decimal_cases(random.Random("dec-s" + str(rng.getstate()[1][0])), "thorough", 100)


def _i(case):
    return case.get("suite") in ("inherit", "nestedhook", "extras-ctor", "extras-decimal", "extras-floatstep")


def _fs(case):
    return case.get("suite") == "extras-floatstep"


def _xd(case):
    return case.get("suite") == "extras-decimal"


def _xc(case):
    return case.get("suite") == "extras-ctor"


def _nh(case):
    return case.get("suite") == "nestedhook"


def run_impl(case):
    if _fs(case):
        return X.run_floatstep(case)
    if _xd(case):
        return X.run_decimal(case)
    if _xc(case):
        return X.run_ctor(case)
    if _nh(case):
        return run_nestedhook(case)
    return run_inherit(case) if _i(case) else S.run_impl(case)


def line(case, impl):
    return None if _i(case) else S.line(case, impl)


def tags(case, impl, model):
    if _fs(case):
        return ["stream:extras-floatstep"]
    if _xd(case):
        return ["stream:extras-decimal"]
    if _xc(case):
        return ["stream:extras-ctor", "extras:" + impl.get("out", "skipped")]
    if _nh(case):
        return ["stream:nestedhook", f"nestedhook:{case['entry']}:{impl.get('out', 'skipped')}"]
    if _i(case):
        return ["stream:inherit", f"inherit:{case['entry']}:{impl.get('out', 'skipped')}"]
    return S.tags(case, impl, model)


def nontrivial(case):
    return True if _i(case) else S.nontrivial(case)


def describe(case, impl, model):
    return {case.get("suite"): case, "result": impl} if _i(case) else S.describe(case, impl, model)


def judge(case, impl, model):
    if _fs(case):
        # C01's direction: a value that is not a multiple of the float step must not be stored; what is stored is the number given
        return None, [f for f in X.judge_floatstep(case, impl) if f[0].startswith(("extras:floatstep:accepts-undocumented", "extras:floatstep:normal-form"))]
    if _xd(case):
        # C01's direction of the bound probes: a DecimalNumber beyond its bound must not be stored; what is stored equals the number given
        return None, ([] if "skip" in impl else [f for f in X.judge_decimal_ctor(case, impl)
                                                  if f[0].startswith(("extras:decimal:accepts-undocumented", "extras:decimal:normal-form"))])
    if _xc(case):
        return None, [f for f in X.judge_ctor(case, impl) if f[0].startswith("extras:element-not-validated")]
    if _nh(case):
        fails = []
        for pr in impl.get("problems", []):
            fails.append((f"ill-formed-instance:nested-hook:{case['entry']}:{case['pos']}", f"{case['entry']} with the nested class at position {case['pos']} returned {impl.get('inst')}: {pr}"))
        if impl.get("out") == "raised" and not impl.get("documented_exc"):
            fails.append((f"error-class:nested-hook:{case['entry']}:{impl['exc']}", f"{case['entry']} ({case['pos']}) raised {impl['exc']}: {impl.get('msg')}"))
        if impl.get("out") == "raised" and "good" in case["entry"]:
            fails.append((f"rejects-valid:nested-hook:{case['entry']}:{case['pos']}", f"{case['entry']} ({case['pos']}) raised {impl['exc']}: {impl.get('msg')}"))
        return None, fails
    if _i(case):
        fails = []
        for pr in impl.get("problems", []):
            fails.append((f"ill-formed-instance:inherited:{case['entry']}", f"{case['entry']} on a subclass (settings on the base: {json.dumps({k: case[k] for k in ('addl', 'required_on_base', 'ignore_none', 'immutable', 'depth')})}) "
                          f"returned {impl.get('inst')}: {pr}"))
        if impl.get("out") == "raised" and not impl.get("documented_exc"):
            fails.append((f"error-class:inherited:{case['entry']}:{impl['exc']}", f"{case['entry']} raised {impl['exc']}: {impl.get('msg')}"))
        return None, fails
    if model is None:
        return None, []          # no model line (NaN / Infinity given to a DecimalNumber): C02 judges the error class
    dev = S.deviation_findings(case, impl, "ill-formed-instance", None)        # the library's bare formatted-string field vs the documented language
    msg = S.correspondence(case, impl, model) or S.chain_correspondence(case, impl, model)
    fails = list(dev)
    ch = impl.get("chain") or {}
    if "err" in ch and ch.get("applied") and ch["applied"][-1]["op"] in ("copy", "deepcopy", "pickle") and "ok" in (model.get("chainRes") or {}):
        # a plain copy of a VALID instance raised: the stored value is not accepted by its own field any more
        head = str(ch.get("msg", "")).split(":")[0]
        fld = max((fd for nm, fd in case["cls"]["fields"] if head == nm or head.startswith(nm + "_")), key=lambda fd: len(json.dumps(fd)), default=None)
        js = json.dumps(fld if fld is not None else case["cls"])
        site = next((k for k in ("oneOf", "allOf") if f'"{k}"' in js), "other")
        fails.append((f"copy-raises:{ch['applied'][-1]['op']}:{site}", f"{ch['applied'][-1]['op']} of the valid instance {json.dumps(impl.get('ok'))[:200]} raised {ch['err']}: {ch.get('msg')}"))
        msg = None
    if "unbuildable" in impl or "abstraction_mismatch" in impl:
        return msg, fails
    kind = S.top_kind(case)
    if model.get("implNestedHooksOk") is False:
        fails.append((f"ill-formed-instance:nested-hook:allInst:{kind}", "the returned instance holds a nested instance that the hook of its class refuses: "
                      + json.dumps(impl.get("chain", {}).get("ok") or impl.get("ok"))[:300]))
    if "implWellFormed" in model and not model["implWellFormed"]:
        via = "chain " + json.dumps([o["op"] for o in impl["chain"].get("applied", [])]) if impl.get("chain", {}).get("ok") else "constructor"
        final = impl.get("chain", {}).get("ok") or impl.get("ok")
        fails.append((f"ill-formed-instance:{kind}",
                      f"{via} returned an instance that violates its declaration: " + json.dumps(final)[:400]))
    return msg, fails
