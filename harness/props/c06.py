"""C06 — deserialization accepts exactly the JSON images of constructor-valid data."""
import json
import random
import re
from ..suites import serde as S
from ..suites import extras as X
from ..suites import inheritdeser as IH
from .. import dump

ID = "C06"
SUITE = "serde"
LEAN_TARGETS = ["TypedpyModel.Props.C06", "TypedpyModel.Audit.C06"]
AUDIT = "C06"
THEOREMS = re.findall(r"#print axioms (\S+)", open(__file__.rsplit("/harness/", 1)[0] + "/lean/TypedpyModel/Audit/C06.lean").read())
RULE = ("classes over the serializable fragment (20% with lossy kinds); documents: JSON images of up to 4 valid "
        "instances per class, 4 single-point corruptions of each (wrong JSON type, out-of-bound number, unknown enum "
        "name, missing key, extra key, null, dropped/added array element) and a non-object top level; keep_undefined in "
        "{True, False, None} x ignore_invalid_additional_properties in {True, False}; directed size-bound documents: every sized "
        "collection kind (Array, Deque, Set, Map, positional Array/Deque) x item kind x (minItems | maxItems | both | maxItems=0) x "
        "placement (class field, field of a nested class, inside an Array of structures, Map value, under Optional) with well-typed "
        "documents one below / at / one above each bound; oracle = Lean expectedDeser "
        "(constructor applied to the documented lifting of the document) vs the real Deserializer; the driver reports for every case "
        "whether it lies inside the PROVED exact fragment; non-trivial = "
        "constraint or nesting; distinct by case hash; plus the extras stream (suites/extras.py) over DecimalNumber / Enum by value and "
        "by name (plain, IntEnum, Flag, str-valued enums, falsy members, an enum class with an ALIAS, an Enum restricted to some members) / date, time and formatted-string fields, bare and inside "
        "Optional/Array/Deque/Set/Map/Tuple/nested collections/Optional[Union[X, int]], at top level and one class level down, "
        "also in classes with _enable_undefined_value: the JSON image of valid instances (written down "
        "independently of the Serializer) and the image with one leaf replaced by each of 36 values (wrong JSON types, ill-formatted "
        "strings, numbers of several magnitudes incl. epoch-like ints and floats, NaN / Infinity strings, names for values and values for "
        "names): the Deserializer must accept EXACTLY when the constructor accepts what the document denotes (documented lifting: arrays "
        "-> list/deque/set/tuple, a by-value enum value -> the member with that value, every other leaf as it is), with an equal "
        "instance, and reject with TypeError/ValueError only; the cases the Lean model of the extension kinds covers are corresponded "
        "with it (suite serdex: accept / reject, exception class, result); deserialize_structure(cls, d, keep_undefined=...) must agree "
        "with Deserializer(cls).deserialize(d); plus DecimalNumber bound probes (float neighbours of the "
        "bound); plus an oracle-only INHERITANCE stream "
        "(suites/inheritdeser.py): chains, several bases and diamonds with a field re-declared at any class of the hierarchy; for "
        "JSON-native documents the Deserializer of the most derived class must accept exactly when its constructor does, with an "
        "equal instance")
ASSUMPTIONS = [
    "mapper-free; fail-fast mode (the default); AnyOf/OneOf/AllOf/NotField fields other than Optional are corresponded but have no lifting spec (they need the validation result to choose an option)",
    "an array for a Set field that holds values == to each other but of different JSON type (1 / true / 1.0), and AnyOf[DecimalNumber(bounds), Integer] (two options reading the same JSON type) are ambiguous and excluded from the both-directions oracle",
    "compact deserialization, raw values of a mixin enum, NaN / Infinity Decimals and a DateTime read from an epoch integer are not in the Lean model (oracle-only); float(Decimal), Decimal(str), strptime, strftime and the format tests are oracles of the model",
]


def cases(rng, tier):
    return [c for c in S.gen_cases(rng, tier, 200 if tier == "quick" else 3000) if c["mode"] == "deser"] \
        + S.size_bound_cases(random.Random("size" + str(rng.getstate()[1][0]))) + S.offpath_null_cases() \
        + X.directed_corrupt_cases() + X.gen_corrupt_cases(rng, 300 if tier == "quick" else 6000) \
        + X.directed_image_cases() + X.image_cases(random.Random("img" + str(rng.getstate()[1][0])), 150 if tier == "quick" else 3000) \
        + [dict(c, suite="extras-corrupt", nested=False, corrupt=[random.Random(str(i)).randrange(len(c["fields"])), i % len(X.CORRUPTIONS), i % 3])
           for i, c in enumerate(X.undef_cases(random.Random("undefc" + str(rng.getstate()[1][0])), 100 if tier == "quick" else 2000))] \
        + X.decimal_cases() + IH.directed_cases() + IH.gen_cases(random.Random(str(rng.getstate()[1][0])), 300 if tier == "quick" else 6000)


def search_cases(rng, tier):
    return [c for c in S.gen_cases(rng, "thorough", 600) if c["mode"] == "deser"] + X.gen_corrupt_cases(rng, 1500) \
        + X.directed_image_cases() + X.image_cases(random.Random("img" + str(rng.getstate()[1][0])), 600)


def _x(case):
    return case.get("suite") == "extras-corrupt"


def _ih(case):
    return case.get("suite") == "inheritdeser"


def _dec(case):
    return case.get("suite") == "extras-decimal"


def run_impl(case):
    if _dec(case):
        return X.run_decimal(case)
    if _ih(case):
        return IH.run_impl(case)
    return X.run_exact(case) if _x(case) else S.run_impl(case)


def line(case, impl):
    if _x(case):
        return X.xline(case, impl)
    return None if _ih(case) or _dec(case) else S.line(case, impl)


def tags(case, impl, model):
    if _dec(case):
        return ["stream:extras-decimal"] + [f"decimal:{p['probe']}:{p.get('deser')}" for p in impl.get("probes", [])]
    if _ih(case):
        return ["stream:inheritdeser", "inherit:" + case["shape"]] + sorted({f"inherit-ctor:{'ok' if s['ctor'] == 'ok' else 'rejects'}" for s in impl.get("steps", [])})
    if _x(case):
        return ["stream:extras-" + ("image" if case.get("corrupt") is None else "corrupt"), "extras:" + impl.get("out", "skipped"),
                "extras-ctor:" + impl.get("ctor", "skipped"), "extras-model:" + ("line" if impl.get("xline") else "oracle-only")] + (["extras-exc:" + impl["exc"]] if "exc" in impl else [])
    return S.tags(case, impl, model)


def nontrivial(case):
    return True if _x(case) or _ih(case) or _dec(case) else S.nontrivial(case)


def describe(case, impl, model):
    if _dec(case):
        return {"decimal": case, "probes": impl.get("probes")}
    if _ih(case):
        return {"inheritdeser": case, "mro": impl.get("mro"), "steps": impl.get("steps")}
    return {"extras": case["fields"], "doc": impl.get("doc"), "out": impl.get("out"), "exc": impl.get("exc"), "ctor": impl.get("ctor")} if _x(case) else S.describe(case, impl, model)


def judge(case, impl, model):
    if _dec(case):
        return None, ([] if "skip" in impl else X.judge_decimal_deser(case, impl))
    if _ih(case):
        return None, IH.judge(case, impl)
    if _x(case):
        return X.xcorrespond(case, impl, model), X.judge_exact(case, impl)
    msg = S.correspondence(case, impl, model)
    fails = []
    if "unbuildable" in impl or "abstraction_mismatch" in impl or "deser" not in impl:
        return msg, fails
    kinds = "+".join(sorted({fd["k"] for _, fd in case["cls"]["fields"]}))[:60]
    got = impl["deser"]
    if "err" in got and got["err"] not in ("TypeError", "ValueError", "InvalidStructureErr"):
        fails.append((f"error-class:{got['err']}:{kinds}", f"Deserializer raised {got['err']}: {got.get('msg')} for " + json.dumps(case["doc"])[:200]))
    if "ok" in got and model.get("implWellFormed") is False:
        fails.append((f"ill-formed-instance:{kinds}", "Deserializer returned an instance that violates its declaration: " + json.dumps(got["ok"])[:300]))
    # (until /repo 2133150 a null inside an inline StructureReference reached through a Map value / Tuple / Deque / nested
    #  Array was handed to the field as None; such documents were excluded here. They are judged like any other now.)
    if model.get("liftable") and not S.crosstype_duplicates(case["doc"]):
        exp = model["expected"]
        if "ok" in exp:
            if "ok" not in got:
                fails.append((f"rejects-image:{kinds}", f"document is the JSON form of constructor-valid arguments but the Deserializer raises {got['err']}: {got.get('msg')}; doc " + json.dumps(case["doc"])[:250]))
            elif not S._same(exp["ok"], got["ok"]):
                fails.append((f"differs-from-constructor:{kinds}", "deserialized instance differs from the constructor's: " + json.dumps(got["ok"])[:200] + " vs " + json.dumps(exp["ok"])[:200]))
        elif "ok" in got:
            fails.append((f"accepts-non-image:{kinds}", "Deserializer accepts a document that is not the JSON form of constructor-valid arguments: " + json.dumps(case["doc"])[:250]))
    fn = impl.get("deser_fn")
    if fn is not None:
        if ("ok" in fn) != ("ok" in got) or ("err" in fn and fn["err"] != got["err"]) or ("ok" in fn and not S._same(fn["ok"], got["ok"])):
            fails.append((f"deserialize-fn-differs:{kinds}", "deserialize_structure(cls, d, keep_undefined=...) and Deserializer(cls).deserialize(d) disagree: "
                          + json.dumps(fn)[:150] + " vs " + json.dumps(got)[:150] + " for " + json.dumps(case["doc"])[:150]))
    if impl.get("doc_unchanged") is False:
        fails.append((f"mutates-document:{kinds}", "Deserializer modified the caller's document (C19)"))
    return msg, fails
