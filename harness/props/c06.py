"""C06 — deserialization accepts exactly the JSON images of constructor-valid data."""
import json
import re
from ..suites import serde as S
from .. import dump

ID = "C06"
SUITE = "serde"
LEAN_TARGETS = ["TypedpyModel.Props.C06", "TypedpyModel.Audit.C06"]
AUDIT = "C06"
THEOREMS = re.findall(r"#print axioms (\S+)", open(__file__.rsplit("/harness/", 1)[0] + "/lean/TypedpyModel/Audit/C06.lean").read())
RULE = ("classes over the serializable fragment (20% with lossy kinds); documents: JSON images of up to 4 valid "
        "instances per class, 4 single-point corruptions of each (wrong JSON type, out-of-bound number, unknown enum "
        "name, missing key, extra key, null, dropped/added array element) and a non-object top level; keep_undefined in "
        "{True, False, None} x ignore_invalid_additional_properties in {True, False}; oracle = Lean expectedDeser "
        "(constructor applied to the documented lifting of the document) vs the real Deserializer; non-trivial = "
        "constraint or nesting; distinct by case hash")
ASSUMPTIONS = [
    "mapper-free; fail-fast mode (the default); AnyOf/OneOf/AllOf/NotField fields are corresponded but have no lifting spec (they need the validation result to choose an option)",
    "Enum serialization_by_value, DecimalNumber, date/time fields, compact deserialization are not in the model",
]


def cases(rng, tier):
    return [c for c in S.gen_cases(rng, tier, 200 if tier == "quick" else 3000) if c["mode"] == "deser"]


def search_cases(rng, tier):
    return [c for c in S.gen_cases(rng, "thorough", 600) if c["mode"] == "deser"]


run_impl = S.run_impl
line = S.line
tags = S.tags
nontrivial = S.nontrivial
describe = S.describe


def judge(case, impl, model):
    msg = S.correspondence(case, impl, model)
    fails = []
    if "unbuildable" in impl or "abstraction_mismatch" in impl or "deser" not in impl:
        return msg, fails
    kinds = "+".join(sorted({fd["k"] for _, fd in case["cls"]["fields"]}))[:60]
    got = impl["deser"]
    if "err" in got and got["err"] not in ("TypeError", "ValueError", "InvalidStructureErr"):
        fails.append((f"error-class:{got['err']}:{kinds}", f"Deserializer raised {got['err']}: {got.get('msg')} for " + json.dumps(case["doc"])[:200]))
    if "ok" in got and model.get("implWellFormed") is False:
        fails.append((f"ill-formed-instance:{kinds}", "Deserializer returned an instance that violates its declaration: " + json.dumps(got["ok"])[:300]))
    offpath = S.null_in_nested_object(case["doc"]) and S.offpath_inline(case["cls"])
    if model.get("liftable") and not offpath and not S.crosstype_duplicates(case["doc"]):
        exp = model["expected"]
        if "ok" in exp:
            if "ok" not in got:
                fails.append((f"rejects-image:{kinds}", f"document is the JSON form of constructor-valid arguments but the Deserializer raises {got['err']}: {got.get('msg')}; doc " + json.dumps(case["doc"])[:250]))
            elif not S._same(exp["ok"], got["ok"]):
                fails.append((f"differs-from-constructor:{kinds}", "deserialized instance differs from the constructor's: " + json.dumps(got["ok"])[:200] + " vs " + json.dumps(exp["ok"])[:200]))
        elif "ok" in got:
            fails.append((f"accepts-non-image:{kinds}", "Deserializer accepts a document that is not the JSON form of constructor-valid arguments: " + json.dumps(case["doc"])[:250]))
    if impl.get("doc_unchanged") is False:
        fails.append((f"mutates-document:{kinds}", "Deserializer modified the caller's document (C19)"))
    return msg, fails
