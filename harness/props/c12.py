"""C12 — Partial/Omit/Pick/Extend/AllFieldsRequired keep exact field sets and constraints."""
import json
from ..suites import derive as S

ID = "C12"
SUITE = "derive"
LEAN_TARGETS = ["TypedpyModel.Props.C12", "TypedpyModel.Audit.C12"]
AUDIT = "C12"
THEOREMS = [
    "Typedpy.C12.derive_shape",
    "Typedpy.C12.derive_allFields",
    "Typedpy.C12.specHasField_eq",
    "Typedpy.C12.derive_fields",
    "Typedpy.C12.derive_field_same",
    "Typedpy.C12.derive_field_behaviour",
    "Typedpy.C12.mem_filter_needsValue",
    "Typedpy.C12.needsValue_noDefault",
    "Typedpy.C12.memberHasDefault_derived",
    "Typedpy.C12.derive_required_partial",
    "Typedpy.C12.derive_not_subclass",
    "Typedpy.C12.derive_unknown_name_TypeError",
    "Typedpy.C12.derive_pure",
    "Typedpy.C12.derive_ignore_none",
    "Typedpy.C12.allRequired_keeps_constants",
    "Typedpy.C12.hasStructure_add",
    "Typedpy.C12.derived_keysNodup",
    "Typedpy.C12.deriveMany_field_same",
    "Typedpy.C12.specHasFieldMany_eq",
    "Typedpy.C12.deriveMany_fields",
    "Typedpy.C12.deriveMany_not_subclass",
    "Typedpy.C12.deriveMany_pure",
    "Typedpy.C12.extended_derived_field_same",
    "Typedpy.C12.inherited_ignore_none_kept",
    "Typedpy.C12.allRequired_constant_example",
    "Typedpy.C12.extend_drops_required",
    "Typedpy.C12.derive_example",
    "Typedpy.C12.derive_total",
    "Typedpy.C12.derive_raises_iff",
    "Typedpy.C12.derive_flags_not_copied",
    "Typedpy.C12.flags_example",
    "Typedpy.C12.fixed_inherited_default_not_required",
    "Typedpy.reachable_good",
    "Typedpy.reachable_hasStructure",
    "Typedpy.c12_derive_total",
    "Typedpy.c12_checks_derived_ok",
]
RULE = ("source classes from hierarchies of 1..5 classes (mutable, ImmutableStructure / FinalStructure roots, "
        "inheritance, multiple bases, mixins, defaults of every spelling, Constants, _ignore_none own / inherited); 40% of "
        "the sources come from the multiple-inheritance stream (diamonds S(L, R) over a shared root, longer arm, three "
        "bases, two unrelated roots, double diamond, leaf below the join; a field re-declared - usually the same kind with "
        "other constraints - at the first base / a later base / the join / the leaf); probe values for a retained field "
        "are drawn from EVERY declaration of that name in the source's hierarchy; "
        "compositions of 1..3 operators drawn from Partial / AllFieldsRequired / Extend / Omit / Pick (subscript, "
        "named subscript and Structure.omit/pick spellings) over random subsets of the field names (incl. repeated and "
        "unknown names - fresh ones and names that ARE attributes / methods / internal names of the class: omit, pick, _required, _fields, __init__, __doc__ ...; a third of the Omit / Pick calls give no class name: Foo.omit(...), Omit[Foo, names], incl. the empty subset, where the result must still be a new class; the names argument of Omit / Pick passed as tuple, list, set, frozenset, dict keys view, generator "
        "expression, iter(list), filter / map object or a bare one-character str), derived classes further extended by subclassing with new / redeclared fields and derived "
        "again; per retained field a shared value stream (valid, boundary neighbours, type confusion, None) on source "
        "vs derived; every source / derived / extending class is rendered through the bridge (FieldDecl.struct vs the real "
        "class) and constructed from 6 keyword lists through the constructor and the other entry points; "
        "non-trivial = >= 2 class-creating statements; distinct by sha256 of the case line")
ASSUMPTIONS = [
    "class identity is the class name (fresh names per case); a literal None default is generated and modelled (it is no default)",
    "None is compared on a retained field only where the documented requiredness of that field agrees in source and derived",
    "_additional_properties / _immutable / own mapper attributes of source and derived class are part of the compared class dump (the derived class has none: C12.derive_flags_not_copied); the CONTENT of mappers is not modelled",
]


def cases(rng, tier):
    return S.gen_cases(rng, tier, 1500 if tier == "quick" else 15000)


def search_cases(rng, tier):
    return S.gen_cases(rng, "thorough", 500)


run_impl = S.run_impl
line = S.line
tags = S.tags
nontrivial = S.nontrivial
describe = S.describe


def judge(case, impl, model):
    msg = S.correspondence(case, impl, model)
    fails = []
    msteps = (model or {}).get("steps", [])
    for i, (st, r) in enumerate(zip(case["steps"], impl.get("steps", []))):
        if "skipped" in r or st["op"] != "derive":
            if st["op"] == "define" and st.get("extends_derived") and "ok" in r:
                # further extension of a derived class: retained fields keep behaviour and defaults
                for f in r["obs"]["inherited"]:
                    if "diff" in f or "default_diff" in f:
                        fails.append(("extension-changes-retained-field",
                                      f"{st['src']['name']}.{f['field']} differs from {f['owner']}: "
                                      + json.dumps(f.get("diff") or f.get("default_diff"))[:200]))
                for b in r["obs"]["bases"]:
                    if b["missing_fields"]:
                        fails.append(("extension-loses-fields", f"{st['src']['name']} lacks {b['missing_fields']}"))
                if not r["obs"].get("bases_unchanged", True):
                    fails.append(("source-changed:extension", f"extending {st['extends_derived']} changed it"))
            continue
        kind = st["kind"]
        what = f"{kind}[{st['source']}{', ' + json.dumps(st['names']) if st['names'] else ''}]"
        if "err" in r:
            if not r.get("source_unchanged", True):
                fails.append((f"source-changed:{kind}", f"failed {what} changed the source class"))
            if st.get("unknown"):
                if r["err"] != "TypeError":
                    fails.append((f"unknown-name-not-TypeError:{kind}", f"{what} raised {r['err']}: {r.get('msg')}"))
            elif kind == "allRequired" and r.get("source_has_constant") and r["err"] == "AttributeError":
                fails.append(("derive-raises:allRequired:constant", f"{what} raises AttributeError: {r.get('msg')}"))
            else:
                fails.append((f"derive-raises:{kind}:{r['err']}", f"{what} raised {r['err']}: {r.get('msg')}"))
            continue
        if st.get("unknown"):
            fails.append((f"unknown-name-accepted:{kind}", f"{what} names a non-existent field but returned a class"))
            continue
        obs = r["obs"]
        if not obs["fields_ok"]:
            fails.append((f"field-set:{kind}", f"{what} has fields {obs['fields']}"))
        if not obs["required_ok"]:
            if obs.get("required_with_default") and set(obs["required_want"]) - set(obs["required"]) == set(obs["required_with_default"]):
                fails.append((f"required-set:{kind}:source-requires-field-with-default",
                              f"{what}: _required {obs['required']} drops {obs['required_with_default']} "
                              f"(required in the source although they have defaults)"))
            else:
                fails.append((f"required-set:{kind}", f"{what} has _required {obs['required']}, documented {obs['required_want']}"))
        if obs["is_subclass"]:
            fails.append((f"is-subclass:{kind}", f"{what} is a subclass of its source"))
        if not obs["is_structure"]:
            fails.append((f"not-a-structure:{kind}", f"{what} is not a Structure class"))
        for f in obs["retained"]:
            d = f.get("diff") if isinstance(f.get("diff"), dict) else None
            if d and isinstance(d.get("value"), dict) and (set(d["value"]) & {"fs", "s"}) \
                    and "err" in (d.get("first") or {}) and "err" in (d.get("second") or {}):
                # both classes REJECT the set-valued probe; which element is met first (and so whether the
                # rejection is a TypeError or a ValueError) depends on the iteration order of the two set objects
                continue
            if "diff" in f:
                fails.append((f"retained-field-behaviour:{kind}",
                              f"{what}.{f['field']} differs from the source: " + json.dumps(f["diff"])[:240]))
            if "default_diff" in f:
                fails.append((f"retained-field-default:{kind}", f"{what}.{f['field']} default differs: {f['default_diff']}"))
        if obs["none_diff"]:
            src_ign, der_ign, own = obs["ignore_none"]
            key = "ignore-none-dropped:inherited" if (src_ign and not der_ign and not own) else f"none-handling:{kind}"
            fails.append((key, f"{what}: None for optional field {obs['none_diff'][0]['field']}: source "
                               f"{obs['none_diff'][0]['source']} derived {obs['none_diff'][0]['derived']}"))
        if not obs["source_unchanged"]:
            fails.append((f"source-changed:{kind}", f"{what} changed the source class (fingerprint before != after)"))
        # the documented field-set specification (Lean, Spec/FieldSet.lean) on the real result
        if i < len(msteps):
            m = msteps[i]
            if m.get("specFields") is False:
                fails.append((f"field-set:{kind}", f"{what}: Lean FieldSetSpec rejects the real field set {obs['fields']}"))
            if m.get("specRequired") is False and obs["required_ok"]:
                fails.append((f"required-set:{kind}", f"{what}: Lean FieldSetSpec rejects the real required set {obs['required']}"))
    return msg, fails
