"""C15 — a class behaves per its own definition, whatever else was defined or used (partial)."""
import os

from ..suites import world as S

ID = "C15"
SUITE = "world"
LEAN_TARGETS = ["TypedpyModel.Props.C15", "TypedpyModel.Audit.C15"]
AUDIT = "C15"
THEOREMS = ["Typedpy.C15." + t for t in (
    "frame", "frame_alone", "use_changes_no_view", "create_serializer_frame", "use_preserves_coherence",
    "create_serializer_preserves_coherence", "define_preserves_coherence", "define_changes_no_other_class",
    "accept_decision_frame", "safe_config_of_safe_tables", "C15_of_safe_config", "frame_safe_tables",
    "current_config_le_mro", "unsafe_rows_are_outside_model", "tables_ok", "C15_today_partial",
    "C15_today_if_safe", "current_config_safe", "C15_today", "excluded_today_empty", "excluded_today", "use_changes_no_view_today", "pinned_config", "config_no_worse",
    "name_keyed_registry_breaks_frame", "inplace_required_breaks_frame", "registry_fixed_example",
    "required_fixed_example", "C15_statement_fails_with_findings", "counterexamples_are_excluded",
    "frame_example", "camel_key_dropped_breaks_frame", "refs_example", "nested_frame_example",
    "nested_create_example", "mro_serializer_breaks_frame", "C15_statement_fails_with_mro_lookup",
    "mro_fixed_example", "construct_result_frame", "construct_result_unchanged_by_use",
    "construct_result_example", "use_state_frame", "use_state_frame_today", "state_frame_example")]
RULE = ("histories of 2-5 (thorough: 2-7) class definitions — roots, subclasses, Omit/Pick/Partial/AllFieldsRequired/"
        "Extend-derived classes, FastSerializable classes, same-named classes, snake_case field names of which half "
        "come from a small pool so that unrelated classes share field names, renamed serialization keys, fields that "
        "implicitly wrap 1-4 user classes of which several share a __name__ (Field[U], Array[U]), ClassReference "
        "fields, positional Arrays of two Structure item types (Array(items=[A, B])), 30 kinds of self-contained "
        "typedpy fields incl. two field-factory functions shared by all classes, inline StructureReference and three "
        "AnyOf fields whose options OVERLAP and normalise differently (AnyOf[DateField, String], [Integer, Float], "
        "[Enum, String]) — interleaved with 2-8 (thorough: 2-25) uses (construct, serialize and deserialize with "
        "camel_case_convert on or off as a use-parameter, structure_to_schema, schema_to_struct_code, create_serializer, "
        "trusted deserialization; a quarter of the uses with the SECOND valid value of every field, one only a later "
        "AnyOf option accepts) and toggles/restores of 3 global defaults; a fifth of the histories are FastSerializable "
        "hierarchies that refer to each other (fast root, 1-2 fast subclasses adding fields, 1-2 owners — fast or not — "
        "with direct / Array / optional ClassReference fields to them, owners of owners, owner-side '<field>._mapper' "
        "entries naming keys of the nested class) used in random order incl. create_serializer with serialize_none / "
        "compact, instantiation and serialization of the MINIMAL instance (optional references omitted, arrays of classes "
        "empty): these are IN the Lean model (nested cache fills, nested serializer generation, flags bound at generation, "
        "late lookup through the MRO); an explicit create_serializer with flags, and a plain one after it, counts as "
        "configuration of that class and is replayed in its 'alone' run (Lean: sliceK); an eighth are classes WRITTEN TO "
        "A MODULE FILE on disk (from __future__ import annotations, or quoted references) partly at module level, partly "
        "inside one or two functions, with class names from a pool of four so that a function-local and a module-level "
        "class often share a name, fields referring to other classes by name; plus ~330 directed histories: the repaired "
        "defects, FastSerializable base/subclass/owner triples with the serializers generated in every order, owner-side "
        "nested mappers with the owner's serializer generated before the nested class is used, the repaired MRO finding "
        "(owner of a class whose serializer cannot be generated, base class used first), base/derived pairs sharing an "
        "overlapping AnyOf field object through every derivation operator, positional item classes sharing a mapped "
        "field name with the container, every derivation operator on a class with optional/defaulted/renamed fields, the "
        "same class serialized with both camel_case_convert values in every order.  Each history runs against the real "
        "typedpy in a process forked from a pristine interpreter; every class is then re-defined ALONE (only the "
        "definitions it depends on + the default toggles + its serializer configurations) in another pristine process; "
        "behaviour fingerprints (accept/reject vector with stored values AND error texts over <= 60 probe argument sets "
        "incl. instances of every user class and the minimal instance, constructor signature, serialize / compact / "
        "camel-case / Serializer / .serialize(), deserialize incl. camel-case round trip, missing and extra keys, trusted "
        "deserialization, None-assignment, del, extra attribute, _required, wrapper targets, JSON schema, schema-to-code "
        "text, generated .pyi stub text, and the export of every class IN ORDER into ONE shared definitions accumulator: schema "
        "plus what its $refs resolve to in the accumulator) are compared; the Lean World model runs the same history (with the instances the "
        "executor builds for the arguments as explicit constructions) and its per-step observations (definition success, "
        "wrapper targets, keys emitted by serialize, shape of x.serialize() with nested documents, the set of classes "
        "owning a generated serializer after EVERY step, create_serializer success, instantiability, schema 'required', "
        "_required), final class state and interference verdict per class are compared with the real code; for the "
        "classes whose fields all have a FieldDecl, Sem/Validate's constructor run on the declaration assembled from the "
        "model's VIEW is compared with the real constructor (accept / exception class) on the concrete probe arguments. "
        "non-trivial = >= 3 ops; distinct by sha256 of the case")
ASSUMPTIONS = [
    "PARTIAL: only process-wide state that extract/registries.py can see is in the model (module/class-level containers "
    "incl. unkeyed ones, lru_cache, TypedPyDefaults/Structure switches and who writes them, cls.x writes, in-place writes "
    "to definition attributes, attributes written onto Field objects at use time, mutable default arguments, closure "
    "cells, configuration captured at generation time, class-attribute memos read through the MRO); the "
    "fresh-interpreter comparison is the backstop for everything else",
    "sharing one Field instance between unrelated fields is excluded (documented as unsupported); a Field object shared "
    "through inheritance / derivation IS in scope",
    "a class defined while a global default is toggled keeps what was captured at definition; 'alone' replays the "
    "same toggles around the same definitions",
    "an explicit create_serializer(cls, serialize_none/compact) is configuration of cls (kept in the class's own "
    "sub-history), also for the classes that refer to cls",
    "the repr of a class inside error texts lists the generated serializer attributes of the class; these are erased "
    "from the compared texts (they are compared as state: ownSerialize / created)",
    "the MRO finding (owner of a class whose own serializer cannot be generated; repaired in /repo 981c83d) stays in the "
    "directed histories and as a table-driven model switch",
    "positional arrays of FastSerializable item classes are judged by the oracle alone",
    "uniqueness features (@unique, off by default) are history-dependent by design and outside the claim",
    "PYTHONHASHSEED=0",
]
TRUSTED_EXTRA = [
    "extract/registries.py (AST idiom matcher producing Generated/Registries.lean) and the abstraction of class "
    "definitions to ClassSrc in harness/suites/world.py (field kinds, introspected fastOk/trustedOk/schemaOk flags)",
    "os.fork of an interpreter that has only imported typedpy is taken as 'a fresh interpreter'",
]


def pre_build():
    from extract import registries
    registries.regenerate()


def cases(rng, tier):
    return S.announce(S.gen_cases(rng, tier, 600 if tier == "quick" else 10000))


def search_cases(rng, tier):
    return S.announce(S.gen_cases(rng, "thorough", 1500, directed=False))


run_impl = S.run_impl
line = S.line
tags = S.tags
nontrivial = S.nontrivial
describe = S.describe
judge = S.judge
