"""C04 — immutable structures and immutable fields never change after construction."""
import collections
import copy
import json
import re

from ..suites import mutate as S
from ..suites import construct as C
from ..suites import deepimm as DI
from .. import dump, gen, aliasprobe

ID = "C04"
SUITE = "mutate+alias"
LEAN_TARGETS = ["TypedpyModel.Props.C04", "TypedpyModel.Props.C04Alias", "TypedpyModel.Props.C04Subclass", "TypedpyModel.Audit.C04"]
AUDIT = "C04"
THEOREMS = re.findall(r"#print axioms (\S+)", open(__file__.rsplit("/harness/", 1)[0] + "/lean/TypedpyModel/Audit/C04.lean").read())
RULE = ("(a) mutate suite on ImmutableStructure classes and classes with Immutable* fields: histories of setattr/del/"
        "every list/dict/deque mutator (also on nested wrappers), snapshot after every op; (b) alias probe: for each "
        "immutable instance every accessor of every field value (read, index, iteration, list()/dict(), copy(), "
        "copy.copy, slice, +, *, reversed, get, items(), values(), |) x every object so obtained (depth 2) x every "
        "mutator found by introspection of its runtime type, each on a fresh instance, fingerprint = dump + hash + "
        "str + serialization; (c) later mutation of the constructor arguments; (d) subclassing "
        "ImmutableStructure/FinalStructure/ImmutableField classes; (e) directed cases: mutable objects inside tuples / "
        "untyped positions of immutable instances, and fields declared immutable=True (Anything, Tuple, Set, untyped and "
        "typed Array/Deque/Map) inside a MUTABLE structure - accessor probe + constructor-argument aliasing with the whole "
        "argument object graph walked; (f) deep cases (suites/deepimm.py, oracle-only): 35 immutable classes whose field holds "
        "structures inside collections inside structures (Deque/Array/Map/Tuple of structures at depth 2-4, untyped collections "
        "of dicts/lists, collections held through Optional/AnyOf, Map with Structure keys), each alone and next to a defaulted "
        "field: every object reachable through public reads at any depth x every mutator of its runtime type; every mutable "
        "object reachable from the constructor argument mutated afterwards; and the argument being the wrapper object read "
        "from another structure's field, that structure mutated afterwards; (g) the extended mutate stream (slices, sort "
        "kwargs, kept / stale wrapper references, nested wrappers at depth 1-3 by key paths, collections of structures, "
        "SizedString / formatted strings) on immutable classes and classes with immutable fields: nothing changes and, for "
        "an immutable class, every attempt raises; (h) immfield specs for user-defined immutable wrappers "
        "(class X(ImmutableField, AnyOf|OneOf|AllOf|Array|Deque|Map|Integer)) and untyped immutable sets / tuples / Anything "
        "holding structures: direct re-assignment / None / deletion, accessor probe, constructor-argument aliasing; "
        "(i) table-directed accessor probe: every accessor the extractor lists for the Lean table (native members exposing "
        "references found by probing + every non-mutating method the wrapper defines) x 2 owners x 2 shapes x canned "
        "arguments: every object handed out x mutation attempts of its runtime type, each on a fresh instance; "
        "non-trivial = >=1 op/probe; distinct by case hash")
ASSUMPTIONS = [
    "default configuration (defensive_copy_on_get on, no trusted instantiation); direct __dict__/object.__setattr__ access excluded",
    "accessor half: proved on the heap model for the accessor modes of the regenerated table (extract/aliasing_c04.py: AST idiom + identity witness probe); the alias probe on the real code finds the failing input when a mode stops being true",
]


# ---- field-level immutability of values that are not wrapper objects (Anything / Tuple / Set declared
# immutable=True inside a MUTABLE structure): oracle-only cases, built directly (no model counterpart)
def _tag_class():
    """a hashable, mutable Structure (elements of untyped immutable sets / keys)"""
    from typedpy import Structure, String, Array, Integer
    Tag = type("Tag", (Structure,), {"name": String, "labels": Array[String], "weight": Integer, "_required": ["name"]})
    return Tag


def _user_immutable(base_name):
    """the documented way to declare an immutable variant of a field type: class X(ImmutableField, <Field>)"""
    import typedpy as T
    return type("Immutable" + base_name, (T.ImmutableField, getattr(T, base_name)), {})


def _immfield_specs():
    from typedpy import Anything, Integer, Tuple, Array, Map, String, Set, Deque, ImmutableSet
    Tag = _tag_class()
    tags = lambda: [Tag(name="a", labels=["x"], weight=1), Tag(name="b", labels=["y", "z"], weight=2)]
    return {
        # untyped immutable sets holding mutable (hashable) structures: the caller keeps the element objects
        "set-untyped-structs": (lambda: Set(immutable=True), [lambda: set(tags()), lambda: frozenset(tags())]),
        "immutableset-untyped-structs": (lambda: ImmutableSet(), [lambda: set(tags()), lambda: frozenset(tags())]),
        "immutableset-typed-structs": (lambda: ImmutableSet(items=Tag), [lambda: frozenset(tags())]),
        "tuple-structs": (lambda: Tuple(items=[Anything, Integer], immutable=True), [lambda: (tags()[0], 1)]),
        "anything-structs": (lambda: Anything(immutable=True), [lambda: {"k": tags()}, lambda: frozenset(tags())]),
        # user-defined immutable variants of the multi-field wrappers and of the collection fields
        "user-immutable-anyof-scalar": (lambda: _user_immutable("AnyOf")[Integer, String], [3, "s"]),
        "user-immutable-anyof-array": (lambda: _user_immutable("AnyOf")[Array[Integer], String], [[1, 2, 3], "s"]),
        "user-immutable-anyof-map": (lambda: _user_immutable("AnyOf")[Map[String, Integer], Integer], [{"a": 1}, 4]),
        "user-immutable-oneof": (lambda: _user_immutable("OneOf")[Array[Integer], String], [[1, 2, 3], "s"]),
        "user-immutable-allof": (lambda: _user_immutable("AllOf")[Array[Integer], Array(minItems=1)], [[1, 2, 3], [4]]),
        "user-immutable-array": (lambda: _user_immutable("Array")(items=Integer), [[1, 2, 3], [4]]),
        "user-immutable-deque": (lambda: _user_immutable("Deque")(items=Integer), [collections.deque([1, 2]), collections.deque([4])]),
        "user-immutable-map": (lambda: _user_immutable("Map")(items=[String, Integer]), [{"a": 1}, {"b": 2}]),
        "user-immutable-integer": (lambda: _user_immutable("Integer")(), [3, 4]),
        "anything": (lambda: Anything(immutable=True),
                     [["a", ["b"]], {"k": [1]}, (["a", "b"], "meta"), [([1],)], {"k": ({"z": [1]},)}, [], {}, set()]),
        "tuple": (lambda: Tuple(items=[Anything, Integer], immutable=True), [(["a"], 1), ({"k": 1}, 2), (([1],), 3)]),
        "array-untyped": (lambda: Array(immutable=True), [[[1], {"k": 2}], [([1],)]]),
        "array-anything": (lambda: Array(items=Anything, immutable=True), [[[1], {"k": 2}, ([3],)]]),
        "deque-untyped": (lambda: Deque(immutable=True), [[[1], ([2],)]]),
        "map-untyped": (lambda: Map(immutable=True), [{"a": [1]}, {"a": ([1],)}]),
        "map-typed": (lambda: Map(items=[String, Array[Integer]], immutable=True), [{"a": [1]}]),
        "array-array": (lambda: Array(items=Array[Integer], immutable=True), [[[1], [2]]]),
        "set": (lambda: Set(immutable=True), [{1, 2}, set()]),
        "set-typed": (lambda: Set(items=Integer, immutable=True), [{1, 2}, set()]),
        "array-untyped-empty": (lambda: Array(immutable=True), [[]]),
        "map-untyped-empty": (lambda: Map(immutable=True), [{}]),
    }


def immfield_cases():
    out = []
    for name, (_, vals) in sorted(_immfield_specs().items()):
        for vi in range(len(vals)):
            out.append({"suite": "immfield", "spec": name, "value": vi})
    return out


def run_immfield(case):
    from typedpy import Structure, Integer
    mk, vals = _immfield_specs()[case["spec"]]
    val = lambda i: (vals[i]() if callable(vals[i]) else copy.deepcopy(vals[i]))
    v = val(case["value"])
    ctx = C.make_ctx()
    try:
        H = type("H", (Structure,), {"f": mk(), "n": Integer, "_required": ["f"]})
        build = lambda: H(f=val(case["value"]), n=1)
        build()
    except Exception as e:
        return {"skip": f"{type(e).__name__}: {e}"[:200]}
    res = {"probe": [r for r in aliasprobe.probe(build, ctx) if r["changed"] and r["field"] == "f"][:50]}
    # direct attempts on the field itself: re-assignment (another valid value), deletion, assignment of None
    direct = []
    attempts = [("setattr-other", lambda x, i=i: setattr(x, "f", val(i))) for i in range(len(vals)) if i != case["value"]]
    attempts += [("setattr-none", lambda x: setattr(x, "f", None)), ("delitem", lambda x: x.__delitem__("f")),
                 ("delattr", lambda x: delattr(x, "f"))]
    for label, act in attempts:
        x = build()
        fp0 = (aliasprobe.fingerprint(x, ctx), repr(getattr(x, "f", "<missing>")))
        try:
            act(x)
            raised = None
        except Exception as e:
            raised = type(e).__name__
        if (aliasprobe.fingerprint(x, ctx), repr(getattr(x, "f", "<missing>"))) != fp0:
            direct.append({"op": label, "raised": raised})
    res["direct"] = direct
    leaks = []
    n_targets = len(aliasprobe.reachable_mutables(val(case["value"])))
    for ti in range(n_targets):
        for mi in range(len(aliasprobe.mutation_attempts(aliasprobe.reachable_mutables(val(case["value"]))[ti][1]))):
            arg = val(case["value"])
            x = H(f=arg, n=1)
            fp0 = aliasprobe.fingerprint(x, ctx)
            path, o = aliasprobe.reachable_mutables(arg)[ti]
            mlabel, attempt = aliasprobe.mutation_attempts(o)[mi]
            try:
                attempt()
            except Exception:
                pass
            if aliasprobe.fingerprint(x, ctx) != fp0:
                leaks.append({"field": "f", "via": _short_path(path), "mut": mlabel})
    res["ctor_leaks"] = leaks[:20]
    return res


def extrakw_cases():
    """an ImmutableStructure (additional properties allowed, the default) built with an UNDECLARED keyword whose value is
    mutable: later mutation of that argument must not change the instance"""
    return [{"suite": "extrakw", "value": i, "declared_too": d} for i in range(4) for d in (False, True)]


def run_extrakw(case):
    from typedpy import ImmutableStructure, Integer, Array
    vals = [lambda: [1, [2]], lambda: {"k": [1]}, lambda: {1, 2}, lambda: ([1], {"z": 2})]
    ctx = C.make_ctx()
    try:
        body = {"a": Integer, "_required": []}
        if case["declared_too"]:
            body["xs"] = Array[Integer]
        cls = type("XK", (ImmutableStructure,), body)
        kw = lambda arg: dict(a=1, extra=arg, **({"xs": [1]} if case["declared_too"] else {}))
        cls(**kw(vals[case["value"]]()))
    except Exception as e:
        return {"skip": f"{type(e).__name__}: {e}"[:200]}
    leaks = []
    n_targets = len(aliasprobe.reachable_mutables(vals[case["value"]]()))
    for ti in range(n_targets):
        for mi in range(len(aliasprobe.mutation_attempts(aliasprobe.reachable_mutables(vals[case["value"]]())[ti][1]))):
            arg = vals[case["value"]]()
            x = cls(**kw(arg))
            fp0 = (str(x), repr(Serializer_safe(x)))
            path, o = aliasprobe.reachable_mutables(arg)[ti]
            label, attempt = aliasprobe.mutation_attempts(o)[mi]
            try:
                attempt()
            except Exception:
                pass
            if (str(x), repr(Serializer_safe(x))) != fp0:
                leaks.append({"via": _short_path(path), "mut": label})
    return {"leaks": leaks[:20]}


def undefined_cases():
    """ImmutableStructure classes with _enable_undefined_value: assigning None (or anything) to any field after
    construction, and deleting, must raise and change nothing"""
    out = []
    for imm_cls in (True, False):
        for req in (True, False):
            out.append({"suite": "undefimm", "immutable_class": imm_cls, "required_a": req})
    return out


def run_undefimm(case):
    from typedpy import Structure, ImmutableStructure, Integer, String, Array, Map, ImmutableArray, ImmutableMap, ImmutableString
    ctx = C.make_ctx()
    if case["immutable_class"]:
        body = {"a": Integer(), "s": String(), "xs": Array(items=Integer()), "m": Map(items=[String(), Integer()]), "u": String()}
        base = ImmutableStructure
    else:   # mutable class, immutable FIELDS
        body = {"a": Integer(), "s": ImmutableString(), "xs": ImmutableArray(items=Integer()), "m": ImmutableMap(items=[String(), Integer()]),
                "u": ImmutableString()}
        base = Structure
    body["_enable_undefined_value"] = True
    body["_required"] = ["a"] if case["required_a"] else []
    try:
        cls = type("U", (base,), body)
        x = cls(a=1, s="joe", xs=[1, 2], m={"k": 1})
    except Exception as e:
        return {"skip": f"{type(e).__name__}: {e}"[:200]}
    watched = ["s", "xs", "m", "u"] + (["a"] if case["immutable_class"] else [])
    snap = lambda: (str(x), repr(sorted((k, repr(v)) for k, v in x.__dict__.items() if k not in ("_instantiated", "_trust_supplied_values"))),
                    repr({k: getattr(x, k, "<missing>") for k in watched}))
    steps = []
    for name in watched:
        for label, act in (("=None", lambda n=name: setattr(x, n, None)), ("=value", lambda n=name: setattr(x, n, {"s": "bob", "u": "z", "xs": [9], "m": {"z": 2}, "a": 5}[n])),
                           ("del", lambda n=name: x.__delitem__(n))):
            if name == "u" and not case["immutable_class"]:
                continue      # an immutable FIELD that is not set yet may be set once (also to an explicit None)
            before = snap()
            try:
                act()
                raised = None
            except Exception as e:
                raised = type(e).__name__
            steps.append({"op": name + label, "raised": raised, "changed": snap() != before})
            if snap() != before:    # restore by rebuilding
                x = cls(a=1, s="joe", xs=[1, 2], m={"k": 1})
    return {"steps": steps}


# ---- table-directed accessor probe: every accessor the extractor lists for the Lean table (native members that expose
# references + whatever the wrapper class defines itself) is called on the wrapper of a real immutable owner, every
# object it hands out is attacked with every mutation attempt of its runtime type, each on a FRESH instance; the owner's
# fingerprint must not change.  This is what turns a `raw` row of the table into a failing input.
def accprobe_cases(tier="quick"):
    from extract import aliasing_c04 as A
    names = A.accessor_names()
    out = []
    for owner in ("immutable-structure", "immutable-field"):
        for shape in ("untyped", "nested"):
            for kind in ("list", "dict", "deque"):
                for name in names[kind]:
                    out.append({"suite": "accprobe", "owner": owner, "shape": shape, "kind": kind, "accessor": name,
                                "full": tier != "quick"})
    return out


def run_accprobe(case):
    from extract import aliasing_c04 as A
    cls, vals = A._owners()[(case["owner"], case["shape"])]
    kind, name = case["kind"], case["accessor"]
    ctx = C.make_ctx()

    def fresh():
        x = cls(**{"f_" + kind: vals()[kind]})
        return x, getattr(x, "f_" + kind)

    def fp(x):
        if case["owner"] == "immutable-field":
            # the owner is a MUTABLE structure (its state may be handed out and changed): only the immutable field is watched
            return repr(aliasprobe.deep_canon(x.__dict__["f_" + kind]))
        return (str(x), repr(Serializer_safe(x)))
    leaks, attempts = [], 0
    x0, w0 = fresh()
    for ai in range(len(A._canned(kind, w0))):
        def obtained(w, ai=ai):
            args = A._canned(kind, w)[ai]
            member = getattr(w, name, None)
            if member is None:
                return []
            try:
                res = member(*args)
            except Exception:
                return []
            return [o for o in A._walk(res) if aliasprobe.mutation_attempts(o)]
        objs = obtained(w0)
        for oi in range(min(len(objs), 6 if case.get("full") else 3)):
            n_att = len(aliasprobe.mutation_attempts(objs[oi]))
            # quick tier: three attempts per object (first, middle, last of the introspected list) - any mutation that goes
            # through reveals the leak; thorough: all of them
            picks = range(n_att) if case.get("full") or n_att <= 3 else sorted({0, n_att // 2, n_att - 1})
            for mi in picks:
                x, w = fresh()
                before = fp(x)
                got = obtained(w)
                if oi >= len(got):
                    continue
                atts = aliasprobe.mutation_attempts(got[oi])
                if mi >= len(atts):
                    continue
                label, attempt = atts[mi]
                attempts += 1
                try:
                    attempt()
                except Exception:
                    pass
                if fp(x) != before:
                    leaks.append({"mut": label, "args": ai})
        if objs and case["shape"] == "nested":
            break       # one argument tuple that hands out objects is enough for the typed shape; the untyped one tries all
        x0, w0 = fresh()
    return {"leaks": leaks[:20], "attempts": attempts}


def Serializer_safe(x):
    from typedpy import Serializer
    try:
        return Serializer(x).serialize()
    except Exception as e:
        return "serialize-raises:" + type(e).__name__


def pre_build():
    from extract import wrappers, aliasing_c04
    wrappers.generate()
    aliasing_c04.generate()


def alias_cases(rng, n):
    cases = []
    for ci in range(n):
        dg = gen.DeclGen(rng, max_depth=2)
        vg = gen.ValGen(rng)
        names = rng.sample(["a", "b", "c"], rng.randint(1, 3))
        fields = []
        for nm in names:
            r = rng.random()
            if r < 0.7:
                fd = S.gen_collection_decl(rng, dg)
            elif r < 0.85:
                fd = rng.choice([{"k": "seqOf", "item": {"k": "anything"}}, {"k": "mapOf", "key": {"k": "string"}, "val": {"k": "anything"}},
                                 {"k": "setOf", "item": {"k": "integer"}}, {"k": "tupleOf", "item": {"k": "seqAny"}}])
            else:
                fd = dg.decl(1)
            fields.append([nm, fd])
        cls = {"k": "struct", "name": f"I{ci}", "required": sorted(names), "addl": False, "fields": fields,
               "immutable": True}
        C.fix_accepts(cls)
        kw = vg.valid_kw(cls)
        if kw is gen.NOVALUE:
            continue
        cases.append({"suite": "construct", "probe": True, "cls": cls, "kw": kw, "re": gen.re_table(cls, kw)})
    # directed: mutable objects held inside tuples / untyped positions (kept by reference by design in a
    # mutable structure, but an ImmutableStructure must not alias them to the caller)
    T = lambda *xs: {"t": list(xs)}
    L = lambda *xs: {"l": list(xs)}
    M = lambda *kvs: {"m": [list(kv) for kv in kvs]}
    directed = [
        ({"k": "anything"}, T(L("a", "b"), "meta")),
        ({"k": "anything"}, T(M(["k", 1]), T(L(1)))),
        ({"k": "anything"}, L(T(L(1), 2), M(["k", L(3)]))),
        ({"k": "anything"}, M(["k", T(L(1))])),
        ({"k": "tuplePos", "items": [{"k": "anything"}, {"k": "integer"}]}, T(L("a", "b"), 1)),
        ({"k": "tupleOf", "item": {"k": "anything"}}, T(L(1), M(["k", 1]))),
        ({"k": "seqOf", "item": {"k": "anything"}}, L(T(L(1)), L(2))),
        ({"k": "mapOf", "key": {"k": "string"}, "val": {"k": "anything"}}, M(["a", T(L(1))], ["b", L(T(M(["z", 1])))])),
        ({"k": "seqAny"}, L(T(L(1)), L(2), M(["k", 1]))),
        ({"k": "mapAny"}, M(["a", T(L(1))], ["b", L(2)])),
        ({"k": "tupleOf", "item": {"k": "seqAny"}}, T(L(1, 2), L())),
        ({"k": "tupleOf", "item": {"k": "seqOf", "item": {"k": "integer"}}}, T(L(1, 2), L(3))),
        ({"k": "tuplePos", "items": [{"k": "mapAny"}, {"k": "seqOf", "item": {"k": "string"}}]}, T(M(["k", 1]), L("a"))),
        # falsy stored values: the defensive copy must not depend on the truthiness of what is stored
        ({"k": "anything"}, L()), ({"k": "anything"}, M()), ({"k": "anything"}, {"s": []}),
        ({"k": "setAny"}, {"s": []}), ({"k": "setOf", "item": {"k": "integer"}}, {"s": []}),
        ({"k": "tuplePos", "items": [{"k": "anything"}, {"k": "integer"}]}, T(L(), 0)),
        ({"k": "seqAny"}, L()), ({"k": "mapAny"}, M()), ({"k": "seqOf", "item": {"k": "seqAny"}}, L(L())),
    ]
    for di, (fd, v) in enumerate(directed):
        cls = {"k": "struct", "name": f"D{di}", "required": ["a"], "addl": False, "fields": [["a", fd]], "immutable": True}
        C.fix_accepts(cls)
        kw = [["a", v]]
        cases.append({"suite": "construct", "probe": True, "cls": cls, "kw": kw, "re": gen.re_table(cls, kw)})
    cases.append({"suite": "construct", "subclassing": True, "cls": {"k": "struct", "name": "Sub0", "required": [], "addl": True, "fields": [["a", {"k": "integer"}]], "immutable": True, "accepts": ["Sub0"]},
                  "kw": [["a", 1]], "re": []})
    return cases


def cases(rng, tier):
    n = 250 if tier == "quick" else 3000
    return S.gen_cases(rng, tier, n, immutable=True) + S.gen_cases(rng, tier, n // 2, immutable=None) \
        + alias_cases(rng, 25 if tier == "quick" else 400) + immfield_cases() + undefined_cases() + DI.cases() \
        + S.gen_cases_ext(rng, tier, n // 3, immutable=True) + S.gen_cases_ext(rng, tier, n // 3, immutable=None) \
        + accprobe_cases(tier) + extrakw_cases()


def search_cases(rng, tier):
    return S.gen_cases(rng, "thorough", 400, immutable=True) + alias_cases(rng, 150)


def run_impl(case):
    if case["suite"] == "mutate":
        return S.run_impl(case)
    if case["suite"] == "immfield":
        return run_immfield(case)
    if case["suite"] == "undefimm":
        return run_undefimm(case)
    if case["suite"] == "deepimm":
        return DI.run_impl(case)
    if case["suite"] == "accprobe":
        return run_accprobe(case)
    if case["suite"] == "extrakw":
        return run_extrakw(case)
    res = C.run_impl(case)
    if "ok" not in res:
        return res
    ctx = C.make_ctx()
    cls = dump.build_class(case["cls"], ctx)
    if case.get("subclassing"):
        from typedpy import FinalStructure, ImmutableField, String
        outcomes = {}
        from typedpy import Structure as _St, Integer as _Int
        Mixin = type("Mixin", (), {"helper": lambda self: 1})
        Mixin2 = type("Mixin2", (Mixin,), {})
        Plain = type("PlainSt", (_St,), {"p": _Int, "_required": []})
        Fin = type("Fin", (FinalStructure,), {"a": String})
        IF = type("IF", (ImmutableField, String), {})
        shapes = [("ImmutableStructure", lambda: type("SubI", (cls,), {})),
                  ("FinalStructure", lambda: type("SubF", (Fin,), {})),
                  ("ImmutableField", lambda: type("SubIF", (IF,), {})),
                  # several bases: a plain Python mix-in or another typedpy class before / after the sealed base, at two depths
                  ("ImmutableStructure:mixin-first", lambda: type("SubI2", (Mixin, cls), {})),
                  ("ImmutableStructure:mixin-last", lambda: type("SubI3", (cls, Mixin), {})),
                  ("ImmutableStructure:mixin2-first", lambda: type("SubI4", (Mixin2, cls), {"_immutable": False})),
                  ("ImmutableStructure:structure-first", lambda: type("SubI5", (Plain, cls), {})),
                  ("ImmutableStructure:mixin-structure-first", lambda: type("SubI6", (Mixin, Plain, cls), {})),
                  ("FinalStructure:mixin-first", lambda: type("SubF2", (Mixin, Fin), {})),
                  ("FinalStructure:structure-first", lambda: type("SubF3", (Plain, Fin), {})),
                  ("ImmutableField:mixin-first", lambda: type("SubIF2", (Mixin, IF), {})),
                  ("ImmutableField:field-first", lambda: type("SubIF3", (String, IF), {}))]
        for label, mk in shapes:
            try:
                mk()
                outcomes[label] = "defined"
            except Exception as e:
                outcomes[label] = type(e).__name__
        res["subclassing"] = outcomes
        return res
    def build():
        return cls(**{k: dump.load_value(v, ctx) for k, v in case["kw"]})
    try:
        res["probe"] = [r for r in aliasprobe.probe(build, ctx) if r["changed"]][:50]
        res["probes_run"] = True
        # later mutation of the objects passed to the constructor
        kw = {k: dump.load_value(v, ctx) for k, v in case["kw"]}
        x = cls(**kw)
        fp0 = aliasprobe.fingerprint(x, ctx)
        leaks = []
        for k in list(kw):
            n_targets = len(aliasprobe.reachable_mutables(kw[k]))
            for ti in range(n_targets):
                n_att = len(aliasprobe.mutation_attempts(aliasprobe.reachable_mutables(kw[k])[ti][1]))
                for mi in range(n_att):
                    # fresh arguments and a fresh instance for every single mutation attempt
                    kw2 = {k2: dump.load_value(v2, ctx) for k2, v2 in case["kw"]}
                    x = cls(**kw2)
                    fp0 = aliasprobe.fingerprint(x, ctx)
                    targets = aliasprobe.reachable_mutables(kw2[k])
                    if ti >= len(targets):
                        continue
                    path, o = targets[ti]
                    atts = aliasprobe.mutation_attempts(o)
                    if mi >= len(atts):
                        continue
                    mlabel, attempt = atts[mi]
                    try:
                        attempt()
                    except Exception:
                        pass
                    if aliasprobe.fingerprint(x, ctx) != fp0:
                        leaks.append({"field": k, "via": _short_path(path), "mut": mlabel})
        res["ctor_leaks"] = leaks[:20]
    except Exception as e:
        res["probe_error"] = f"{type(e).__name__}: {e}"
    return res


def _short_path(path):
    parts = path.split(">")
    return ">".join(parts[:1] + sorted(set(parts[1:]))) if len(parts) > 3 else path


def line(case, impl):
    if case["suite"] in ("immfield", "undefimm", "deepimm", "accprobe", "extrakw"):
        return None
    return S.line(case, impl) if case["suite"] == "mutate" else C.line(case, impl)


def tags(case, impl, model):
    if case["suite"] == "mutate":
        return S.tags(case, impl, model)
    if case["suite"] == "immfield":
        return ["immfield:" + case["spec"]]
    if case["suite"] == "undefimm":
        return ["undefimm:" + ("class" if case["immutable_class"] else "fields")]
    if case["suite"] == "deepimm":
        return ["deepimm:" + case["mode"], "deepimm-shape:" + case["shape"]]
    if case["suite"] == "extrakw":
        return ["extrakw"]
    if case["suite"] == "accprobe":
        return ["accprobe:" + case["kind"] + "." + case["accessor"], "accprobe-attempts:" + ("0" if not impl.get("attempts") else ">0")]
    return ["alias-probe" if case.get("probe") else "subclassing"] + (["impl:skipped"] if "ok" not in impl else [])


def nontrivial(case):
    return True


def describe(case, impl, model):
    if case["suite"] == "mutate":
        return S.describe(case, impl, model)
    if case["suite"] == "immfield":
        return {"immfield": case, "probe_changed": impl.get("probe"), "ctor_leaks": impl.get("ctor_leaks")}
    if case["suite"] == "undefimm":
        return {"undefimm": case, "steps": impl.get("steps")}
    if case["suite"] in ("deepimm", "accprobe", "extrakw"):
        return {case["suite"]: case, "leaks": impl.get("leaks"), "attempts": impl.get("attempts")}
    return {"cls": case["cls"], "kw": case["kw"], "probe_changed": impl.get("probe"), "ctor_leaks": impl.get("ctor_leaks")}


def judge(case, impl, model):
    fails = []
    if case["suite"] == "deepimm":
        return None, DI.judge(case, impl)
    if case["suite"] == "extrakw":
        return None, [(f"ctor-arg-alias:additional-property:{r['via']}:{r['mut']}",
                       f"ImmutableStructure changed by {r['mut']} on the value passed for an undeclared keyword ({r['via']})")
                      for r in impl.get("leaks", [])]
    if case["suite"] == "accprobe":
        return None, [(f"accessor-leak:{case['owner']}:{case['kind']}.{case['accessor']}:{r['mut']}",
                       f"{case['owner']} ({case['shape']} {case['kind']} field) changed by {r['mut']} on an object handed out by "
                       f"{case['accessor']} (canned argument tuple {r['args']})") for r in impl.get("leaks", [])]
    if case["suite"] == "undefimm":
        kind = "class" if case["immutable_class"] else "fields"
        for st in impl.get("steps", []):
            if st["changed"]:
                fails.append((f"undefined-immutable-changed:{kind}:{st['op'].split('=')[-1] if '=' in st['op'] else 'del'}",
                              f"{st['op']} on an _enable_undefined_value class with immutable {kind} changed the instance (raised: {st['raised']})"))
            elif st["raised"] is None:
                fails.append((f"undefined-immutable-no-raise:{kind}:{st['op'].split('=')[-1] if '=' in st['op'] else 'del'}",
                              f"{st['op']} on an _enable_undefined_value class with immutable {kind} did not raise"))
        return None, fails
    if case["suite"] == "immfield":
        for r in impl.get("probe", []):
            fails.append((f"immfield-leak:{case['spec']}:{r['via']}:{r['mut']}",
                          f"immutable field ({case['spec']}, immutable=True) of a mutable structure changed by {r['mut']} on an object obtained via {r['via']}"))
        for r in impl.get("direct", []):
            fails.append((f"immfield-changed:{case['spec']}:{r['op']}",
                          f"immutable field ({case['spec']}) of a mutable structure changed by {r['op']} (raised: {r['raised']})"))
        for r in impl.get("ctor_leaks", []):
            fails.append((f"immfield-ctor-arg-alias:{case['spec']}:{r['via']}:{r['mut']}",
                          f"immutable field ({case['spec']}) changed by mutating the constructor argument ({r['via']}, {r['mut']})"))
        return None, fails
    if case["suite"] != "mutate":
        msg = C.correspondence(case, impl, model)
        if "probe_error" in impl:
            msg = msg or ("alias probe crashed: " + impl["probe_error"])
        for r in impl.get("probe", []):
            fails.append((f"leak:{r['via']}:{r['mut']}",
                          f"immutable instance changed by {r['mut']} on an object obtained via {r['via']} of field {r['field']}"))
        for r in impl.get("ctor_leaks", []):
            fails.append((f"ctor-arg-alias:{r['via']}:{r['mut']}",
                          f"immutable instance changed by mutating the constructor argument of {r['field']} ({r['via']}, {r['mut']})"))
        for label, out in impl.get("subclassing", {}).items():
            if out != "TypeError":
                fails.append((f"subclassable:{label}", f"subclassing a {label} class: {out} (expected TypeError)"))
        return msg, fails
    msg = S.correspondence(case, impl, model)
    if "unbuildable" in impl or "abstraction_mismatch" in impl:
        return msg, fails
    cls = case["cls"]
    imm_fields = set(cls.get("immFields", [])) | {n for n, fd in cls["fields"] if fd.get("k") in ("setAny", "setOf") and fd.get("imm")}
    prev = impl["start"]
    for op, st in S.kept_steps(case, impl):
        site = S.op_site(case, op)
        before, after = dump.canon(prev), dump.canon(st["state"])
        if cls.get("immutable"):
            if before != after:
                fails.append((f"immutable-changed:{site}", f"{json.dumps(op)[:200]} changed an ImmutableStructure: {json.dumps(after)[:300]}"))
            elif st["out"] == "ok" and op["op"] != "take" and not (op["op"] == "callNested" and not S.nested_bound_now()):
                # (a nested wrapper of a tree whose nested wrappers are scratch-bound acts on a defensive copy without raising)
                fails.append((f"immutable-no-raise:{site}", f"{json.dumps(op)[:200]} did not raise on an ImmutableStructure"))
        else:
            b = dict(before["o"][1])
            a = dict(after["o"][1])
            for f in imm_fields:
                if f in b and b.get(f) != a.get(f):
                    fails.append((f"immfield-changed:{site}", f"{json.dumps(op)[:200]} changed immutable field {f}"))
        prev = st["state"]
    return msg, fails
