"""
Type-directed generators of model-level declarations (wire JSON) and of values for them.
All randomness comes from the `random.Random` passed in (seeded from VERIF_SEED), so every case
replays exactly.  The `guess_*` helpers only steer the generator towards a valid/invalid balance;
they are not oracles.
"""
import json
import re
from fractions import Fraction

PATTERNS = ["^[a-z]+$", "[0-9]", "ab*c", "^x", "a|b", "^.{2,3}$", "z$"]
STRINGS = ["", "a", "ab", "abc", "abbc", "x1", "xyz", "True", "False", "0", "hello", "Z", "a b", "é", "az"]
ENUMS = {
    "Color": ["RED", "GREEN", "BLUE"],
    "Size": ["S", "M", "L", "XL"],
}
INTS = [-7, -2, -1, 0, 1, 2, 3, 4, 5, 6, 8, 10, 12, 15, 100, 2 ** 40]
FLOATS = [Fraction(-5, 2), Fraction(-1, 2), Fraction(1, 2), Fraction(3, 2), Fraction(5, 2), Fraction(0.1),
          Fraction(1e-7), Fraction(10, 1), Fraction(0, 1), Fraction(3, 1), Fraction(-2, 1)]


def fl(fr):
    fr = Fraction(fr)
    return {"f": [fr.numerator, fr.denominator]}


def is_wire_float(v):
    return isinstance(v, dict) and "f" in v


def num_of(v):
    """Fraction of a numeric wire value or None"""
    if isinstance(v, bool):
        return None
    if isinstance(v, int):
        return Fraction(v)
    if isinstance(v, dict) and ("f" in v or "d" in v):
        a = v.get("f") or v.get("d")
        return Fraction(a[0], a[1])
    return None


# ------------------------------------------------------------------ declarations

SCALAR_KINDS = ["integer", "number", "float", "string", "boolean", "enumLit", "enumCls", "noneF", "anything"]
CONTAINER_KINDS = ["seqAny", "seqOf", "seqPos", "setAny", "setOf", "tupleOf", "tuplePos", "mapAny", "mapOf",
                   "struct", "inline", "anyOf", "oneOf", "allOf", "notF"]


class DeclGen:
    def __init__(self, rng, max_depth=3, p_constraint=0.35, allow=None, ext=False):
        self.rng = rng
        self.max_depth = max_depth
        self.p = p_constraint
        self.allow = allow
        self.counter = 0
        # ext=True adds the extension string kinds (SizedString, IPV4, HostName, DateString, TimeString, JSONString as
        # `string` declarations with "maxlen" / "fmt") to what `decl` draws from (DecimalNumber has its own stream);
        # with ext=False (the default) every draw is exactly what it was before these kinds existed
        self.ext = ext

    def coin(self, p=None):
        return self.rng.random() < (self.p if p is None else p)

    def fresh(self, prefix):
        self.counter += 1
        return f"{prefix}{self.counter}"

    def num_opts(self, kind):
        rng = self.rng
        d = {"k": kind}
        if self.coin(0.12):
            # only falsy bounds: every bound must be enforced because it is present, not because it is truthy
            which = rng.choice(["min", "max", "both", "max-excl"])
            if which in ("min", "both"):
                d["min"] = [0, 1]
            if which in ("max", "both", "max-excl"):
                d["max"] = [0, 1]
                if which == "max-excl":
                    d["excl"] = True
            if self.coin(0.3):
                d["minFloat" if "min" in d else "maxFloat"] = True
            return d
        if self.coin():
            d["mult"] = rng.choice([2, 3, 5])
        lo = hi = None
        if self.coin():
            lo = rng.choice([-2, 0, 1, 3, Fraction(1, 2), Fraction(-5, 2)])
            d["min"] = [Fraction(lo).numerator, Fraction(lo).denominator]
            if Fraction(lo).denominator != 1 or self.coin(0.2):
                d["minFloat"] = True
        if self.coin():
            hi = rng.choice([4, 6, 10, 12, Fraction(5, 2), Fraction(15, 2), 0, -1])
            if lo is not None and hi < lo:
                hi = lo + 6
            hi = Fraction(hi)
            d["max"] = [hi.numerator, hi.denominator]
            if hi.denominator != 1 or self.coin(0.2):
                d["maxFloat"] = True
            if self.coin():
                d["excl"] = True
        if self.coin(0.2):
            d["sign"] = rng.choice(["pos", "neg", "nonpos", "nonneg"])
        return d

    def size_opts(self, d, uniq=True):
        rng = self.rng
        if self.coin():
            d["minItems"] = rng.choice([0, 1, 2])
        if self.coin():
            d["maxItems"] = rng.choice([0, 1, 2, 3, 4])   # 0: a falsy bound must still be enforced
            if d.get("minItems") is not None and d["maxItems"] < d["minItems"]:
                d["maxItems"] = d["minItems"] + 1
        if uniq and self.coin():
            d["uniq"] = True
        return d

    def hashable_decl(self, depth):
        """declaration whose values are hashable (set elements, map keys)"""
        rng = self.rng
        k = rng.choice(["integer", "string", "enumCls", "float", "boolean", "enumLit", "tuple"] + (["xstring", "xstring"] if self.ext else []))
        if k == "tuple" and depth < self.max_depth:
            return {"k": "tuplePos", "items": [self.hashable_decl(depth + 1), self.hashable_decl(depth + 1)]}
        if k == "tuple":
            k = "integer"
        return self.scalar(k)

    def xstring(self):
        """an extension string field: SizedString / IPV4 / HostName / DateString / TimeString / JSONString"""
        from . import formats
        rng = self.rng
        which = rng.choice(["sized", "sized", "ipv4", "hostname", "date", "time", "json"])
        d = {"k": "string"}
        if which == "sized":
            d["maxlen"] = rng.choice([0, 1, 2, 3, 5])
            if self.coin():
                d["minLength"] = rng.choice([0, 1, 2])
            if self.coin():
                d["maxLength"] = rng.choice([1, 2, 3, 4, 6])
            if self.coin(0.2):
                d["pattern"] = rng.choice(PATTERNS)
            return d
        d["fmt"] = {"date": "date:" + rng.choice(formats.DATE_FORMATS)}.get(which, which)
        if which != "time" and self.coin(0.25):
            # the String keywords of the same field keep working next to the format
            if self.coin(0.5):
                d["minLength"] = rng.choice([1, 2, 7, 8])
            else:
                d["maxLength"] = rng.choice([2, 7, 8, 10, 11, 15])
        return d

    def scalar(self, k):
        rng = self.rng
        if k == "xstring":
            return self.xstring()
        if k in ("integer", "number", "float"):
            return self.num_opts(k)
        if k == "string":
            d = {"k": "string"}
            if self.coin():
                d["minLength"] = rng.choice([0, 1, 2, 3])
            if self.coin():
                d["maxLength"] = rng.choice([0, 1, 2, 3, 5])
                if d.get("minLength") is not None and d["maxLength"] < d["minLength"]:
                    d["maxLength"] = d["minLength"]
            if self.coin():
                d["pattern"] = rng.choice(PATTERNS)
            return d
        if k == "boolean":
            return {"k": "boolean"}
        if k == "enumLit":
            pool = [1, 2, 3, "a", "x1", "abc", fl(Fraction(3, 2)), True, None]
            n = rng.randint(1, 4)
            vals = rng.sample(pool, n)
            # keep == -distinct values only (1 == True)
            out = []
            for v in vals:
                if not any(wire_eq(v, w) for w in out):
                    out.append(v)
            if out == [None]:
                out = [1]
            return {"k": "enumLit", "values": out}
        if k == "enumCls":
            cls = rng.choice(sorted(ENUMS))
            names = ENUMS[cls]
            if self.coin(0.3):
                names = sorted(rng.sample(names, rng.randint(1, len(names) - 1)), key=ENUMS[cls].index)
            return {"k": "enumCls", "cls": cls, "names": list(names)}
        if k == "noneF":
            return {"k": "noneF"}
        if k == "anything":
            return {"k": "anything"}
        raise ValueError(k)

    def decl(self, depth=0):
        rng = self.rng
        kinds = list(SCALAR_KINDS)
        if self.ext:
            kinds += ["xstring"] * 3
        if depth < self.max_depth:
            kinds += CONTAINER_KINDS * 1
        if self.allow:
            kinds = [k for k in kinds if k in self.allow] or ["integer"]
        k = rng.choice(kinds)
        if k in SCALAR_KINDS or k == "xstring":
            return self.scalar(k)
        sub = lambda: self.decl(depth + 1)
        if k == "seqAny":
            d = self.size_opts({"k": "seqAny"})
            if self.coin(0.3):
                d["seq"] = "deque"
            return d
        if k == "seqOf":
            d = self.size_opts({"k": "seqOf", "item": sub()})
            if self.coin(0.3):
                d["seq"] = "deque"
            return d
        if k == "seqPos":
            n = rng.randint(1, 3)
            d = {"k": "seqPos", "items": [sub() for _ in range(n)]}
            if self.coin(0.5):
                d["addl"] = False
            if self.coin(0.3):
                d["seq"] = "deque"
            if self.coin(0.3):
                self.size_opts(d)
            return d
        if k == "setAny":
            d = self.size_opts({"k": "setAny"}, uniq=False)
            if self.coin(0.3):
                d["imm"] = True
            return d
        if k == "setOf":
            d = self.size_opts({"k": "setOf", "item": self.hashable_decl(depth + 1)}, uniq=False)
            if self.coin(0.3):
                d["imm"] = True
            return d
        if k == "tupleOf":
            d = {"k": "tupleOf", "item": sub()}
            if self.coin():
                d["uniq"] = True
            return d
        if k == "tuplePos":
            d = {"k": "tuplePos", "items": [sub() for _ in range(rng.randint(2, 3))]}
            if self.coin():
                d["uniq"] = True
            return d
        if k == "mapAny":
            return self.size_opts({"k": "mapAny"}, uniq=False)
        if k == "mapOf":
            return self.size_opts({"k": "mapOf", "key": self.hashable_decl(depth + 1), "val": sub()}, uniq=False)
        if k in ("struct", "inline"):
            d = self.class_decl(depth + 1, inline=(k == "inline"))
            return d
        if k in ("anyOf", "oneOf", "allOf", "notF"):
            n = rng.randint(1, 3)
            return {"k": k, "fields": [sub() for _ in range(n)]}
        raise ValueError(k)

    def class_decl(self, depth=0, inline=False, n_fields=None, immutable=False):
        rng = self.rng
        n = n_fields if n_fields is not None else rng.randint(1, 3)
        names = rng.sample(["a", "b", "c", "d", "e1", "f_2"], n)
        fields = [[nm, self.decl(depth)] for nm in names]
        required = [nm for nm in names if self.coin(0.6)]
        d = {"k": "struct", "name": self.fresh("Inl" if inline else "Cls"), "required": sorted(required),
             "addl": not self.coin(0.5), "fields": fields}
        if self.coin(0.25):
            d["ignoreNone"] = True
        if inline:
            d["inline"] = True
        if immutable:
            d["immutable"] = True
        return d


def wire_eq(a, b):
    """rough Python == on wire scalars (for generator de-duplication only)"""
    na, nb = _numlike(a), _numlike(b)
    if na is not None and nb is not None:
        return na == nb
    return type(a) == type(b) and a == b


def _numlike(v):
    if isinstance(v, bool):
        return Fraction(int(v))
    return num_of(v)


# ------------------------------------------------------------------ values

class ValGen:
    """values for a declaration: valid-by-construction, boundary neighbours, type confusion"""

    def __init__(self, rng):
        self.rng = rng
        self.inst_counter = 0

    # ---- steering predicates (not oracles)
    def guess_num_ok(self, d, x):
        if d.get("mult") is not None and x % d["mult"] != 0:
            return False
        if d.get("min") is not None and x < Fraction(*d["min"]):
            return False
        if d.get("max") is not None:
            hi = Fraction(*d["max"])
            if x > hi or (d.get("excl") and x == hi):
                return False
        s = d.get("sign", "any")
        return {"any": True, "pos": x > 0, "neg": x < 0, "nonpos": x <= 0, "nonneg": x >= 0}[s]

    def num_candidates(self, d):
        c = set(Fraction(i) for i in INTS) | set(FLOATS)
        for key in ("min", "max"):
            if d.get(key) is not None:
                b = Fraction(*d[key])
                for delta in (-1, Fraction(-1, 2), 0, Fraction(1, 2), 1):
                    c.add(b + delta)
                fb = float(b)
                import math
                c.add(Fraction(math.nextafter(fb, math.inf)))
                c.add(Fraction(math.nextafter(fb, -math.inf)))
        if d.get("mult") is not None:
            m = d["mult"]
            base = [Fraction(0)] + [Fraction(*d[k]) for k in ("min", "max") if d.get(k) is not None]
            for b in base:
                q = (b // m) * m
                for j in (-1, 0, 1, 2):
                    c.add(q + j * m)
        return sorted(c)

    def wire_num(self, kind, x, prefer_float=False):
        x = Fraction(x)
        if kind == "integer":
            return int(x) if x.denominator == 1 else None
        if kind == "float" and not prefer_float and x.denominator == 1 and abs(x) < 2 ** 53 and self.rng.random() < 0.4:
            return int(x)
        if kind == "number" and x.denominator == 1 and self.rng.random() < 0.6:
            return int(x)
        if float(x) != x:
            return None
        return fl(x)

    def valid(self, d, depth=0):
        """a value intended to be valid for d (None = could not build one)"""
        rng = self.rng
        k = d["k"]
        if k in ("integer", "number", "float"):
            cands = [x for x in self.num_candidates(d) if self.guess_num_ok(d, x)]
            rng.shuffle(cands)
            for x in cands:
                w = self.wire_num(k, x)
                if w is not None:
                    return w
            return NOVALUE
        if k == "string" and d.get("fmt") is not None:
            from . import formats
            pool = [s for s in formats.pool(d["fmt"], "valid") if self.guess_str_ok(d, s)]
            return rng.choice(pool) if pool else NOVALUE
        if k == "string":
            pool = [s for s in STRINGS + ["ac", "abc", "xa", "bz", "abz", "xz"] if self.guess_str_ok(d, s)]
            return rng.choice(pool) if pool else NOVALUE
        if k == "boolean":
            return rng.choice([True, False, True, False, "True", "False"])
        if k == "enumLit":
            return rng.choice(d["values"])
        if k == "enumCls":
            n = rng.choice(d["names"])
            return n if rng.random() < 0.4 else {"e": [d["cls"], n]}
        if k == "noneF":
            return None
        if k == "anything":
            return rng.choice([None, 1, "s", {"l": [1, "a"]}, fl(Fraction(1, 2)), {"m": [["k", 1]]}, True])
        if k in ("seqAny", "seqOf", "seqPos"):
            tag = "q" if d.get("seq") == "deque" else "l"
            n = self.pick_len(d)
            if k == "seqPos":
                n = max(n, len(d["items"])) if d.get("addl", True) else len(d["items"])
            xs = []
            for i in range(n):
                if k == "seqAny":
                    x = rng.choice([1, 2, 3, "a", "b", None, fl(Fraction(1, 2)), i + 10])
                elif k == "seqOf":
                    x = self.valid(d["item"], depth + 1)
                else:
                    x = self.valid(d["items"][i], depth + 1) if i < len(d["items"]) else rng.choice([i + 20, "extra", None])
                if x is NOVALUE:
                    return NOVALUE
                xs.append(x)
            if d.get("uniq"):
                xs = dedup_wire(xs)
                if d.get("minItems") is not None and len(xs) < d["minItems"]:
                    return NOVALUE
                if k == "seqPos" and len(xs) < len(d["items"]):
                    return NOVALUE
            return {tag: xs}
        if k in ("setAny", "setOf"):
            n = self.pick_len(d)
            xs = []
            for i in range(n * 2):
                if len(xs) >= n:
                    break
                x = rng.choice([1, 2, 3, "a", "b", 7, 9]) if k == "setAny" else self.valid(d["item"], depth + 1)
                if x is NOVALUE:
                    return NOVALUE
                if not any(norm_key(x) == norm_key(y) for y in xs):
                    xs.append(x)
            if d.get("minItems") is not None and len(xs) < d["minItems"]:
                return NOVALUE
            return {("fs" if rng.random() < 0.3 else "s"): xs}
        if k == "tupleOf":
            n = rng.choice([0, 1, 2, 3])
            xs = [self.valid(d["item"], depth + 1) for _ in range(n)]
            if any(x is NOVALUE for x in xs):
                return NOVALUE
            if d.get("uniq"):
                xs = dedup_wire(xs)
            return {"t": xs}
        if k == "tuplePos":
            xs = [self.valid(f, depth + 1) for f in d["items"]]
            if any(x is NOVALUE for x in xs):
                return NOVALUE
            if d.get("uniq") and len(dedup_wire(xs)) != len(xs):
                return NOVALUE
            return {"t": xs}
        if k in ("mapAny", "mapOf"):
            n = self.pick_len(d)
            kvs = []
            for i in range(n * 2):
                if len(kvs) >= n:
                    break
                if k == "mapAny":
                    key, val = rng.choice(["k1", "k2", 1, 2, "z"]), rng.choice([1, "v", None, {"l": [1]}])
                else:
                    key, val = self.valid(d["key"], depth + 1), self.valid(d["val"], depth + 1)
                if key is NOVALUE or val is NOVALUE:
                    return NOVALUE
                if not any(norm_key(key) == norm_key(k2) for k2, _ in kvs):
                    kvs.append([key, val])
            if d.get("minItems") is not None and len(kvs) < d["minItems"]:
                return NOVALUE
            return {"m": kvs}
        if k == "struct":
            kw = self.valid_kw(d, depth + 1)
            if kw is NOVALUE:
                return NOVALUE
            if d.get("inline"):
                return {"m": [[n, v] for n, v in kw]}
            return {"o": [d["name"], kw]}
        if k == "anyOf":
            opts = list(d["fields"])
            rng.shuffle(opts)
            for f in opts:
                v = self.valid(f, depth + 1)
                if v is not NOVALUE:
                    return v
            return NOVALUE
        if k in ("oneOf", "allOf"):
            return self.valid(d["fields"][0], depth + 1)
        if k == "notF":
            return rng.choice([None, "zzz", 1, {"l": []}, fl(Fraction(1, 2)), True, -5])
        raise ValueError(k)

    def valid_kw(self, d, depth=0):
        """keyword arguments intended to be valid for class declaration d"""
        kw = []
        for n, f in d["fields"]:
            if n in d["required"] or self.rng.random() < 0.6:
                v = self.valid(f, depth)
                if v is NOVALUE:
                    if n in d["required"]:
                        return NOVALUE
                    continue
                kw.append([n, v])
        if d.get("addl", True) and self.rng.random() < 0.25:
            kw.append(["extra_" + str(self.rng.randint(0, 2)), self.rng.choice([1, "x", None, {"l": [1, 2]}])])
        self.rng.shuffle(kw)
        return kw

    def guess_str_ok(self, d, s):
        if d.get("minLength") is not None and len(s) < d["minLength"]:
            return False
        if d.get("maxLength") is not None and len(s) > d["maxLength"]:
            return False
        if d.get("pattern") is not None and not re.compile(d["pattern"]).match(s):
            return False
        if d.get("maxlen") is not None and len(s) > d["maxlen"]:
            return False
        if d.get("fmt") is not None:
            from . import formats
            return formats.ok(d["fmt"], s)
        return True

    def pick_len(self, d):
        lo = d.get("minItems") or 0
        hi = d.get("maxItems")
        hi = hi if hi is not None else lo + 3
        return self.rng.randint(lo, max(lo, hi))

    # ---- boundary neighbours (enumerated)
    def boundary(self, d):
        """all boundary neighbours of every bound occurring at the top of d"""
        k = d["k"]
        out = []
        if k in ("integer", "number", "float"):
            for x in self.num_candidates(d):
                for pf in (False, True):
                    w = self.wire_num(k if k != "integer" else "number", x, prefer_float=pf)
                    if w is not None and w not in out:
                        out.append(w)
                if x.denominator == 1 and int(x) not in out:
                    out.append(int(x))
            return out
        if k == "string" and d.get("fmt") is not None:
            # every near-valid string of the format (trailing newline, non-ASCII digits, out-of-range components, empty
            # labels ...), every valid one (length bounds cut through them), a few other Python types
            from . import formats
            return list(formats.pool(d["fmt"], "near")) + list(formats.pool(d["fmt"], "valid")) + [5, None, {"l": ["1.2.3.4"]}, True]
        if k == "string":
            lens = set()
            for key in ("minLength", "maxLength", "maxlen"):
                if d.get(key) is not None:
                    lens |= {max(0, d[key] - 1), d[key], d[key] + 1}
            for n in sorted(lens):
                out.append("a" * n)
                out.append(("ab" * n)[:n])
                out.append(("xz" * n)[:n])
            out += [s for s in STRINGS if s not in out][:6]
            return out
        if k in ("seqAny", "seqOf", "seqPos", "setAny", "setOf", "mapAny", "mapOf", "tupleOf", "tuplePos"):
            lens = set()
            for key in ("minItems", "maxItems"):
                if d.get(key) is not None:
                    lens |= {max(0, d[key] - 1), d[key], d[key] + 1}
            if k in ("seqPos", "tuplePos"):
                n = len(d["items"])
                lens |= {max(0, n - 1), n, n + 1}
            for n in sorted(lens):
                v = self.of_len(d, n)
                if v is not NOVALUE:
                    out.append(v)
            if d.get("uniq") and k in ("seqAny", "seqOf", "tupleOf"):
                # uniqueItems over UNHASHABLE elements that are == but spelled differently (and so have a
                # different repr / key order), next to hashable ==-equal ones of different type
                item = d.get("item", {"k": "anything"})
                tag = "t" if k == "tupleOf" else ("q" if d.get("seq") == "deque" else "l")
                groups = []
                if item["k"] in ("anything", "seqAny") or (item["k"] == "seqOf" and item["item"]["k"] in ("number", "anything", "float")):
                    groups += [[{"l": [1]}, {"l": [fl(Fraction(1))]}], [{"l": [True]}, {"l": [1]}, {"l": [2]}],
                               [{"l": [1, 2]}, {"l": [1, 2]}], [{"l": [1]}, {"l": [2]}]]
                if item["k"] in ("anything", "mapAny"):
                    groups += [[{"m": [["a", 1], ["b", 2]]}, {"m": [["b", 2], ["a", 1]]}],
                               [{"m": [["a", 1]]}, {"m": [["a", fl(Fraction(1))]]}], [{"m": [["a", 1]]}, {"m": [["a", 2]]}]]
                if item["k"] == "anything":
                    groups += [[1, fl(Fraction(1)), {"l": []}], [True, 1, {"m": []}], [0, False], [1, 2, {"l": []}]]
                for g in groups:
                    out.append({tag: g})
            if k in ("seqOf", "tupleOf") and d["item"]["k"] in ("integer", "number", "float", "boolean", "anything"):
                # ==-equal elements of DIFFERENT type next to each other (1 == 1.0 == True): each element is
                # decided on its own, whatever an equal earlier element was
                tag = "t" if k == "tupleOf" else ("q" if d.get("seq") == "deque" else "l")
                one, zero, two = fl(Fraction(1)), fl(Fraction(0)), fl(Fraction(2))
                for g in ([1, one], [one, 1], [True, 1], [1, True], [0, 3, zero], [False, True, zero], [2, two], [zero, False],
                          [1, 1, one, True]):
                    out.append({tag: g})
            return out
        if k == "enumCls":
            # every member of the class by name and by value (also the ones a restricted field
            # excludes), a member of another class, and a wrongly-cased name
            for n in ENUMS[d["cls"]]:
                out.append(n)
                out.append({"e": [d["cls"], n]})
            other = next(c for c in sorted(ENUMS) if c != d["cls"])
            out += [ENUMS[other][0], {"e": [other, ENUMS[other][0]]}, d["names"][0].lower()]
            return out
        if k == "enumLit":
            # values equal under == but of another type, and neighbours
            for v in d["values"]:
                if isinstance(v, bool):
                    out += [int(v), fl(Fraction(int(v)))]
                elif isinstance(v, int):
                    out += [fl(Fraction(v)), v + 1, str(v)]
                    if v in (0, 1):
                        out.append(bool(v))
                elif isinstance(v, str):
                    out += [v + "x", v.upper(), v[:-1]]
            return [x for i, x in enumerate(out) if x not in out[:i]]
        if k == "boolean":
            return [True, False, 0, 1, "True", "False", "true", fl(Fraction(1)), fl(Fraction(0))]
        if k == "anyOf":
            for f in d["fields"]:
                out += self.boundary(f)[:4]
            return out
        return out

    def deep_corrupt(self, d, v, depth=0):
        """replace ONE position inside v - walked along declaration d - by a boundary neighbour of the
        declaration at that position (NOVALUE when there is nothing to replace)"""
        rng = self.rng
        k = d["k"]

        def leaf():
            cands = self.boundary(d)
            return rng.choice(cands) if cands else NOVALUE

        if isinstance(v, dict) and depth < 6 and rng.random() < 0.85:
            for tag in ("l", "q", "t", "s", "fs"):
                if tag in v and v[tag]:
                    xs = list(v[tag])
                    i = rng.randrange(len(xs))
                    if k in ("seqOf", "setOf", "tupleOf"):
                        sub = d["item"]
                    elif k in ("seqPos", "tuplePos") and i < len(d["items"]):
                        sub = d["items"][i]
                    else:
                        return leaf()
                    x = self.deep_corrupt(sub, xs[i], depth + 1)
                    if x is NOVALUE:
                        return leaf()
                    xs[i] = x
                    return {tag: xs}
            if "m" in v and v["m"] and k == "mapOf":
                kvs = [list(kv) for kv in v["m"]]
                i = rng.randrange(len(kvs))
                x = self.deep_corrupt(d["val"], kvs[i][1], depth + 1)
                if x is NOVALUE:
                    return leaf()
                kvs[i][1] = x
                return {"m": kvs}
            if k == "struct" and (("o" in v and v["o"][1]) or ("m" in v and v["m"])):
                kw = [list(kv) for kv in (v["o"][1] if "o" in v else v["m"])]
                fields = dict((n, f) for n, f in d["fields"])
                idx = [i for i, kv in enumerate(kw) if kv[0] in fields]
                if not idx:
                    return leaf()
                i = rng.choice(idx)
                x = self.deep_corrupt(fields[kw[i][0]], kw[i][1], depth + 1)
                if x is NOVALUE:
                    return leaf()
                kw[i][1] = x
                return {"o": [v["o"][0], kw]} if "o" in v else {"m": kw}
        if k in ("anyOf", "oneOf", "allOf") and d.get("fields"):
            sub = rng.choice(d["fields"])
            cands = self.boundary(sub)
            return rng.choice(cands) if cands else NOVALUE
        return leaf()

    def of_len(self, d, n):
        """a value of exactly n elements whose elements are intended to be valid"""
        k = d["k"]
        rng = self.rng
        if k in ("seqAny", "seqOf", "seqPos"):
            tag = "q" if d.get("seq") == "deque" else "l"
            xs = []
            for i in range(n):
                if k == "seqAny":
                    x = i
                elif k == "seqOf":
                    x = self.distinct_valid(d["item"], xs)
                else:
                    x = self.distinct_valid(d["items"][i], xs) if i < len(d["items"]) else 100 + i
                if x is NOVALUE:
                    return NOVALUE
                xs.append(x)
            return {tag: xs}
        if k in ("tupleOf", "tuplePos"):
            xs = []
            for i in range(n):
                f = d["item"] if k == "tupleOf" else (d["items"][i] if i < len(d["items"]) else {"k": "anything"})
                x = self.distinct_valid(f, xs)
                if x is NOVALUE:
                    return NOVALUE
                xs.append(x)
            return {"t": xs}
        if k in ("setAny", "setOf"):
            xs = []
            for i in range(n):
                x = i if k == "setAny" else self.distinct_valid(d["item"], xs)
                if x is NOVALUE or any(norm_key(x) == norm_key(y) for y in xs):
                    return NOVALUE
                xs.append(x)
            return {"s": xs}
        if k in ("mapAny", "mapOf"):
            kvs = []
            for i in range(n):
                if k == "mapAny":
                    key, val = f"k{i}", i
                else:
                    key = self.distinct_valid(d["key"], [a for a, _ in kvs])
                    val = self.valid(d["val"])
                if key is NOVALUE or val is NOVALUE or any(norm_key(key) == norm_key(a) for a, _ in kvs):
                    return NOVALUE
                kvs.append([key, val])
            return {"m": kvs}
        return NOVALUE

    def distinct_valid(self, f, seen):
        for _ in range(8):
            x = self.valid(f)
            if x is NOVALUE:
                return NOVALUE
            if not any(norm_key(x) == norm_key(y) for y in seen):
                return x
        return x

    # ---- type confusion: one value of every Python type tag
    def confusion(self):
        return [None, True, False, 0, 1, -3, fl(Fraction(0)), fl(Fraction(1)), fl(Fraction(5, 2)),
                {"d": [1, 1]}, {"d": [5, 2]}, "", "a", "True", "1",
                {"l": []}, {"l": [1, 2]}, {"t": []}, {"t": [1, "a"]}, {"s": []}, {"s": [1, 2]}, {"fs": [1]},
                {"m": []}, {"m": [["a", 1]]}, {"q": []}, {"q": [1]}, {"e": ["Color", "RED"]},
                {"x": "obj"}]

    # ---- single-point corruption of a value
    def corrupt(self, v, depth=0):
        rng = self.rng
        if isinstance(v, dict):
            for tag in ("l", "t", "q", "s", "fs"):
                if tag in v and v[tag] and rng.random() < 0.7:
                    xs = list(v[tag])
                    i = rng.randrange(len(xs))
                    xs[i] = self.corrupt(xs[i], depth + 1)
                    return {tag: xs}
            if "m" in v and v["m"] and rng.random() < 0.7:
                kvs = [list(kv) for kv in v["m"]]
                i = rng.randrange(len(kvs))
                j = rng.randrange(2)
                kvs[i][j] = self.corrupt(kvs[i][j], depth + 1)
                if j == 0 and isinstance(kvs[i][0], dict) and not ("f" in kvs[i][0] or "e" in kvs[i][0] or "t" in kvs[i][0] or "fs" in kvs[i][0]):
                    kvs[i][0] = "corrupt-key"
                return {"m": kvs}
        return rng.choice([x for x in self.confusion() if x != v])


class _NoValue:
    def __repr__(self):
        return "NOVALUE"


NOVALUE = _NoValue()


def norm_key(w):
    """key under which Python would consider two wire scalars equal (for generator de-dup)"""
    n = _numlike(w)
    if n is not None:
        return ("num", n)
    return ("other", json.dumps(w, sort_keys=True))


def dedup_wire(xs):
    out = []
    for x in xs:
        if not any(norm_key(x) == norm_key(y) for y in out):
            out.append(x)
    return out


# ------------------------------------------------------------------ oracle tables

def collect_strings(v, acc):
    if isinstance(v, str):
        acc.add(v)
    elif isinstance(v, list):
        for x in v:
            collect_strings(x, acc)
    elif isinstance(v, dict):
        for x in v.values():
            collect_strings(x, acc)
    return acc


def collect_patterns(d, acc):
    if isinstance(d, dict):
        if d.get("k") == "string" and d.get("pattern") is not None:
            acc.add(d["pattern"])
        if d.get("k") == "string" and d.get("fmt") is not None:
            from . import formats
            acc.add(formats.token(d["fmt"]))
        for x in d.values():
            collect_patterns(x, acc)
    elif isinstance(d, list):
        for x in d:
            collect_patterns(x, acc)
    return acc


def re_table(decl, *values):
    pats = collect_patterns(decl, set())
    if not pats:
        return []
    strs = set()
    for v in values:
        collect_strings(v, strs)
    collect_strings(decl, strs)  # defaults, enum literals
    from . import formats
    return [[p, s, (formats.ok(formats.fmt_of_token(p), s) if formats.is_token(p) else re.compile(p).match(s) is not None)]
            for p in sorted(pats) for s in sorted(strs)]
