"""
Alias probe for immutable instances (C04, C19): obtain objects through every accessor of a field
value, mutate them through every mutator discoverable by introspection of their runtime types, and
see whether the instance's observable state (dump, ==, hash, str, serialization) changed.
"""
import collections
import copy

from typedpy import Structure, serialize

from . import dump

SET_MUTATORS = None


def native_mutators_of(obj):
    """(mutator name, canned argument tuples) for the runtime type of obj"""
    from extract import wrappers
    if isinstance(obj, collections.deque):
        kind = "deque"
    elif isinstance(obj, list):
        kind = "list"
    elif isinstance(obj, dict):
        kind = "dict"
    elif isinstance(obj, set):
        return [("add", [("__leak__",)]), ("clear", [()]), ("discard", [(next(iter(obj), None),)]),
                ("pop", [()]), ("update", [({"__leak__"},)]), ("__ior__", [({"__leak__"},)]),
                ("difference_update", [(set(obj),)]), ("remove", [(next(iter(obj), None),)])]
    else:
        return []
    if kind not in _NATIVE_MUTATORS:
        # the mutators of Python's own list / deque / dict: probed once per process (the probe is costly)
        _NATIVE_MUTATORS[kind] = list(wrappers.native_mutators(kind))
    return [(m, MUT_ARGS[kind].get(m, [()])) for m in _NATIVE_MUTATORS[kind]]


_NATIVE_MUTATORS = {}


MUT_ARGS = {
    "list": {"__setitem__": [(0, "__leak__")], "__delitem__": [(0,)], "append": [("__leak__",)],
             "extend": [(["__leak__"],)], "insert": [(0, "__leak__")], "remove": [None], "pop": [()],
             "clear": [()], "sort": [()], "reverse": [()], "__iadd__": [(["__leak__"],)], "__imul__": [(2,)]},
    "deque": {"__setitem__": [(0, "__leak__")], "__delitem__": [(0,)], "append": [("__leak__",)],
              "appendleft": [("__leak__",)], "extend": [(["__leak__"],)], "extendleft": [(["__leak__"],)],
              "insert": [(0, "__leak__")], "remove": [None], "pop": [()], "popleft": [()], "clear": [()],
              "reverse": [()], "rotate": [(1,)], "__iadd__": [(["__leak__"],)], "__imul__": [(2,)]},
    "dict": {"__setitem__": [("__leak__", 1)], "__delitem__": [None], "update": [({"__leak__": 1},)],
             "pop": [None], "popitem": [()], "setdefault": [("__leak__", 1)], "clear": [()],
             "__ior__": [({"__leak__": 1},)]},
}


def fingerprint(x, ctx):
    try:
        ser = repr(serialize(x))
    except Exception as e:
        ser = "serialize-raises:" + type(e).__name__
    try:
        h = hash(x)
    except Exception as e:
        h = "hash-raises:" + type(e).__name__
    return (repr(dump.canon(dump.dump_value(x, ctx))), h, str(x), ser)


def accessors_of(val):
    """(accessor label, thunk returning an iterable of obtained objects)"""
    acc = [("read", lambda: [val]), ("copy.copy", lambda: [copy.copy(val)])]
    if isinstance(val, (list, collections.deque)):
        acc += [
            ("__getitem__", lambda: [val[i] for i in range(len(val))]),
            ("iter", lambda: [e for e in val]),
            ("list()", lambda: list(val)),
            ("copy()", lambda: [val.copy()] + list(val.copy())),
            ("reversed", lambda: list(reversed(val))),
            ("__add__", lambda: list(val + (collections.deque() if isinstance(val, collections.deque) else []))),
            ("__rmul__", lambda: list(1 * val)),
            ("__mul__", lambda: list(val * 1)),
            ("copy.copy", lambda: list(copy.copy(val))),
        ]
        if isinstance(val, list):
            acc.append(("slice", lambda: [val[:]] + list(val[:])))
    elif isinstance(val, dict):
        acc += [
            ("__getitem__", lambda: [val[k] for k in list(val)]),
            ("get", lambda: [val.get(k) for k in list(val)]),
            ("values()", lambda: list(val.values())),
            ("items()", lambda: [v for _, v in val.items()]),
            ("copy()", lambda: [val.copy()] + list(val.copy().values())),
            ("dict()", lambda: list(dict(val).values())),
            ("__or__", lambda: list((val | {}).values())),
            ("__ror__", lambda: list(({} | val).values())),
            ("keys", lambda: list(val)),
            ("keys()", lambda: list(val.keys())),
            ("items()-keys", lambda: [k for k, _ in val.items()]),
            ("reversed", lambda: list(reversed(val))),
        ]
    elif isinstance(val, (set, frozenset, tuple)):
        acc += [("iter", lambda: list(val))]
    elif isinstance(val, Structure):
        acc += [("attrs", lambda: [getattr(val, k) for k in list(val.__dict__) if k not in dump.INTERNAL])]
    return acc


def mutation_attempts(obj):
    """callables that try to mutate obj in place (each may raise)"""
    out = []
    if isinstance(obj, Structure):
        for k in [k for k in list(obj.__dict__) if k not in dump.INTERNAL]:
            out.append((f"Structure.setattr", lambda k=k: setattr(obj, k, "__leak__")))
            out.append((f"Structure.delitem", lambda k=k: obj.__delitem__(k)))
        out.append(("Structure.setattr-new", lambda: setattr(obj, "zz_leak", 1)))
        return out
    base = ("deque" if isinstance(obj, collections.deque) else "list" if isinstance(obj, list)
            else "dict" if isinstance(obj, dict) else "set" if isinstance(obj, set) else None)
    if base is None:
        return out
    typed = type(obj).__name__ in ("_ListStruct", "_DictStruct", "_DequeStruct")
    label = ("wrapper-" if typed else "plain-") + base
    for m, argsets in native_mutators_of(obj):
        for args in argsets:
            def attempt(m=m, args=args):
                a = args
                if a is None:    # needs an existing element / key
                    if isinstance(obj, dict):
                        a = (next(iter(obj)),)
                    else:
                        a = (next(iter(obj)),)
                return getattr(obj, m)(*a)
            out.append((f"{label}.{m}", attempt))
    return out


def reachable_mutables(obj, path="arg", depth=0, seen=None):
    """every mutable object (list, dict, set, deque, Structure) reachable from obj through lists, tuples, dicts,
    sets, frozensets, deques and Structure attributes, with the access path"""
    seen = seen if seen is not None else set()
    if id(obj) in seen or depth > 6:
        return []
    seen.add(id(obj))
    out = []
    if isinstance(obj, (list, dict, set, collections.deque, Structure)):
        out.append((path, obj))
    if isinstance(obj, Structure):
        children = [(k, v) for k, v in obj.__dict__.items() if k not in dump.INTERNAL]
    elif isinstance(obj, dict):
        children = [("val", v) for v in obj.values()]
    elif isinstance(obj, (list, tuple, set, frozenset, collections.deque)):
        children = [(type(obj).__name__ + "-elem", v) for v in obj]
    else:
        children = []
    for label, ch in children:
        out += reachable_mutables(ch, path + ">" + label, depth + 1, seen)
    return out


def probe(build, ctx, depth=2):
    """build() -> fresh immutable instance.  Yields (accessor path, mutator label, changed?, raised?)"""
    x = build()
    fp0 = fingerprint(x, ctx)
    results = []
    fields = [k for k in list(x.__dict__) if k not in dump.INTERNAL]
    for f in fields:
        n_acc = len(accessors_of(getattr(x, f)))
        for ai in range(n_acc):
            # enumerate obtained objects (paths), then mutate each on a FRESH instance
            def obtained(inst, f=f, ai=ai):
                label, thunk = accessors_of(getattr(inst, f))[ai]
                objs = []
                try:
                    level = list(thunk())
                except Exception:
                    return label, []
                for o in level:
                    objs.append((label, o))
                    if depth >= 2:
                        for label2, thunk2 in accessors_of(o)[:0] + ([("elem", lambda o=o: list(o.values()) if isinstance(o, dict) else list(o))]
                                                                  if isinstance(o, (list, dict, collections.deque, set, tuple, frozenset)) else []):
                            try:
                                for o2 in thunk2():
                                    objs.append((label + ">" + label2, o2))
                            except Exception:
                                pass
                return label, objs
            label, objs = obtained(x)
            for oi in range(len(objs)):
                n_att = len(mutation_attempts(objs[oi][1]))
                for mi in range(n_att):
                    inst = build()
                    _, objs2 = obtained(inst)
                    if oi >= len(objs2):
                        continue
                    path, o = objs2[oi]
                    atts = mutation_attempts(o)
                    if mi >= len(atts):
                        continue
                    mlabel, attempt = atts[mi]
                    raised = None
                    try:
                        attempt()
                    except Exception as e:
                        raised = type(e).__name__
                    changed = fingerprint(inst, ctx) != fp0
                    results.append({"field": f, "via": path, "mut": mlabel, "changed": changed, "raised": raised})
    return results


# ---------------------------------------------------------------------------------------------------------
# C19 additions (additive; the C04 probe above is unchanged): object-graph walking with `is`-identity,
# deep snapshots of arbitrary argument objects, abstraction of an object graph to the cells of the Lean
# heap model (Sem/Alias.lean), and the poke loop "apply every applicable native mutator to every mutable
# object reachable from X and watch a fingerprint".
# ---------------------------------------------------------------------------------------------------------
import datetime
import decimal
import enum as _enum

MUTABLE_TAGS = ("list", "dict", "set", "deque", "inst")


def node_tag(o):
    """tag of a container object in the heap abstraction; None for atoms (immutable leaves)"""
    if isinstance(o, Structure):
        return "inst"
    if isinstance(o, collections.deque):
        return "deque"
    if isinstance(o, list):
        return "list"
    if isinstance(o, dict):
        return "dict"
    if isinstance(o, set):
        return "set"
    if isinstance(o, frozenset):
        return "frozenset"
    if isinstance(o, tuple):
        return "tuple"
    return None


def children(o):
    """(key, child) pairs of a container object, keys as strings ('*' under unordered containers)"""
    if isinstance(o, Structure):
        return [(str(k), v) for k, v in o.__dict__.items() if k not in dump.INTERNAL]
    if isinstance(o, dict):
        return [(str(k), v) for k, v in o.items()]
    if isinstance(o, (set, frozenset)):
        return [("*", v) for v in o]
    if isinstance(o, (list, tuple, collections.deque)):
        return [(str(i), v) for i, v in enumerate(o)]
    return []


def object_graph(root, max_nodes=5000):
    """{id: (path, obj)} of every container object reachable from root (first path found, BFS)"""
    seen = {}
    queue = [((), root)]
    while queue and len(seen) < max_nodes:
        path, o = queue.pop(0)
        if node_tag(o) is None or id(o) in seen:
            continue
        seen[id(o)] = (path, o)
        for k, v in children(o):
            queue.append((path + (k,), v))
    return seen


def shared_nodes(source, sink, mutable_only=True):
    """paths (in `source`) of the container objects of `source` that are also reachable from `sink`"""
    gs, gk = object_graph(source), object_graph(sink)
    out = []
    for i, (path, o) in gs.items():
        if i in gk and (not mutable_only or node_tag(o) in MUTABLE_TAGS):
            out.append(list(path))
    return sorted(out)


def atom_code(v):
    """Python class of a scalar, as the heap model's atoms carry it (Sem/Alias.lean `atomFits`):
    0 None, 1 bool, 2 int, 3 float, 4 str, 5 anything else"""
    if v is None:
        return 0
    if isinstance(v, bool):
        return 1
    if isinstance(v, int):
        return 2
    if isinstance(v, float):
        return 3
    if isinstance(v, str):
        return 4
    return 5


def heap_tag(o):
    """node_tag, with typedpy's typed collection wrappers and ImmutableStructure instances told apart (what an
    immutable owner exempts from its defensive copy: Sem/Alias.lean `exemptTag`)"""
    t = node_tag(o)
    if t is None:
        return None
    name = type(o).__name__
    if name == "_ListStruct":
        return "wlist"
    if name == "_DictStruct":
        return "wdict"
    if name == "_DequeStruct":
        return "wdeque"
    if t == "inst":
        from typedpy import ImmutableStructure
        if isinstance(o, ImmutableStructure):
            return "iinst"
    return t


def heapify(root, typed=False):
    """object graph -> (cells, root item) for the Lean heap model: cells[addr] = [tag, [[key, item], ...]],
    item = 0 (atom) | {"r": addr}; typed=True: atoms carry `atom_code`, tags are `heap_tag`s"""
    order = []
    index = {}

    def visit(o):
        if node_tag(o) is None:
            return
        if id(o) in index:
            return
        index[id(o)] = len(order)
        order.append(o)
        for _, v in children(o):
            visit(v)
    visit(root)

    def item(v):
        return {"r": index[id(v)]} if id(v) in index and node_tag(v) is not None else (atom_code(v) if typed else 0)
    tag = heap_tag if typed else node_tag
    cells = [[tag(o), [[k, item(v)] for k, v in children(o)]] for o in order]
    return cells, item(root)


def deep_canon(o, _depth=0):
    """deep, type-tagged, order-normalised snapshot of an arbitrary object (arguments, mappers, schemas …)"""
    if _depth > 60:
        return "<deep>"
    if o is None or isinstance(o, (bool, int, str, bytes)):
        return [type(o).__name__, o if not isinstance(o, bytes) else o.hex()]
    if isinstance(o, float):
        return ["float", repr(o)]
    if isinstance(o, decimal.Decimal):
        return ["Decimal", str(o)]
    if isinstance(o, _enum.Enum):
        return ["enum", type(o).__name__, o.name]
    if isinstance(o, (datetime.date, datetime.time)):
        return [type(o).__name__, o.isoformat()]
    if isinstance(o, Structure):
        return ["inst", type(o).__name__,
                sorted(([k, deep_canon(v, _depth + 1)] for k, v in o.__dict__.items() if k not in dump.INTERNAL),
                       key=lambda kv: kv[0])]
    if isinstance(o, dict):
        return [type(o).__name__ if type(o) is not dict else "dict",
                sorted(([repr(deep_canon(k, _depth + 1)), deep_canon(v, _depth + 1)] for k, v in o.items()),
                       key=lambda kv: kv[0])]
    if isinstance(o, (set, frozenset)):
        return [type(o).__name__, sorted(repr(deep_canon(v, _depth + 1)) for v in o)]
    if isinstance(o, (list, tuple, collections.deque)):
        return [type(o).__name__, [deep_canon(v, _depth + 1) for v in o]]
    if isinstance(o, type):
        return ["class", o.__name__]
    if callable(o):
        return ["callable", getattr(o, "__name__", type(o).__name__)]
    d = getattr(o, "__dict__", None)
    if isinstance(d, dict):
        return ["obj", type(o).__name__, sorted(([k, deep_canon(v, _depth + 1)] for k, v in d.items()
                                                 if not k.startswith("__")), key=lambda kv: kv[0])]
    return ["opaque", type(o).__name__]


def poke_attempts(obj):
    """(label, thunk) for every native mutator applicable to obj — wrappers, plain containers, structures"""
    if isinstance(obj, Structure):
        return mutation_attempts(obj)
    if isinstance(obj, set) and not isinstance(obj, frozenset):
        out = []
        for m, argsets in native_mutators_of(obj):
            for args in argsets:
                out.append((f"plain-set.{m}", lambda m=m, args=args: getattr(obj, m)(*args)))
        return out
    return mutation_attempts(obj)


def poke_pass(visible_root, fingerprint, tried, limit=400):
    """apply every not yet tried native mutator to every mutable object reachable from `visible_root`; after
    each attempt compare `fingerprint()` with its value before.  Returns (path, mutator label) of the first
    attempt that changed it (the caller then rebuilds the situation and calls again), or None."""
    graph = object_graph(visible_root)
    fp0 = fingerprint()
    n = 0
    for _, (path, o) in list(graph.items()):
        if node_tag(o) not in MUTABLE_TAGS or (tuple(path), "*") in tried:
            continue
        for label, attempt in poke_attempts(o):
            key = (tuple(path), label)
            if key in tried:
                continue
            tried.add(key)
            n += 1
            if n > limit:
                return None
            try:
                attempt()
            except Exception:
                pass
            try:
                fp1 = fingerprint()
            except Exception as e:      # the protected object can no longer even be fingerprinted
                fp1 = "fingerprint-raises:" + type(e).__name__
            if fp1 != fp0:
                return (list(path), label)
    return None


def poke_oracle(make, max_rounds=8, limit=400):
    """make() -> (visible_root, fingerprint thunk) in a fresh situation.  Returns every (path, label) whose
    poke changed the fingerprint (one fresh situation per detected change)."""
    tried, changed = set(), []
    for _ in range(max_rounds):
        vis, fp = make()
        hit = poke_pass(vis, fp, tried, limit)
        if hit is None:
            break
        changed.append(hit)
        tried.add((tuple(hit[0]), "*"))     # one witness per object is enough
    return changed
