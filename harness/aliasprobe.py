"""
Alias probe for immutable instances (C04, C19): obtain objects through every accessor of a field
value, mutate them through every mutator discoverable by introspection of their runtime types, and
see whether the instance's observable state (dump, ==, hash, str, serialization) changed.
"""
import collections
import copy

from typedpy import Structure, serialize

from . import dump

SET_MUTATORS = None


def native_mutators_of(obj):
    """(mutator name, canned argument tuples) for the runtime type of obj"""
    from extract import wrappers
    if isinstance(obj, collections.deque):
        kind = "deque"
    elif isinstance(obj, list):
        kind = "list"
    elif isinstance(obj, dict):
        kind = "dict"
    elif isinstance(obj, set):
        return [("add", [("__leak__",)]), ("clear", [()]), ("discard", [(next(iter(obj), None),)]),
                ("pop", [()]), ("update", [({"__leak__"},)]), ("__ior__", [({"__leak__"},)]),
                ("difference_update", [(set(obj),)]), ("remove", [(next(iter(obj), None),)])]
    else:
        return []
    out = []
    for m in wrappers.native_mutators(kind):
        out.append((m, MUT_ARGS[kind].get(m, [()])))
    return out


MUT_ARGS = {
    "list": {"__setitem__": [(0, "__leak__")], "__delitem__": [(0,)], "append": [("__leak__",)],
             "extend": [(["__leak__"],)], "insert": [(0, "__leak__")], "remove": [None], "pop": [()],
             "clear": [()], "sort": [()], "reverse": [()], "__iadd__": [(["__leak__"],)], "__imul__": [(2,)]},
    "deque": {"__setitem__": [(0, "__leak__")], "__delitem__": [(0,)], "append": [("__leak__",)],
              "appendleft": [("__leak__",)], "extend": [(["__leak__"],)], "extendleft": [(["__leak__"],)],
              "insert": [(0, "__leak__")], "remove": [None], "pop": [()], "popleft": [()], "clear": [()],
              "reverse": [()], "rotate": [(1,)], "__iadd__": [(["__leak__"],)], "__imul__": [(2,)]},
    "dict": {"__setitem__": [("__leak__", 1)], "__delitem__": [None], "update": [({"__leak__": 1},)],
             "pop": [None], "popitem": [()], "setdefault": [("__leak__", 1)], "clear": [()],
             "__ior__": [({"__leak__": 1},)]},
}


def fingerprint(x, ctx):
    try:
        ser = repr(serialize(x))
    except Exception as e:
        ser = "serialize-raises:" + type(e).__name__
    try:
        h = hash(x)
    except Exception as e:
        h = "hash-raises:" + type(e).__name__
    return (repr(dump.canon(dump.dump_value(x, ctx))), h, str(x), ser)


def accessors_of(val):
    """(accessor label, thunk returning an iterable of obtained objects)"""
    acc = [("read", lambda: [val]), ("copy.copy", lambda: [copy.copy(val)])]
    if isinstance(val, (list, collections.deque)):
        acc += [
            ("__getitem__", lambda: [val[i] for i in range(len(val))]),
            ("iter", lambda: [e for e in val]),
            ("list()", lambda: list(val)),
            ("copy()", lambda: [val.copy()] + list(val.copy())),
            ("reversed", lambda: list(reversed(val))),
            ("__add__", lambda: list(val + (collections.deque() if isinstance(val, collections.deque) else []))),
            ("__rmul__", lambda: list(1 * val)),
            ("__mul__", lambda: list(val * 1)),
            ("copy.copy", lambda: list(copy.copy(val))),
        ]
        if isinstance(val, list):
            acc.append(("slice", lambda: [val[:]] + list(val[:])))
    elif isinstance(val, dict):
        acc += [
            ("__getitem__", lambda: [val[k] for k in list(val)]),
            ("get", lambda: [val.get(k) for k in list(val)]),
            ("values()", lambda: list(val.values())),
            ("items()", lambda: [v for _, v in val.items()]),
            ("copy()", lambda: [val.copy()] + list(val.copy().values())),
            ("dict()", lambda: list(dict(val).values())),
            ("__or__", lambda: list((val | {}).values())),
            ("__ror__", lambda: list(({} | val).values())),
            ("keys", lambda: list(val)),
        ]
    elif isinstance(val, (set, frozenset, tuple)):
        acc += [("iter", lambda: list(val))]
    elif isinstance(val, Structure):
        acc += [("attrs", lambda: [getattr(val, k) for k in list(val.__dict__) if k not in dump.INTERNAL])]
    return acc


def mutation_attempts(obj):
    """callables that try to mutate obj in place (each may raise)"""
    out = []
    if isinstance(obj, Structure):
        for k in [k for k in list(obj.__dict__) if k not in dump.INTERNAL]:
            out.append((f"Structure.setattr", lambda k=k: setattr(obj, k, "__leak__")))
            out.append((f"Structure.delitem", lambda k=k: obj.__delitem__(k)))
        out.append(("Structure.setattr-new", lambda: setattr(obj, "zz_leak", 1)))
        return out
    base = ("deque" if isinstance(obj, collections.deque) else "list" if isinstance(obj, list)
            else "dict" if isinstance(obj, dict) else "set" if isinstance(obj, set) else None)
    if base is None:
        return out
    typed = type(obj).__name__ in ("_ListStruct", "_DictStruct", "_DequeStruct")
    label = ("wrapper-" if typed else "plain-") + base
    for m, argsets in native_mutators_of(obj):
        for args in argsets:
            def attempt(m=m, args=args):
                a = args
                if a is None:    # needs an existing element / key
                    if isinstance(obj, dict):
                        a = (next(iter(obj)),)
                    else:
                        a = (next(iter(obj)),)
                return getattr(obj, m)(*a)
            out.append((f"{label}.{m}", attempt))
    return out


def reachable_mutables(obj, path="arg", depth=0, seen=None):
    """every mutable object (list, dict, set, deque, Structure) reachable from obj through lists, tuples, dicts,
    sets, frozensets, deques and Structure attributes, with the access path"""
    seen = seen if seen is not None else set()
    if id(obj) in seen or depth > 6:
        return []
    seen.add(id(obj))
    out = []
    if isinstance(obj, (list, dict, set, collections.deque, Structure)):
        out.append((path, obj))
    if isinstance(obj, Structure):
        children = [(k, v) for k, v in obj.__dict__.items() if k not in dump.INTERNAL]
    elif isinstance(obj, dict):
        children = [("val", v) for v in obj.values()]
    elif isinstance(obj, (list, tuple, set, frozenset, collections.deque)):
        children = [(type(obj).__name__ + "-elem", v) for v in obj]
    else:
        children = []
    for label, ch in children:
        out += reachable_mutables(ch, path + ">" + label, depth + 1, seen)
    return out


def probe(build, ctx, depth=2):
    """build() -> fresh immutable instance.  Yields (accessor path, mutator label, changed?, raised?)"""
    x = build()
    fp0 = fingerprint(x, ctx)
    results = []
    fields = [k for k in list(x.__dict__) if k not in dump.INTERNAL]
    for f in fields:
        n_acc = len(accessors_of(getattr(x, f)))
        for ai in range(n_acc):
            # enumerate obtained objects (paths), then mutate each on a FRESH instance
            def obtained(inst, f=f, ai=ai):
                label, thunk = accessors_of(getattr(inst, f))[ai]
                objs = []
                try:
                    level = list(thunk())
                except Exception:
                    return label, []
                for o in level:
                    objs.append((label, o))
                    if depth >= 2:
                        for label2, thunk2 in accessors_of(o)[:0] + ([("elem", lambda o=o: list(o.values()) if isinstance(o, dict) else list(o))]
                                                                  if isinstance(o, (list, dict, collections.deque, set, tuple, frozenset)) else []):
                            try:
                                for o2 in thunk2():
                                    objs.append((label + ">" + label2, o2))
                            except Exception:
                                pass
                return label, objs
            label, objs = obtained(x)
            for oi in range(len(objs)):
                n_att = len(mutation_attempts(objs[oi][1]))
                for mi in range(n_att):
                    inst = build()
                    _, objs2 = obtained(inst)
                    if oi >= len(objs2):
                        continue
                    path, o = objs2[oi]
                    atts = mutation_attempts(o)
                    if mi >= len(atts):
                        continue
                    mlabel, attempt = atts[mi]
                    raised = None
                    try:
                        attempt()
                    except Exception as e:
                        raised = type(e).__name__
                    changed = fingerprint(inst, ctx) != fp0
                    results.append({"field": f, "via": path, "mut": mlabel, "changed": changed, "raised": raised})
    return results
