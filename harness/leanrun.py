"""Building the Lean project, auditing axioms and running the compiled driver."""
import fcntl
import json
import os
import re
import subprocess
import time

ROOT = os.path.dirname(os.path.dirname(os.path.abspath(__file__)))
LEAN_DIR = os.path.join(ROOT, "lean")
DRIVER = os.path.join(LEAN_DIR, ".lake", "build", "bin", "driver")
ALLOWED_AXIOMS = {"propext", "Classical.choice", "Quot.sound"}
FORBIDDEN = re.compile(r"\bsorry\b|\badmit\b|^axiom |native_decide|bv_decide|implemented_by|unsafe |maxHeartbeats 0")


class LeanLock:
    def __enter__(self):
        self.f = open(os.path.join(LEAN_DIR, ".lock"), "w")
        fcntl.flock(self.f, fcntl.LOCK_EX)
        return self

    def __exit__(self, *a):
        fcntl.flock(self.f, fcntl.LOCK_UN)
        self.f.close()


def lake_build(targets, timeout=1500):
    """lake build <targets>; returns (ok, log)"""
    with LeanLock():
        t0 = time.time()
        p = subprocess.run(["lake", "build"] + list(targets), cwd=LEAN_DIR, capture_output=True, text=True,
                           timeout=timeout)
        log = p.stdout + p.stderr
        return p.returncode == 0, log, time.time() - t0


def audit_axioms(module):
    """run `#print axioms` file for a property; returns {theorem: [axioms]} and raw output"""
    path = os.path.join("TypedpyModel", "Audit", module + ".lean")
    with LeanLock():
        p = subprocess.run(["lake", "env", "lean", path], cwd=LEAN_DIR, capture_output=True, text=True, timeout=900)
    out = p.stdout + p.stderr
    res = {}
    for m in re.finditer(r"'([^']+)' depends on axioms: \[([^\]]*)\]", out):
        res[m.group(1)] = [a.strip() for a in m.group(2).replace("\n", " ").split(",") if a.strip()]
    for m in re.finditer(r"'([^']+)' does not depend on any axioms", out):
        res[m.group(1)] = []
    return res, out, p.returncode


def leanchecker(modules):
    """independent re-check of the compiled .olean files of `modules` (and everything they import) with the
    toolchain's leanchecker; returns (ok, output tail, seconds)"""
    t0 = time.time()
    with LeanLock():
        p = subprocess.run(["lake", "env", "leanchecker"] + list(modules), cwd=LEAN_DIR, capture_output=True, text=True,
                           timeout=3600)
    out = (p.stdout + p.stderr).strip()
    return p.returncode == 0, out[-1500:], time.time() - t0


def grep_forbidden(files):
    """forbidden tokens outside comments in the given Lean files"""
    hits = []
    for f in files:
        p = os.path.join(LEAN_DIR, f)
        if not os.path.exists(p):
            continue
        text = open(p, encoding="utf-8").read()
        text = re.sub(r"/-.*?-/", lambda m: "\n" * m.group(0).count("\n"), text, flags=re.S)
        for n, line in enumerate(text.split("\n"), 1):
            code = line.split("--")[0]
            if FORBIDDEN.search(code):
                hits.append(f"{f}:{n}: {line.strip()}")
    return hits


def lean_files():
    out = []
    for base, _, names in os.walk(os.path.join(LEAN_DIR, "TypedpyModel")):
        for n in names:
            if n.endswith(".lean"):
                out.append(os.path.relpath(os.path.join(base, n), LEAN_DIR))
    out.append("Driver.lean")
    return sorted(out)


def run_driver(lines, timeout=1200):
    """feed JSON case lines to the compiled driver; returns list of parsed outputs (by position)"""
    if not lines:
        return []
    data = "\n".join(json.dumps(l, ensure_ascii=False) for l in lines) + "\n"
    p = subprocess.run([DRIVER], input=data, capture_output=True, text=True, timeout=timeout)
    if p.returncode != 0:
        raise RuntimeError(f"driver exited {p.returncode}: {p.stderr[:2000]}")
    outs = [json.loads(l) for l in p.stdout.split("\n") if l.strip()]
    if len(outs) != len(lines):
        raise RuntimeError(f"driver returned {len(outs)} lines for {len(lines)} cases")
    return outs
