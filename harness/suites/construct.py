"""
Suite `construct`: (class declaration, keyword arguments[, entry-point chain]) run on the real code
and on the Lean model (`Sem/Validate.construct`, `Spec/Accepts.admitsKw/normKw`,
`Spec/Conforms.wellFormed`).  Serves C01 and C02.
"""
import copy
import enum
import json
import pickle

from typedpy import Structure
from typedpy.commons import InvalidStructureErr

from .. import dump, gen


def make_ctx():
    ctx = dump.Ctx()
    for name, members in gen.ENUMS.items():
        ctx.enums[name] = enum.Enum(name, {m: i + 1 for i, m in enumerate(members)})
    return ctx


def err_name(e):
    if isinstance(e, InvalidStructureErr):
        return "InvalidStructureErr"
    if isinstance(e, TypeError):
        return "TypeError"
    if isinstance(e, ValueError):
        return "ValueError"
    return type(e).__name__


def fix_accepts(d):
    """fill `accepts` of every non-inline struct node with its own name (flat hierarchies)"""
    if isinstance(d, list):
        for x in d:
            fix_accepts(x)
    elif isinstance(d, dict):
        if d.get("k") == "struct" and not d.get("inline"):
            d["accepts"] = [d["name"]]
        for x in d.values():
            fix_accepts(x)
    return d


# ------------------------------------------------------------------ case generation

CHAIN_OPS = ["copy", "deepcopy", "pickle", "shallow_clone", "from_other_class", "cast_to", "from_dict"]


def gen_cases(rng, tier, n_classes):
    depth = 3 if tier == "quick" else 4
    cases = []
    for ci in range(n_classes):
        dg = gen.DeclGen(rng, max_depth=rng.choice([1, 2, depth]))
        vg = gen.ValGen(rng)
        single = rng.random() < 0.6
        cls = dg.class_decl(0, n_fields=1 if single else None)
        cls["name"] = f"K{ci}"
        fix_accepts(cls)
        kws = []
        # (a) valid by construction
        for _ in range(3):
            kw = vg.valid_kw(cls)
            if kw is not gen.NOVALUE:
                kws.append(("valid", kw))
        base = next((kw for tag, kw in kws), None)
        # (b) boundary neighbours, (c) type confusion, (d) corruption — per field
        for name, fd in cls["fields"]:
            others = [kv for kv in (base or []) if kv[0] != name]
            ok_others = base is not None or len(cls["fields"]) == 1
            if not ok_others:
                continue
            for v in vg.boundary(fd):
                kws.append(("boundary", others + [[name, v]]))
            conf = vg.confusion()
            if not single:
                conf = rng.sample(conf, 6)
            for v in conf:
                kws.append(("confusion", others + [[name, v]]))
            v0 = next((kv[1] for kv in (base or []) if kv[0] == name), gen.NOVALUE)
            if v0 is not gen.NOVALUE:
                for _ in range(3):
                    kws.append(("corrupt", others + [[name, vg.corrupt(v0)]]))
            kws.append(("none", others + [[name, None]]))
            kws.append(("missing", others))
        if base is not None:
            kws.append(("extra", base + [["zz_extra", rng.choice([1, None, "s"])]]))
        for tag, kw in kws:
            case = {"suite": "construct", "cls": cls, "kw": kw, "stream": tag,
                    "re": gen.re_table(cls, kw)}
            if tag == "valid" or rng.random() < 0.15:
                case["chain"] = [rng.choice(CHAIN_OPS) for _ in range(rng.randint(1, 3 if tier == "quick" else 6))]
            cases.append(case)
    return cases


# ------------------------------------------------------------------ real code

def apply_chain(x, chain, ctx):
    applied = []
    for op in chain:
        cls = type(x)
        if op == "copy":
            x = copy.copy(x)
        elif op == "deepcopy":
            x = copy.deepcopy(x)
        elif op == "pickle":
            try:
                x = pickle.loads(pickle.dumps(x))
            except Exception:   # unpicklable field types (StructureReference, local classes): skip op
                applied.append("pickle-skipped")
                continue
        elif op == "shallow_clone":
            x = x.shallow_clone_with_overrides()
        elif op == "from_other_class":
            x = cls.from_other_class(x)
        elif op == "cast_to":
            x = x.cast_to(cls)
        elif op == "from_dict":
            x = cls.from_other_class({k: v for k, v in x.__dict__.items() if k not in dump.INTERNAL})
        applied.append(op)
    return x, applied


def run_impl(case):
    ctx = make_ctx()
    decl = case["cls"]
    try:
        cls = dump.build_class(decl, ctx)
    except Exception as e:
        return {"unbuildable": f"class: {type(e).__name__}: {e}"}
    back = dump.normalize_decl(dump.dump_class(cls, ctx))
    want = dump.normalize_decl(decl)
    if back != want:
        return {"abstraction_mismatch": {"dumped": back, "declared": want}}
    cls_actual = fix_accepts(rename_inline_decl(dump.dump_class(cls, ctx)))
    try:
        kw = {k: dump.load_value(v, ctx) for k, v in case["kw"]}
    except Exception as e:
        return {"unbuildable": f"value: {type(e).__name__}: {e}"}
    kw_actual = [[k, rename_inline(dump.dump_value(v, ctx), ctx)] for k, v in kw.items()]
    snap_before = json.dumps([[k, dump.dump_value(v, ctx)] for k, v in kw.items()], sort_keys=True)
    try:
        x = cls(**kw)
        res = {"ok": rename_inline(dump.dump_value(x, ctx), ctx)}
    except Exception as e:
        x = None
        res = {"err": err_name(e), "msg": str(e)[:300]}
    res["kw_actual"] = kw_actual
    res["cls_actual"] = cls_actual
    res["args_unchanged"] = snap_before == json.dumps([[k, dump.dump_value(v, ctx)] for k, v in kw.items()],
                                                      sort_keys=True)
    if x is not None and case.get("chain"):
        try:
            y, applied = apply_chain(x, case["chain"], ctx)
            res["chain"] = {"ok": rename_inline(dump.dump_value(y, ctx), ctx), "applied": applied}
        except Exception as e:
            res["chain"] = {"err": err_name(e), "msg": str(e)[:300]}
    return res


def rename_inline(j, ctx):
    """replace StructureReference_<n> class names by the declared inline names"""
    names = getattr(ctx, "inline_names", {})
    if isinstance(j, list):
        return [rename_inline(x, ctx) for x in j]
    if isinstance(j, dict):
        if "o" in j:
            return {"o": [names.get(j["o"][0], j["o"][0]), [[k, rename_inline(v, ctx)] for k, v in j["o"][1]]]}
        return {k: rename_inline(v, ctx) for k, v in j.items()}
    return j


def rename_inline_decl(d):
    return d


def line(case, impl):
    l = {"suite": "construct", "cls": impl.get("cls_actual", case["cls"]), "kw": impl.get("kw_actual", case["kw"]), "re": case.get("re", [])}
    final = impl.get("chain", {}).get("ok") if case.get("chain") else None
    if final is None:
        final = impl.get("ok")
    if final is not None:
        l["impl"] = final
    return l


def top_kind(case):
    fs = case["cls"]["fields"]
    return fs[0][1]["k"] if len(fs) == 1 else "class"


def tags(case, impl, model):
    out = ["stream:" + case.get("stream", "?"), "kind:" + top_kind(case)]
    if "ok" in impl:
        out.append("impl:ok")
    elif "err" in impl:
        out.append("impl:" + impl["err"])
    else:
        out.append("impl:skipped")
    return out


def nontrivial(case):
    s = json.dumps(case["cls"])
    return any(k in s for k in ('"min"', '"max"', '"mult"', "Length", "pattern", "Items", "uniq", '"item"', '"items"',
                                '"fields": [["', "enum", '"key"'))


def describe(case, impl, model):
    return {"cls": case["cls"], "kw": case["kw"], "chain": case.get("chain"),
            "impl": {k: v for k, v in impl.items() if k in ("ok", "err")},
            "model": (model or {}).get("res")}


def correspondence(case, impl, model):
    """model `construct` vs real constructor; returns disagreement message or None"""
    if "unbuildable" in impl:
        return None
    if "abstraction_mismatch" in impl:
        return "dump(build(decl)) != decl: " + json.dumps(impl["abstraction_mismatch"])[:800]
    mres = model["res"]
    if "ok" in mres:
        if "ok" not in impl:
            return f"model accepts, real code raises {impl.get('err')}: {impl.get('msg')}"
        if dump.canon(mres["ok"]) != dump.canon(impl["ok"]):
            return ("model and real code store different instances: model=" + json.dumps(dump.canon(mres["ok"]))[:400]
                    + " impl=" + json.dumps(dump.canon(impl["ok"]))[:400])
        return None
    if "ok" in impl:
        return f"model rejects ({mres['err']}), real code accepts: " + json.dumps(impl["ok"])[:300]
    if impl["err"] != mres["err"]:
        return f"exception class differs: model {mres['err']}, real code {impl['err']}: {impl.get('msg')}"
    return None
