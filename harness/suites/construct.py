"""
Suite `construct`: (class declaration, keyword arguments[, entry-point chain]) run on the real code
and on the Lean model (`Sem/Validate.construct`, `Spec/Accepts.admitsKw/normKw`,
`Spec/Conforms.wellFormed`).  Serves C01 and C02.
"""
import copy
import enum
import json
import pickle
import re

from typedpy import Structure
from typedpy.commons import InvalidStructureErr

from .. import dump, gen, formats


def make_ctx():
    ctx = dump.Ctx()
    for name, members in gen.ENUMS.items():
        ctx.enums[name] = enum.Enum(name, {m: i + 1 for i, m in enumerate(members)})
    return ctx


def err_name(e):
    if isinstance(e, InvalidStructureErr):
        return "InvalidStructureErr"
    if isinstance(e, TypeError):
        return "TypeError"
    if isinstance(e, ValueError):
        return "ValueError"
    return type(e).__name__


def fix_accepts(d):
    """fill `accepts` of every non-inline struct node with its own name (flat hierarchies)"""
    if isinstance(d, list):
        for x in d:
            fix_accepts(x)
    elif isinstance(d, dict):
        if d.get("k") == "struct" and not d.get("inline"):
            d["accepts"] = [d["name"]]
        for x in d.values():
            fix_accepts(x)
    return d


# ------------------------------------------------------------------ case generation

CHAIN_OPS = ["copy", "deepcopy", "pickle", "shallowClone", "fromOtherClass", "castTo", "fromMapping"]


def gen_chain(rng, vg, cls, n):
    ops = []
    names = [nm for nm, _ in cls["fields"]]
    for _ in range(n):
        op = rng.choice(CHAIN_OPS)
        d = {"op": op}
        if op in ("shallowClone", "fromOtherClass", "fromMapping") and rng.random() < 0.5:
            nm, fd = rng.choice(cls["fields"])
            r = rng.random()
            if r < 0.6:
                v = vg.valid(fd)
            elif r < 0.8:
                v = rng.choice(vg.confusion())
            else:
                v = None
            if v is not gen.NOVALUE:
                d["kw"] = [[nm, v]]
        if op in ("fromOtherClass", "fromMapping") and rng.random() < 0.3:
            d["ignore"] = rng.sample(names, rng.randint(1, len(names)))
        ops.append(d)
    return ops


def gen_cases(rng, tier, n_classes, ext=False, prefix="K"):
    """`ext=True`: the declaration generator also draws the extension field kinds (SizedString, the formatted strings)
    at every position a scalar can occupy; with ext=False the stream is what it always was"""
    depth = 3 if tier == "quick" else 4
    cases = []
    for ci in range(n_classes):
        dg = gen.DeclGen(rng, max_depth=rng.choice([1, 2, depth]), **({"ext": True} if ext else {}))
        vg = gen.ValGen(rng)
        single = rng.random() < 0.6
        cls = dg.class_decl(0, n_fields=1 if single else None)
        cls["name"] = f"{prefix}{ci}"
        fix_accepts(cls)
        kws = []
        # (a) valid by construction
        for _ in range(3):
            kw = vg.valid_kw(cls)
            if kw is not gen.NOVALUE:
                kws.append(("valid", kw))
        base = next((kw for tag, kw in kws), None)
        # (b) boundary neighbours, (c) type confusion, (d) corruption — per field
        for name, fd in cls["fields"]:
            others = [kv for kv in (base or []) if kv[0] != name]
            ok_others = base is not None or len(cls["fields"]) == 1
            if not ok_others:
                continue
            for v in vg.boundary(fd):
                kws.append(("boundary", others + [[name, v]]))
            conf = vg.confusion()
            if not single:
                conf = rng.sample(conf, 6)
            for v in conf:
                kws.append(("confusion", others + [[name, v]]))
            v0 = next((kv[1] for kv in (base or []) if kv[0] == name), gen.NOVALUE)
            if v0 is not gen.NOVALUE:
                for _ in range(3):
                    kws.append(("corrupt", others + [[name, vg.corrupt(v0)]]))
                for _ in range(4):
                    dv = vg.deep_corrupt(fd, v0)
                    if dv is not gen.NOVALUE:
                        kws.append(("deep", others + [[name, dv]]))
            kws.append(("none", others + [[name, None]]))
            kws.append(("missing", others))
        if base is not None:
            kws.append(("extra", base + [["zz_extra", rng.choice([1, None, "s"])]]))
        for tag, kw in kws:
            case = {"suite": "construct", "cls": cls, "kw": kw, "stream": ("ext-" + tag if ext else tag),
                    "re": None}
            if tag == "valid" or rng.random() < 0.15:
                case["chain"] = gen_chain(rng, vg, cls, rng.randint(1, 3 if tier == "quick" else 6))
            case["re"] = gen.re_table(cls, kw, case.get("chain", []))
            cases.append(case)
    return cases


XS_FIELDS = [{"k": "string", "maxlen": 3}, {"k": "string", "maxlen": 3, "maxLength": 5}, {"k": "string", "maxlen": 5, "maxLength": 2, "minLength": 1},
             {"k": "string", "maxlen": 0}, {"k": "string", "fmt": "ipv4"}, {"k": "string", "fmt": "hostname"}, {"k": "string", "fmt": "json"},
             {"k": "string", "fmt": "time"}, {"k": "string", "fmt": "date:%Y-%m-%d"}, {"k": "string", "fmt": "date:%d/%m/%y"},
             {"k": "string", "fmt": "ipv4", "maxLength": 8}, {"k": "string", "fmt": "hostname", "minLength": 3}]


def xstring_cases():
    """directed: every extension string field bare and inside every container position (Array / Deque / positional /
    Set / Tuple / Map key / Map value / AnyOf / nested class / StructureReference), given every valid and near-valid
    string of its pool - each element must be decided as the bare field decides it"""
    vg = gen.ValGen(__import__("random").Random(0))
    cases = []
    ci = 0
    for fd in XS_FIELDS:
        strings = [v for v in vg.boundary(fd) if isinstance(v, str)]
        good = next((s for s in strings if vg.guess_str_ok(fd, s)), None)
        wraps = [("bare", fd, lambda s: s),
                 ("l", {"k": "seqOf", "item": fd}, lambda s: {"l": [good, s] if good is not None else [s]}),
                 ("q", {"k": "seqOf", "item": fd, "seq": "deque"}, lambda s: {"q": [s]}),
                 ("pos", {"k": "seqPos", "items": [{"k": "integer"}, fd]}, lambda s: {"l": [1, s]}),
                 ("s", {"k": "setOf", "item": fd}, lambda s: {"s": [s]}),
                 ("t", {"k": "tupleOf", "item": fd}, lambda s: {"t": [s]}),
                 ("t2", {"k": "tuplePos", "items": [fd, {"k": "integer"}]}, lambda s: {"t": [s, 1]}),
                 ("mk", {"k": "mapOf", "key": fd, "val": {"k": "integer"}}, lambda s: {"m": [[s, 1]]}),
                 ("mv", {"k": "mapOf", "key": {"k": "string"}, "val": fd}, lambda s: {"m": [["k", s]]}),
                 ("any", {"k": "anyOf", "fields": [{"k": "integer"}, fd]}, lambda s: s),
                 ("opt-l", {"k": "seqOf", "item": {"k": "anyOf", "fields": [fd, {"k": "noneF"}]}}, lambda s: {"l": [None, s]}),
                 ("inl", {"k": "struct", "name": "Inl", "inline": True, "required": ["x"], "addl": False, "fields": [["x", fd]]},
                  lambda s: {"m": [["x", s]]}),
                 ("cls", {"k": "struct", "name": "Inner", "required": ["x"], "addl": False, "fields": [["x", fd]]},
                  lambda s: {"o": ["Inner", [["x", s]]]})]
        for wname, wfd, mk in wraps:
            cls = {"k": "struct", "name": f"XS{ci}", "required": ["a"], "addl": False, "fields": [["a", json.loads(json.dumps(wfd))]]}
            ci += 1
            fix_accepts(cls)
            for si, s in enumerate(strings):
                if wname not in ("bare", "l") and si % 3 != ci % 3 and s != good:
                    continue            # the full pool bare and as Array elements, a third of it elsewhere
                kw = [["a", mk(s)]]
                case = {"suite": "construct", "cls": cls, "kw": kw, "stream": "xstring", "re": None}
                if si % 4 == 0:
                    case["chain"] = [{"op": "shallowClone", "kw": [["a", mk(strings[(si + 1) % len(strings)])]]}, {"op": "castTo"}]
                case["re"] = gen.re_table(cls, kw, case.get("chain", []))
                cases.append(case)
    return cases


# ---- DecimalNumber: `number` declarations with "dec", at the positions the conversion layer of Sem/Decimal.lean knows

DEC_STRINGS = ["1.5", " 5 ", "1_000", "+.5", "5.", "1e3", "-0", "٣", "0.1", "-2.50", "12", "3", "0", "10", "6", "abc", "", ".", "0x10", "1,5", "e5",
               "1.5.2", "--1", "NaN", "Infinity", "-Infinity", "sNaN", "1e30", "1e-30", "0.1000000000000000055511151231257827021181583404541015625"]


def dec_positions(cls):
    """[[field, "bare" | "items" | "values"]] of the class's DecimalNumber fields; None if one sits anywhere else"""
    out = []
    for name, fd in cls["fields"]:
        if fd.get("k") == "number" and fd.get("dec"):
            out.append([name, "bare"])
        elif fd.get("k") == "seqOf" and fd["item"].get("dec"):
            out.append([name, "items"])
        elif fd.get("k") == "anyOf" and len(fd["fields"]) == 2 and fd["fields"][0].get("dec") and fd["fields"][1].get("k") == "noneF":
            out.append([name, "optional"])
        elif fd.get("k") == "mapOf" and fd["val"].get("dec") and '"dec"' not in json.dumps(fd["key"]):
            out.append([name, "values"])
        elif '"dec"' in json.dumps(fd):
            return None
    return out


def dec_parse_table(values):
    """the `Decimal(str)` oracle for every string among the values: [[s, [num, den] | None]]; second result: a string
    denotes NaN / Infinity (no finite value: the case is judged on the real code alone)"""
    import decimal
    from fractions import Fraction
    strs = set()
    for v in values:
        gen.collect_strings(v, strs)
    table, nonfinite = [], False
    for s in sorted(strs):
        try:
            d = decimal.Decimal(s)
        except decimal.InvalidOperation:
            table.append([s, None])
            continue
        if not d.is_finite():
            nonfinite = True
            table.append([s, None])
            continue
        fr = Fraction(d)
        table.append([s, [fr.numerator, fr.denominator]])
    return table, nonfinite


def _huge(j, parse_table):
    from fractions import Fraction
    lim = 10 ** 26
    if any(q is not None and abs(Fraction(q[0], q[1])) >= lim for _, q in parse_table):
        return True

    def walk(x):
        if isinstance(x, bool):
            return False
        if isinstance(x, int):
            return abs(x) >= lim
        if isinstance(x, list):
            return any(walk(y) for y in x)
        if isinstance(x, dict):
            if "f" in x or "d" in x:
                a = x.get("f") or x.get("d")
                return abs(Fraction(a[0], a[1])) >= lim
            return any(walk(y) for y in x.values())
        return False
    return walk(j)


def decimal_cases(rng, tier, n_classes):
    """classes with DecimalNumber fields (bare, Array items, Map values; every Number keyword) next to ordinary fields:
    valid numbers of every accepted input type (int, float, Decimal, bool, numeric strings in every spelling the decimal
    module takes), all boundary neighbours of every bound in each of these types, ill-formed strings, other types."""
    from fractions import Fraction
    cases = []
    for ci in range(n_classes):
        dg = gen.DeclGen(rng, max_depth=1)
        vg = gen.ValGen(rng)
        nd = dg.num_opts("number")
        nd.pop("sign", None)
        nd["dec"] = True
        pos = rng.choice(["bare", "bare", "items", "values", "optional", "qitems"])
        if pos == "bare":
            fd = nd
        elif pos == "optional":
            fd = {"k": "anyOf", "fields": [nd, {"k": "noneF"}]}
        elif pos in ("items", "qitems"):
            fd = dg.size_opts({"k": "seqOf", "item": nd})
            if pos == "qitems":
                fd["seq"] = "deque"
        else:
            fd = dg.size_opts({"k": "mapOf", "key": {"k": "string"}, "val": nd}, uniq=False)
        fields = [["d", fd]] + [[nm, dg.decl(1)] for nm in rng.sample(["a", "b"], rng.choice([0, 0, 1]))]
        rng.shuffle(fields)
        cls = {"k": "struct", "name": f"Dec{ci}", "required": sorted(nm for nm, _ in fields if rng.random() < 0.6), "addl": rng.random() < 0.5,
               "fields": fields}
        if rng.random() < 0.2:
            cls["ignoreNone"] = True
        fix_accepts(cls)
        plain = dict(nd)
        plain.pop("dec")

        def spell(x):
            """the number x (wire int / float) in another accepted input type"""
            fr = gen.num_of(x) if not isinstance(x, bool) else Fraction(int(x))
            if fr is None:
                return x
            r = rng.random()
            if r < 0.3:
                return x
            if r < 0.55:
                return {"d": [fr.numerator, fr.denominator]}
            import decimal
            with decimal.localcontext() as c:
                c.prec = 400
                dec = decimal.Decimal(fr.numerator) / decimal.Decimal(fr.denominator)
            s_ = format(dec, "f")
            return rng.choice([s_, " " + s_, s_ + " ", "+" + s_ if fr >= 0 else s_])

        def wrap(xs):
            if pos in ("bare", "optional"):
                return xs[0] if xs else None
            if pos == "items":
                return {"l": list(xs)}
            if pos == "qitems":
                return {"q": list(xs)}
            return {"m": [[f"k{i}", x] for i, x in enumerate(xs)]}

        good = vg.valid(plain)
        others = vg.valid_kw({**cls, "fields": [f for f in cls["fields"] if f[0] != "d"], "required": [r for r in cls["required"] if r != "d"], "addl": False})
        if others is gen.NOVALUE or good is gen.NOVALUE:
            continue
        leafs = [("valid", spell(vg.valid(plain))) for _ in range(3)]
        leafs += [("boundary", spell(x)) for x in vg.boundary(plain)]
        leafs += [("boundary-raw", x) for x in vg.boundary(plain)[:6]]
        leafs += [("string", s_) for s_ in DEC_STRINGS]
        leafs += [("confusion", x) for x in vg.confusion()]
        for tag, x in leafs:
            if x is gen.NOVALUE:
                continue
            xs = [x] if pos in ("bare", "optional") or rng.random() < 0.4 else [spell(good), x]
            kw = others + [["d", wrap(xs)]]
            cases.append({"suite": "construct", "cls": cls, "kw": kw, "stream": "decimal-" + tag, "re": gen.re_table(cls, kw)})
        cases.append({"suite": "construct", "cls": cls, "kw": others, "stream": "decimal-missing", "re": gen.re_table(cls, others)})
        cases.append({"suite": "construct", "cls": cls, "kw": others + [["d", None]], "stream": "decimal-none", "re": gen.re_table(cls, others)})
        if pos not in ("bare", "optional"):
            cases.append({"suite": "construct", "cls": cls, "kw": others + [["d", wrap([])]], "stream": "decimal-empty", "re": gen.re_table(cls, others)})
            cases.append({"suite": "construct", "cls": cls, "kw": others + [["d", rng.choice(vg.confusion())]], "stream": "decimal-confusion", "re": gen.re_table(cls, others)})
    # directed: NaN / signaling NaN / infinities against uniqueItems, bounds and multiplesOf (judged on the real code alone)
    for di, (fd, vals) in enumerate([
            ({"k": "seqOf", "item": {"k": "number", "dec": True}, "uniq": True}, [{"l": [1, "sNaN"]}, {"l": ["NaN", "NaN"]}, {"l": ["Infinity", "Infinity"]}]),
            ({"k": "number", "dec": True, "min": [0, 1]}, ["sNaN", "NaN", "-Infinity", "Infinity"]),
            ({"k": "number", "dec": True, "mult": 3}, ["sNaN", "NaN", "Infinity", "1e30", "3e30"])]):
        cls = {"k": "struct", "name": f"DecX{di}", "required": ["d"], "addl": False, "fields": [["d", fd]]}
        fix_accepts(cls)
        for v in vals:
            cases.append({"suite": "construct", "cls": cls, "kw": [["d", v]], "stream": "decimal-nonfinite", "re": []})
    return cases


_PROBE_CLASSES = {}


def lib_accepts(fmt, s):
    """what the BARE typedpy field of format `fmt` says about the string `s` (True / False)"""
    cls = _PROBE_CLASSES.get(fmt)
    if cls is None:
        cls = _PROBE_CLASSES[fmt] = type("FmtProbe", (Structure,), {"f": dump.build_field({"k": "string", "fmt": fmt}, dump.Ctx()), "_required": []})
    try:
        cls(f=s)
        return True
    except (TypeError, ValueError):
        return False


def fmt_deviations(table):
    """strings of the case's oracle table on which the library's bare field and the documented language differ:
    [[fmt, s, lib_accepts, [phenomenon, ...]]]"""
    out = []
    for p, s, documented in table or []:
        if formats.is_token(p):
            fmt = formats.fmt_of_token(p)
            lib = lib_accepts(fmt, s)
            if lib != documented:
                out.append([fmt, s, lib, formats.classify(fmt, s, lib)])
    return out


def deviation_findings(case, impl, prefix_accept, prefix_reject):
    """finding keys for the format deviations of a case: `<phenomenon-prefix>:<format>:<how>`"""
    fails = []
    for fmt, s, lib, flags in impl.get("fmt_dev", []):
        if (prefix_accept if lib else prefix_reject) is None:
            continue
        fam = fmt.split(":")[0]
        for fl in flags:
            key = f"{prefix_accept if lib else prefix_reject}:{fam}:{fl}"
            fails.append((key, f"the {fam} field {'accepts' if lib else 'rejects'} {s!r}, which the documented language "
                               f"{'excludes' if lib else 'includes'} ({fl})"))
    return fails


def oracle_only_findings(case, impl):
    """cases without a model line (a DecimalNumber given NaN / Infinity / a value beyond the decimal context): the
    error-class clause is still executed on the real code"""
    fails = []
    if "err" in impl and impl["err"] not in ("TypeError", "ValueError", "InvalidStructureErr"):
        kind = "decimal" if "decs" in impl else top_kind(case)
        if kind == "decimal":
            kind += (":beyond-context" if "DivisionImpossible" in impl.get("msg", "") else
                     ":snan" if "sNaN" in json.dumps(case["kw"]) else ":nan-or-infinity")
        fails.append((f"error-class:{kind}:{impl['err']}", f"rejection raised {impl['err']} (not TypeError/ValueError) for "
                      + json.dumps(case["kw"], ensure_ascii=False)[:200] + f": {impl.get('msg')}"))
    return fails


def crosstype_cases():
    """directed: homogeneous Array / Deque / Tuple (and Map values) over each scalar kind, holding ==-equal
    elements of DIFFERENT Python types (1 == 1.0 == True): every element is decided on its own"""
    from fractions import Fraction
    fl = gen.fl
    one, zero, two = fl(Fraction(1)), fl(Fraction(0)), fl(Fraction(2))
    groups = [[1, one], [one, 1], [True, 1], [1, True], [0, 3, zero], [False, True, zero], [2, two], [zero, False],
              [1, 1, one, True], ["1", 1], [1, "1"], [one, one, 1]]
    cases = []
    ci = 0
    for item in ({"k": "integer"}, {"k": "boolean"}, {"k": "number"}, {"k": "float"}, {"k": "string"}, {"k": "anything"},
                 {"k": "integer", "min": [0, 1]}, {"k": "enumLit", "values": [1, "a"]}):
        for cont in ("l", "q", "t", "mapval"):
            if cont == "mapval":
                fd = {"k": "mapOf", "key": {"k": "string"}, "val": dict(item)}
            elif cont == "t":
                fd = {"k": "tupleOf", "item": dict(item)}
            else:
                fd = {"k": "seqOf", "item": dict(item)}
                if cont == "q":
                    fd["seq"] = "deque"
            cls = {"k": "struct", "name": f"X{ci}", "required": ["a"], "addl": False, "fields": [["a", fd]]}
            ci += 1
            fix_accepts(cls)
            for g in groups:
                v = {"m": [[f"k{i}", x] for i, x in enumerate(g)]} if cont == "mapval" else {cont: list(g)}
                kw = [["a", v]]
                cases.append({"suite": "construct", "cls": cls, "kw": kw, "stream": "crosstype", "re": gen.re_table(cls, kw)})
    # uniqueItems over nested STRUCTURES that are == but print (and hash) differently: 20 vs 20.0, 1 vs True, the same
    # map entries in another order
    item = {"k": "struct", "name": "UItem", "required": [], "addl": False,
            "fields": [["value", {"k": "number"}], ["labels", {"k": "mapAny"}], ["any", {"k": "anything"}]]}
    S = lambda **kw: {"o": ["UItem", [[k, v] for k, v in kw.items()]]}
    ab, ba = {"m": [["a", 1], ["b", 2]]}, {"m": [["b", 2], ["a", 1]]}
    sgroups = [[S(value=20), S(value=fl(Fraction(20)))], [S(value=1), S(value=True)], [S(labels=ab), S(labels=ba)],
               [S(any=1), S(any=one)], [S(value=1), S(value=2)], [S(value=1), S(value=1)], [S(labels=ab), S(labels=ab)],
               [S(value=1, labels=ab), S(value=one, labels=ba), S(value=3)]]
    for cont in ("l", "q", "t"):
        fd = {"k": "tupleOf", "item": dict(item), "uniq": True} if cont == "t" else {"k": "seqOf", "item": dict(item), "uniq": True}
        if cont == "q":
            fd["seq"] = "deque"
        cls = {"k": "struct", "name": f"X{ci}", "required": ["a"], "addl": False, "fields": [["a", fd]]}
        ci += 1
        fix_accepts(cls)
        for g in sgroups:
            kw = [["a", {cont: list(g)}]]
            cases.append({"suite": "construct", "cls": cls, "kw": kw, "stream": "crosstype", "re": gen.re_table(cls, kw)})
    return cases


def hook_cases(rng, tier, n_classes):
    """classes with a __validate__ hook (raises when a listed field holds a listed value - the same predicate is the
    model's hookOk oracle): keyword arguments that establish a hooked value or not, and entry-point chains whose
    overrides try to establish one.  Every entry point that yields an instance must have run the hook."""
    from . import mutate as M
    cases = []
    for ci in range(n_classes):
        dg = gen.DeclGen(rng, max_depth=1, allow=["integer", "number", "float", "string", "boolean", "enumLit", "enumCls", "seqOf",
                                                  "tupleOf", "mapOf", "seqAny"])
        vg = gen.ValGen(rng)
        cls = dg.class_decl(0, n_fields=rng.choice([1, 2, 3]))
        cls["name"] = f"H{ci}"
        fix_accepts(cls)
        fields = [(nm, fd) for nm, fd in cls["fields"] if M.hookable(fd)]
        if not fields:
            continue
        kws = [vg.valid_kw(cls) for _ in range(3)]
        kws = [kw for kw in kws if kw is not gen.NOVALUE]
        if not kws:
            continue
        # hooked values: some taken from the arguments themselves (the constructor must refuse), some other valid values
        pool = []
        for kw in kws:
            for k, v in kw:
                if v is not None and any(k == nm for nm, _ in fields):
                    pool.append([k, v])
        for nm, fd in fields:
            v = vg.valid(fd)
            if v is not gen.NOVALUE and v is not None:
                pool.append([nm, v])
        if not pool:
            continue
        hooks = rng.sample(pool, min(len(pool), rng.randint(1, 3)))
        for kw in kws:
            chain = gen_chain(rng, vg, cls, rng.randint(1, 3 if tier == "quick" else 5))
            # overrides that try to establish a hooked value
            for op in chain:
                if op["op"] in ("shallowClone", "fromOtherClass", "fromMapping") and rng.random() < 0.6:
                    op["kw"] = [list(rng.choice(hooks))]
            case = {"suite": "construct", "cls": cls, "kw": kw, "stream": "hook", "hook": hooks, "chain": chain, "re": None}
            case["re"] = gen.re_table(cls, kw, chain, [h[1] for h in hooks])
            cases.append(case)
    return cases


def default_cases(rng, tier, n_classes, ext=False):
    """classes whose non-required fields carry DEFAULTS - valid ones, boundary neighbours of the field's
    constraints and ==-equal values of another type (a falsy default is not checked when the class is defined:
    it must be checked when it is applied) - constructed with the field left out / supplied / None, and sent
    through entry-point chains.  One possibly-invalid thing per case, so the error class is determined."""
    cases = []
    for ci in range(n_classes):
        dg = gen.DeclGen(rng, max_depth=rng.choice([1, 1, 2]), **({"ext": True, "allow": ["xstring", "integer", "string", "seqOf", "mapOf"]} if ext else {}))
        vg = gen.ValGen(rng)
        cls = dg.class_decl(0, n_fields=rng.choice([1, 2, 2, 3]))
        cls["name"] = f"{'XD' if ext else 'D'}{ci}"
        fix_accepts(cls)
        # the first field becomes the defaulted one
        name, fd = cls["fields"][0]
        if fd["k"] not in ("integer", "number", "float", "string", "boolean", "enumLit", "enumCls"):
            continue                  # scalar defaults (collection defaults are callables; a StructureReference takes none)
        cls["required"] = [r for r in cls["required"] if r != name]
        pool = [v for v in vg.boundary(fd) if v is not None and v is not gen.NOVALUE]
        falsy = [v for v in pool if v in (0, "", False) or v == {"l": []} or (isinstance(v, dict) and "f" in v and v["f"][0] == 0)]
        r = rng.random()
        if r < 0.4 and falsy:
            dv = rng.choice(falsy)
        elif r < 0.6 and pool:
            dv = rng.choice(pool)
        else:
            dv = vg.valid(fd)
        if dv is gen.NOVALUE or dv is None:
            continue
        cls["defaults"] = [[name, dv]]
        base = vg.valid_kw(cls)
        if base is gen.NOVALUE:
            continue
        others = [kv for kv in base if kv[0] != name]
        kws = [("default-applied", others)]
        v = vg.valid(fd)
        if v is not gen.NOVALUE:
            kws.append(("default-overridden", others + [[name, v]]))
        kws.append(("default-none", others + [[name, None]]))
        for tag, kw in kws:
            case = {"suite": "construct", "cls": cls, "kw": kw, "stream": tag, "re": None}
            if tag == "default-applied" or rng.random() < 0.3:
                case["chain"] = gen_chain(rng, vg, cls, rng.randint(1, 3 if tier == "quick" else 5))
            case["re"] = gen.re_table(cls, kw, case.get("chain", []))
            cases.append(case)
    return cases


def deser_chain_cases(rng, tier, n_classes):
    """entry-point chains that go through the DESERIALIZER (Sem/EntryD.lean): classes of the serializable fragment
    (where the documented JSON form is exact), an instance from the constructor, then a chain mixing copies / clones /
    from_other_class / cast_to with `Deserializer(cls).deserialize(<JSON image of other valid arguments>)` under every
    flag setting and with serialize-then-deserialize of the current instance"""
    from . import serde
    cases = []
    opts_list = [{"keepUndefined": ku, "ignoreInvalidAddl": ii} for ku in (True, False, None) for ii in (True, False)]
    for ci in range(n_classes):
        if ci % 3 == 2:
            # the extension string kinds through the Deserializer as well
            dg = gen.DeclGen(rng, max_depth=rng.choice([1, 2, 3]), allow=serde.SER_KINDS + ["xstring"], ext=True)
        else:
            dg = gen.DeclGen(rng, max_depth=rng.choice([1, 2, 3]), allow=serde.SER_KINDS)
        vg = gen.ValGen(rng)
        cls = dg.class_decl(0, n_fields=rng.choice([1, 2, 3]))
        cls["name"] = f"Z{ci}"
        fix_accepts(cls)
        if not serde.in_fragment(cls) or serde.offpath_inline(cls) or '"inline"' in json.dumps(cls):
            continue
        names = {n for n, _ in cls["fields"]}
        kws = []
        for _ in range(4):
            kw = vg.valid_kw(cls)
            if kw is not gen.NOVALUE and '"extra_' not in json.dumps(kw):
                kws.append([kv for kv in kw if kv[0] in names])
        if len(kws) < 2:
            continue
        fd = dict((n, f) for n, f in cls["fields"])
        for kw in kws[:2]:
            chain = []
            for _ in range(rng.randint(1, 3 if tier == "quick" else 5)):
                r = rng.random()
                if r < 0.45:
                    src = rng.choice(kws)
                    doc = serde.dedupe_doc({"m": [[k, serde.to_doc(fd.get(k), v)] for k, v in src if v is not None]})
                    if rng.random() < 0.4:
                        # a single-point corruption: the Deserializer must refuse it or yield a well-formed instance
                        doc = serde.dedupe_doc(serde.corrupt_doc(rng, doc))
                        if not (isinstance(doc, dict) and "m" in doc) or serde.crosstype_duplicates(doc):
                            continue
                    chain.append({"op": "deser", "doc": doc, "opts": rng.choice(opts_list)})
                elif r < 0.6:
                    chain.append({"op": "reser", "opts": rng.choice(opts_list)})
                else:
                    chain += gen_chain(rng, vg, cls, 1)
            case = {"suite": "construct", "cls": cls, "kw": kw, "stream": "deser-chain", "chain": chain, "re": None}
            case["re"] = gen.re_table(cls, kw, chain)
            cases.append(case)
    return cases


def nested_hook_cases(rng, tier, n_classes):
    """hooks of NESTED classes, tied to the model: an Outer class holds instances of a hooked Inner class bare, in an
    Array, a Map, a Tuple and behind Optional; arguments and chain overrides carry Inner instances (products of the real,
    hooked constructor); the Lean `allInst` predicate (Spec/NestedHooks.lean) is evaluated on the instance every chain
    of entry points returns (chainH_nested_hooks)"""
    cases = []
    for ci in range(n_classes):
        vg = gen.ValGen(rng)
        inner = {"k": "struct", "name": f"NIn{ci}", "required": ["lo"], "addl": rng.random() < 0.3,
                 "fields": [["lo", {"k": "integer"}], ["hi", {"k": "integer", "min": [0, 1]}], ["tag", {"k": "string"}]]}
        shapes = [["f", inner], ["items", {"k": "seqOf", "item": inner}], ["m", {"k": "mapOf", "key": {"k": "string"}, "val": inner}],
                  ["t", {"k": "tuplePos", "items": [inner, {"k": "integer"}]}], ["opt", {"k": "anyOf", "fields": [inner, {"k": "noneF"}]}],
                  ["deep", {"k": "seqOf", "item": {"k": "mapOf", "key": {"k": "string"}, "val": inner}}]]
        fields = [json.loads(json.dumps(x)) for x in rng.sample(shapes, rng.randint(1, 3))] + [["n", {"k": "integer"}]]
        cls = {"k": "struct", "name": f"NOut{ci}", "required": [fields[0][0]], "addl": False, "fields": fields}
        fix_accepts(cls)
        hooks = [[inner["name"], [["lo", rng.choice([1, 2, 3, 5])]]]]
        for _ in range(4):
            kw = vg.valid_kw(cls)
            if kw is gen.NOVALUE:
                continue
            chain = gen_chain(rng, vg, cls, rng.randint(1, 3 if tier == "quick" else 5))
            case = {"suite": "construct", "cls": cls, "kw": kw, "stream": "nested-hook", "hooksByClass": hooks, "chain": chain, "re": None}
            case["re"] = gen.re_table(cls, kw, chain)
            cases.append(case)
    return cases


def transplant_cases(rng, tier, n_classes):
    """the same type-directed cases, but every collection among the ARGUMENTS (constructor keywords and chain
    overrides, at every depth) is first stored in a field of ANOTHER instance whose declaration is as lax as can be
    (Array[Anything], Map[Anything, Anything], Deque[Anything], Set[Anything]) and read back from it: what the entry
    point receives is the library's own typed wrapper (_ListStruct / _DictStruct / _DequeStruct), validated by someone
    else's declaration.  The model sees the same content; the decision must not depend on where a value was stored."""
    out = []
    for c in gen_cases(rng, tier, n_classes, prefix="T"):
        if not _has_collection([v for _, v in c["kw"]] + [v for op in c.get("chain", []) for _, v in op.get("kw", [])]):
            continue
        c["transplant"] = True
        c["stream"] = "tp-" + c["stream"]
        out.append(c)
    return out


def _has_collection(j):
    if isinstance(j, list):
        return any(_has_collection(x) for x in j)
    if isinstance(j, dict):
        return any(k in j for k in ("l", "q", "m", "s")) or any(_has_collection(x) for x in j.values())
    return False


_LAX = {}


def _lax_class(kind):
    from typedpy import Anything, Array, Deque, Map, Set
    if kind not in _LAX:
        fld = {"l": lambda: Array[Anything], "q": lambda: Deque[Anything], "m": lambda: Map[Anything, Anything], "s": lambda: Set[Anything]}[kind]()
        _LAX[kind] = type("Lax_" + kind, (Structure,), {"f": fld, "_required": []})
    return _LAX[kind]


def transplant(v, depth=0):
    """the value as read from a laxly declared field of another instance (nested collections first)"""
    import collections
    try:
        if isinstance(v, Structure) or depth > 6:
            return v
        if isinstance(v, collections.deque):
            return _lax_class("q")(f=collections.deque(transplant(x, depth + 1) for x in v)).f
        if isinstance(v, list):
            return _lax_class("l")(f=[transplant(x, depth + 1) for x in v]).f
        if isinstance(v, tuple):
            return tuple(transplant(x, depth + 1) for x in v)
        if isinstance(v, dict):
            return _lax_class("m")(f={k: transplant(x, depth + 1) for k, x in v.items()}).f
        if isinstance(v, set):
            return _lax_class("s")(f=v).f
    except Exception:
        return v
    return v


# ------------------------------------------------------------------ real code

def preload_chain(chain, ctx, tp=False):
    """build the override values of every op up front; an op whose override cannot be built
    (generated nested instance invalid) loses its override"""
    out = []
    for op in chain:
        name = op["op"]
        try:
            kw = {k: dump.load_value(v, ctx) for k, v in op.get("kw", [])}
            if tp:
                kw = {k: transplant(v) for k, v in kw.items()}
        except Exception:
            kw = {}
        rec = {"op": name, "kw": [[k, rename_inline(dump.dump_value(v, ctx), ctx)] for k, v in kw.items()],
               "ignore": op.get("ignore", [])}
        if name in ("deser", "reser"):
            rec = {"op": name, "opts": op.get("opts", {})}
            if name == "deser":
                rec["doc"] = op["doc"]
                kw = {"__doc__": dump.load_value(op["doc"], ctx)}
        out.append((op["op"], kw, rec))
    return out


def apply_chain(x, loaded, applied):
    """apply entry points; `applied` (ops as the model must run them) is filled in place"""
    for name, kw, rec in loaded:
        cls = type(x)
        if name == "pickle":
            try:
                data = pickle.dumps(x)
            except Exception:   # unpicklable field types (StructureReference, implicit wrappers): skip
                continue
            applied.append(rec)
            x = pickle.loads(data)
            continue
        if name in ("deser", "reser"):
            from typedpy import Deserializer, Serializer
            from typedpy.structures import TypedPyDefaults
            opts = rec.get("opts", {})
            ku = opts.get("keepUndefined", True)
            addl = bool(getattr(cls, "_additional_properties", True))
            rec = dict(rec, opts={"keepUndefined": bool(ku if (ku is not None or addl) else True),
                                  "ignoreInvalidAddl": opts.get("ignoreInvalidAddl", True)})
            applied.append(rec)
            old = TypedPyDefaults.ignore_invalid_additional_properties_in_deserialization
            TypedPyDefaults.ignore_invalid_additional_properties_in_deserialization = opts.get("ignoreInvalidAddl", True)
            try:
                doc = kw["__doc__"] if name == "deser" else Serializer(x).serialize()
                x = Deserializer(cls).deserialize(doc, keep_undefined=ku)
            finally:
                TypedPyDefaults.ignore_invalid_additional_properties_in_deserialization = old
            continue
        applied.append(rec)
        if name == "copy":
            x = copy.copy(x)
        elif name == "deepcopy":
            x = copy.deepcopy(x)
        elif name == "shallowClone":
            x = x.shallow_clone_with_overrides(**kw)
        elif name == "fromOtherClass":
            x = cls.from_other_class(x, ignore_props=rec["ignore"] or None, **kw)
        elif name == "fromMapping":
            src = {k: v for k, v in x.__dict__.items() if k not in dump.INTERNAL}
            x = cls.from_other_class(src, ignore_props=rec["ignore"] or None, **kw)
        elif name == "castTo":
            x = x.cast_to(cls)
    return x


def run_impl(case):
    ctx = make_ctx()
    decl = case["cls"]
    try:
        cls = dump.build_class(decl, ctx)
    except Exception as e:
        return {"unbuildable": f"class: {type(e).__name__}: {e}"}
    back = dump.normalize_decl(dump.dump_class(cls, ctx))
    want = dump.normalize_decl(decl)
    if back != want:
        return {"abstraction_mismatch": {"dumped": back, "declared": want}}
    cls_actual = fix_accepts(rename_inline_decl(dump.dump_class(cls, ctx)))
    if case.get("hook"):
        from . import mutate as M
        M.install_hook(cls, case["hook"], ctx)
    for cname, hs in case.get("hooksByClass") or []:
        from . import mutate as M
        M.install_hook(ctx.classes[cname], hs, ctx)
    try:
        kw = {k: dump.load_value(v, ctx) for k, v in case["kw"]}
    except Exception as e:
        return {"unbuildable": f"value: {type(e).__name__}: {e}"}
    if case.get("transplant"):
        kw = {k: transplant(v) for k, v in kw.items()}
    kw_actual = [[k, rename_inline(dump.dump_value(v, ctx), ctx)] for k, v in kw.items()]
    snap_before = json.dumps([[k, dump.dump_value(v, ctx)] for k, v in kw.items()], sort_keys=True)
    try:
        x = cls(**kw)
        res = {"ok": rename_inline(dump.dump_value(x, ctx), ctx)}
    except Exception as e:
        x = None
        res = {"err": err_name(e), "msg": str(e)[:300]}
    res["kw_actual"] = kw_actual
    res["cls_actual"] = cls_actual
    dev = fmt_deviations(case.get("re"))
    if dev:
        res["fmt_dev"] = dev
    if '"dec"' in json.dumps(cls_actual):
        res["decs"] = dec_positions(cls_actual)
        res["dec_parse"], res["dec_nonfinite"] = dec_parse_table([v for _, v in kw_actual])
        if '"x": "Decimal:' in json.dumps(kw_actual) or '"x": "float:' in json.dumps(kw_actual):
            res["dec_nonfinite"] = True
        if '"mult"' in json.dumps(cls_actual) and _huge(kw_actual, res["dec_parse"]):
            # `Decimal % int` needs the integer quotient to fit the decimal context (28 digits): beyond that the model's
            # exact arithmetic is not what the decimal module does - outside the model's domain, judged on the real code alone
            res["dec_nonfinite"] = True
    res["args_unchanged"] = snap_before == json.dumps([[k, dump.dump_value(v, ctx)] for k, v in kw.items()],
                                                      sort_keys=True)
    if x is not None and case.get("chain"):
        applied = []
        loaded = preload_chain(case["chain"], ctx, tp=bool(case.get("transplant")))
        try:
            y = apply_chain(x, loaded, applied)
            res["chain"] = {"ok": rename_inline(dump.dump_value(y, ctx), ctx), "applied": applied}
        except Exception as e:
            res["chain"] = {"err": err_name(e), "msg": str(e)[:300], "applied": applied}
    return res


def rename_inline(j, ctx):
    """replace StructureReference_<n> class names by the declared inline names"""
    names = getattr(ctx, "inline_names", {})
    if isinstance(j, list):
        return [rename_inline(x, ctx) for x in j]
    if isinstance(j, dict):
        if "o" in j:
            return {"o": [names.get(j["o"][0], j["o"][0]), [[k, rename_inline(v, ctx)] for k, v in j["o"][1]]]}
        return {k: rename_inline(v, ctx) for k, v in j.items()}
    return j


def rename_inline_decl(d):
    return d


def line(case, impl):
    if impl.get("decs") is None and "decs" in impl:
        return None          # a DecimalNumber at a position the conversion layer does not know: oracle-only
    if impl.get("dec_nonfinite"):
        return None          # NaN / Infinity have no value in the model: judged on the real code alone
    l = {"suite": "construct", "cls": impl.get("cls_actual", case["cls"]), "kw": impl.get("kw_actual", case["kw"]), "re": case.get("re", [])}
    if case.get("hook"):
        l["hook"] = case["hook"]
    if case.get("hooksByClass"):
        l["hooksByClass"] = case["hooksByClass"]
    if impl.get("decs"):
        l["decs"] = impl["decs"]
        l["decParse"] = impl["dec_parse"]
    if impl.get("fmt_dev"):
        # the model answers these strings as the library does; the deviation itself is reported as a finding
        l["reOverride"] = [[formats.token(fmt), s, lib] for fmt, s, lib, _ in impl["fmt_dev"]]
    final = impl.get("chain", {}).get("ok") if case.get("chain") else None
    if final is None:
        final = impl.get("ok")
    if final is not None:
        l["impl"] = final
    if "chain" in impl:
        l["chain"] = impl["chain"]["applied"]
    return l


def top_kind(case):
    fs = case["cls"]["fields"]
    if len(fs) != 1:
        return "class"
    fd = fs[0][1]
    if fd["k"] == "string" and fd.get("fmt") is not None:
        return "string:" + fd["fmt"].split(":")[0]
    if fd["k"] == "string" and fd.get("maxlen") is not None:
        return "string:sized"
    return fd["k"]


def tags(case, impl, model):
    out = ["stream:" + case.get("stream", "?"), "kind:" + top_kind(case)]
    if "ok" in impl:
        out.append("impl:ok")
    elif "err" in impl:
        out.append("impl:" + impl["err"])
    else:
        out.append("impl:skipped")
    return out


def nontrivial(case):
    s = json.dumps(case["cls"])
    return any(k in s for k in ('"min"', '"max"', '"mult"', "Length", "pattern", "Items", "uniq", '"item"', '"items"',
                                '"fields": [["', "enum", '"key"'))


def describe(case, impl, model):
    return {"cls": case["cls"], "kw": case["kw"], "chain": case.get("chain"),
            "impl": {k: v for k, v in impl.items() if k in ("ok", "err")},
            "model": (model or {}).get("res")}


RERAISE_CRASH = re.compile(r"(\w+)\.__init__\(\) missing \d+ required positional argument")


def reraise_crash(impl):
    """the library failed while BUILDING its own exception (`e.__class__(msg)` for a class whose constructor takes other
    arguments): name of that class, else None"""
    for part in (impl, impl.get("chain") or {}):
        m = RERAISE_CRASH.search(str(part.get("msg", ""))) if "err" in part else None
        if m:
            return m.group(1)
    return None


def correspondence(case, impl, model):
    """model `construct` vs real constructor; returns disagreement message or None"""
    if "unbuildable" in impl:
        return None
    if reraise_crash(impl):
        return None      # reported by C02 as finding error-class:reraise-crash:<class> (the exception class is an accident)
    if "abstraction_mismatch" in impl:
        return "dump(build(decl)) != decl: " + json.dumps(impl["abstraction_mismatch"])[:800]
    if not model.get("wfDecl", True):
        return "dumped class declaration is not well-formed (wfDecl false)"
    table = {(p, s): b for p, s, b in case.get("re") or []}
    for p, s, b in model.get("fmtLean", []):
        if table.get((p, s)) is not b:
            return f"format oracle disagreement on {s!r}: Lean {p} says {b}, the harness's independent implementation {table.get((p, s))}"
    mres = model["res"]
    if "ok" in mres:
        if "ok" not in impl:
            return f"model accepts, real code raises {impl.get('err')}: {impl.get('msg')}"
        if dump.canon(mres["ok"]) != dump.canon(impl["ok"]):
            return ("model and real code store different instances: model=" + json.dumps(dump.canon(mres["ok"]))[:400]
                    + " impl=" + json.dumps(dump.canon(impl["ok"]))[:400])
        return None
    if "ok" in impl:
        return f"model rejects ({mres['err']}), real code accepts: " + json.dumps(impl["ok"])[:300]
    if impl["err"] != mres["err"]:
        if impl.get("decs") and impl["err"] in model.get("errs", []):
            # DecimalNumber items are converted one by one while the Array is validated; the model converts the argument
            # first - with two invalid things in one case only the set of exception classes is comparable
            return None
        if case["cls"].get("defaults") and impl["err"] in model.get("errs", []):
            # several invalid fields: the real constructor applies the defaults before the arguments, the model goes
            # field by field - which of the errors surfaces first is not part of any statement
            return None
        return f"exception class differs: model {mres['err']}, real code {impl['err']}: {impl.get('msg')}"
    return None


def loose_canon(j):
    """canonical form up to Python `==` on numbers (True == 1 == 1.0 == Decimal(1))"""
    from fractions import Fraction
    if isinstance(j, bool):
        return ["num", int(j), 1]
    if isinstance(j, int):
        return ["num", j, 1]
    if isinstance(j, list):
        return [loose_canon(x) for x in j]
    if isinstance(j, dict):
        if "f" in j or "d" in j:
            a = j.get("f") or j.get("d")
            fr = Fraction(a[0], a[1])
            return ["num", fr.numerator, fr.denominator]
        return {k: loose_canon(v) for k, v in j.items()}
    return j


def chain_correspondence(case, impl, model):
    """model `runChain` vs the real entry points"""
    if "chain" not in impl or "chainRes" not in model:
        return None
    ic, mc = impl["chain"], model["chainRes"]
    if reraise_crash(impl):
        return None
    via_deser = any(o["op"] in ("deser", "reser") for o in ic.get("applied", []))
    if "ok" in mc:
        if "ok" not in ic:
            return f"chain {ic.get('applied')}: model succeeds, real code raises {ic.get('err')}: {ic.get('msg')}"
        if via_deser:
            # deserialization treats a null like an absent key; an attribute holding None and an absent one are the same
            from . import serde
            if serde._same(mc["ok"], ic["ok"]):
                return None
        if dump.canon(mc["ok"]) != dump.canon(ic["ok"]):
            if '"anyOf"' in json.dumps(case["cls"]) and loose_canon(dump.canon(mc["ok"])) == loose_canon(dump.canon(ic["ok"])):
                # a re-validating copy of a value held through AnyOf may match an EARLIER option that converts it: the
                # copy is `==` but not identical (Props/C01.lean anyOf_restores_differently); copies promise equality
                return None
            return (f"chain {ic.get('applied')}: different instances: model=" + json.dumps(dump.canon(mc["ok"]))[:400]
                    + " impl=" + json.dumps(dump.canon(ic["ok"]))[:400])
        return None
    if "ok" in ic:
        return f"chain {ic.get('applied')}: model raises {mc['err']}, real code succeeds"
    if ic["err"] != mc["err"]:
        if ic.get("applied") and ic["applied"][-1]["op"] in ("deser", "reser"):
            return None      # which exception class the Deserializer raises is C06's statement (field order of the document)
        if case["cls"].get("defaults") and ic["err"] in model.get("chainErrs", []):
            # several invalid fields at the failing step (an invalid falsy default next to an invalid argument): the real
            # constructor applies the defaults before the arguments, the model goes field by field
            return None
        return f"chain {ic.get('applied')}: exception class differs: model {mc['err']}, real code {ic['err']}: {ic.get('msg')}"
    return None
