"""
Exactness oracle of C09: on the exact sub-fragment the generated class accepts a document
(`Deserializer(cls).deserialize`) iff an independent draft-4 validator (`jsonschema`) accepts it
against the schema.  Documents are enumerated near every bound of the schema (not sampled),
one property varied at a time around a base document the validator accepts.
"""
import json
import random

STR_POOL = ["", "a", "b", "ab", "abc", "abcd", "abcdefg", "bb", "c", "d", "1", "a1", "é", "-", "it's", "z", " ", "ac", "aab"]


def dialect_fix(s):
    """the two-rule rewrite from typedpy's dialect to draft-4 (DESIGN §6 C08)"""
    if isinstance(s, list):
        return [dialect_fix(x) for x in s]
    if not isinstance(s, dict):
        return s
    out = {}
    for k, v in s.items():
        if k == "multiplesOf":
            out["multipleOf"] = v
        elif k in ("minItems", "maxItems") and s.get("type") == "object":
            out["minProperties" if k == "minItems" else "maxProperties"] = v
        elif k == "not" and isinstance(v, list):
            out["not"] = {"anyOf": dialect_fix(v)}
        elif k == "properties":
            out[k] = {n: dialect_fix(x) for n, x in v.items()}
        elif k in ("enum", "default"):
            out[k] = v
        else:
            out[k] = dialect_fix(v)
    return out


def exact_reason(s, defs, top=True):
    """None if the schema is in the exact sub-fragment, else why not"""
    if isinstance(s, list):
        for x in s:
            r = exact_reason(x, defs, False)
            if r:
                return r
        return None
    if not isinstance(s, dict):
        return None
    if "default" in s:
        return "default"
    if "pattern" in s and not s["pattern"].startswith("^"):
        return "unanchored-pattern"
    if "enum" in s:
        # Python `in` on the values: True == 1 == 1.0, validators compare JSON values
        vals = s["enum"]
        for i, a in enumerate(vals):
            for b in vals[i + 1:]:
                if a == b and type(a) is not type(b):
                    return "enum-mixed-equal"
        if any(isinstance(v, bool) or v in (0, 1) and not isinstance(v, str) for v in vals):
            return "enum-bool-like"
        return None
    for kw in ("allOf", "anyOf", "oneOf", "not"):
        if kw in s and mentions_object(s[kw]):
            return "multi-over-object"
    if s.get("uniqueItems") and mentions_structure(s.get("items")):
        # elements become Structure instances / surplus elements stay raw dicts: `==` differs from JSON equality
        return "unique-over-object"
    if isinstance(s.get("multiplesOf"), float) or (s.get("type") == "number" and "multiplesOf" in s):
        return "float-multiplesOf"
    for k, v in s.items():
        if k == "properties":
            for x in v.values():
                r = exact_reason(x, defs, False)
                if r:
                    return r
        elif k in ("items", "additionalProperties", "allOf", "anyOf", "oneOf", "not") and isinstance(v, (dict, list)):
            r = exact_reason(v, defs, False)
            if r:
                return r
    return None


def mentions_object(x):
    """does a multi-field member mention an object / map / $ref (deserialization of structured
    options inside AllOf/AnyOf/OneOf/NotField is the subject of C06, not of the generator)"""
    if isinstance(x, list):
        return any(mentions_object(y) for y in x)
    if isinstance(x, dict):
        if "$ref" in x or "properties" in x or x.get("type") == "object":
            return True
        return any(mentions_object(v) for k, v in x.items() if k not in ("enum", "default", "properties"))
    return False


def mentions_structure(x):
    """does an item schema mention a Structure ($ref / object with properties)?  Map-like objects and arrays stay
    plain dicts / lists, for which Python `==` is JSON equality (up to True == 1)"""
    if isinstance(x, list):
        return any(mentions_structure(y) for y in x)
    if isinstance(x, dict):
        if "$ref" in x or "properties" in x:
            return True
        return any(mentions_structure(v) for k, v in x.items() if k not in ("enum", "default", "properties"))
    return False


# element pairs for uniqueItems: JSON-equal but spelled differently / JSON-different but Python-equal /
# identical / genuinely different.  (label, a, b)
NEAR_DUP = [
    ("int-float", [1, 2], [1.0, 2]),
    ("key-order", {"a": 1, "b": 2}, {"b": 2, "a": 1}),
    ("nested-int-float", [1, [2]], [1, [2.0]]),
    ("object-int-float", {"a": [1]}, {"a": [1.0]}),
    ("nested-key-order", {"k": {"a": 1, "b": 2}}, {"k": {"b": 2, "a": 1}}),
    ("array-of-objects-key-order", [{"a": 1, "b": 2}], [{"b": 2, "a": 1}]),
    ("scalar-int-float", 2, 2.0),
    ("bool-vs-int", [True], [1]),                     # different JSON values
    ("bool-vs-int", {"a": True}, {"a": 1}),            # different JSON values
    ("identical", [1, 2], [1, 2]),
    ("identical-object", {"a": 1, "b": 2}, {"a": 1, "b": 2}),
    ("different", [1, 2], [2, 1]),
    ("different-object", {"a": 1}, {"a": 2}),
]


class DocGen:
    def __init__(self, rng, defs, validator_for):
        self.rng = rng
        self.defs = defs
        self.validator_for = validator_for

    def cands(self, s, depth=0):
        r = self.rng
        if "$ref" in s:
            return self.cands(self.defs[s["$ref"][len("#/definitions/"):]], depth + 1)
        for kw in ("allOf", "anyOf", "oneOf", "not"):
            if kw in s:
                out = []
                for sub in s[kw]:
                    out += self.cands(sub, depth + 1)[:8]
                return out + ["zz", 3, None]
        if "enum" in s:
            return list(s["enum"]) + ["zz", 99, None]
        t = s.get("type", "object")
        if t in ("integer", "number"):
            xs = {0, 1, 7, -4, 30}
            for k in ("minimum", "maximum"):
                if k in s:
                    b = s[k]
                    xs |= {b - 1, b, b + 1}
                    if t == "number":
                        xs |= {b - 0.5, b + 0.5}
            m = s.get("multiplesOf")
            if m:
                xs |= {m, 2 * m, 3 * m, m + 1, -m}
            if t == "number":
                xs |= {0.5, 2.25}
            else:
                xs |= {1.5, 2.0}
            out = sorted(xs, key=lambda v: (float(v), str(type(v))))
            return out + ["x", None, True, [1]]
        if t == "string":
            return list(STR_POOL) + [5, None, ["a"]]
        if t == "boolean":
            return [True, False, "True", 1, 0, None]
        if t == "array":
            out = []
            tail = [[], "x", None, {"a": 1}]
            items = s.get("items")
            if depth > 3:
                return tail
            if items is None:
                out += [[1, "a"], [1], [1, "a", 2], [1, 1], [[1], [1]], [1, 2, 3, 4], [1, 2, 3, 4, 5], [1, "a", None]]
            elif isinstance(items, dict):
                c = self.cands(items, depth + 1)
                good = self.valid_of(items, c)
                if good:
                    g = good[0]
                    out += [[g], [g, g], [g, g, g], [g, g, g, g], [g, g, g, g, g]]
                    if len(good) > 1:
                        out += [[good[0], good[1]], [good[1], good[0], good[1]]]
                    for x in c[:6]:
                        out.append([g, x])
                for x in c[:10]:
                    out.append([x])
            else:
                goods = []
                for it in items:
                    c = self.cands(it, depth + 1)
                    good = self.valid_of(it, c)
                    goods.append((good[0] if good else None, c))
                base = [g for g, _ in goods]
                out += [base, base[:-1], base + [base[-1] if base else 1], base + ["extra", None]]
                for i, (_, c) in enumerate(goods):
                    for x in c[:6]:
                        out.append(base[:i] + [x] + base[i + 1:])
            return out + tail
        if t == "object" and "properties" not in s:
            out = [{}]
            tail = [[], "x", None, 3]
            ap = s.get("additionalProperties")
            if isinstance(ap, dict) and depth <= 3:
                c = self.cands(ap, depth + 1)
                good = self.valid_of(ap, c)
                for x in c[:8]:
                    out.append({"k": x})
                if good:
                    g = good[0]
                    out += [{"k": g}, {"k": g, "j": g}, {"k": g, "j": g, "i": g}, {"a": g, "b": g, "c": g, "d": g, "e": g}]
            else:
                out += [{"k": 1}, {"k": "a", "j": None}, {"a": 1, "b": 2, "c": 3}, {"a": 1, "b": 2, "c": 3, "d": 4, "e": 5}]
            return out + tail
        return self.obj_docs(s, depth)

    def unique_variants(self, s, depth=0):
        """(label, value) pairs exercising `uniqueItems` at or below `s` (depth <= 2 of wrapping)"""
        out = []
        if not isinstance(s, dict) or "$ref" in s or depth > 2:
            return out
        t = s.get("type", "object")
        if t == "array" and not any(k in s for k in ("allOf", "anyOf", "oneOf", "not", "enum")):
            items = s.get("items")
            if s.get("uniqueItems"):
                prefix = []
                ev = None
                ok = True
                if isinstance(items, dict):
                    ev = self.validator_for(items)
                elif isinstance(items, list):
                    if s.get("additionalItems") is False:
                        ok = False
                    for it in items:
                        good = self.valid_of(it, self.cands(it, depth + 1))
                        if not good:
                            ok = False
                            break
                        prefix.append(good[0])
                    if has_bool(prefix):
                        ok = False      # True == 1 among the prefix would mix in the bool-vs-int phenomenon
                if ok:
                    for label, a, b in NEAR_DUP:
                        if ev is None or (ev.is_valid(a) and ev.is_valid(b)):
                            out.append((label, prefix + [a, b]))
                            out.append((label, prefix + [b, 7, a] if ev is None or ev.is_valid(7) else prefix + [b, a]))
            if isinstance(items, dict):
                for label, v in self.unique_variants(items, depth + 1):
                    out.append((label, [v]))
        elif t == "object" and "properties" not in s:
            ap = s.get("additionalProperties")
            if isinstance(ap, dict):
                for label, v in self.unique_variants(ap, depth + 1):
                    out.append((label, {"k": v}))
        elif t == "object":
            inner = None
            for n, sub in s["properties"].items():
                vs = self.unique_variants(sub, depth + 1)
                if vs and inner is None:
                    docs = self.obj_docs(s, 1)
                    inner = docs[0] if docs and isinstance(docs[0], dict) else {}
                    if (short_positional(s, inner, self.defs) or has_none(inner)
                            or self.validator_for(s).is_valid(inner) is False):
                        return out      # the surrounding object already shows a known phenomenon / is not a valid base
                for label, v in vs:
                    d = dict(inner)
                    d[n] = v
                    out.append((label, d))
        return out

    def valid_of(self, s, cands):
        """validator-accepted candidates, those free of the known deviation phenomena first"""
        try:
            v = self.validator_for(s)
            good = [c for c in cands if v.is_valid(c)]
        except Exception:
            return []
        k = kind_of(s)
        clean = [c for c in good if not phenomenon(k, c).startswith("PHEN:") and not short_positional(s, c, self.defs)]
        return clean + [c for c in good if c not in clean]

    def obj_docs(self, s, depth):
        props = s.get("properties", {})
        base = {}
        per = {}
        for n, sub in props.items():
            c = self.cands(sub, depth + 1) if depth <= 3 else [None]
            per[n] = c
            good = self.valid_of(sub, c)
            if good:
                base[n] = good[0]
        out = [("base", dict(base)), ("toptype", []), ("toptype", "x"), ("toptype", None)]
        if depth == 0:
            for n in props:
                for label, v in self.unique_variants(props[n])[:26]:
                    d = dict(base)
                    d[n] = v
                    # a known phenomenon in the untouched rest of the document (e.g. a short positional array
                    # in the base) keeps its own key
                    rest = self.doc_phenomenon(props, {k: x for k, x in base.items() if k != n})
                    out.append((rest or "unique:" + label, d))
        for n in props:
            d = dict(base)
            d.pop(n, None)
            out.append(("missing:" + kind_of(props[n]), d))
            for x in per[n][:14 if depth == 0 else 5]:
                d = dict(base)
                d[n] = x
                ph = phenomenon(kind_of(props[n]), x)
                if not ph.startswith("PHEN:") and short_positional(props[n], x, self.defs):
                    ph = "PHEN:short-positional-array"
                out.append((ph, d))
        if depth == 0:
            d = dict(base)
            d["zz_extra"] = 1
            out.append(("extra", d))
            return [(k if k.startswith(("unique:", "PHEN:")) else (self.doc_phenomenon(props, d) or k), d) for k, d in out]
        return [d for _, d in out]


def _doc_phenomenon(self, props, doc):
    if not isinstance(doc, dict):
        return None
    for n, v in doc.items():
        if n in props:
            ph = phenomenon(kind_of(props[n]), v)
            if ph.startswith("PHEN:"):
                return ph
            if short_positional(props[n], v, self.defs):
                return "PHEN:short-positional-array"
    return None


DocGen.doc_phenomenon = _doc_phenomenon


def short_positional(s, x, defs, depth=0):
    """does the value contain an array shorter than the positional `items` of its schema?"""
    if depth > 8 or not isinstance(s, dict):
        return False
    if "$ref" in s:
        return short_positional(defs.get(s["$ref"][len("#/definitions/"):], {}), x, defs, depth + 1)
    for kw in ("allOf", "anyOf", "oneOf", "not"):
        if kw in s:
            return any(short_positional(sub, x, defs, depth + 1) for sub in s[kw])
    t = s.get("type", "object")
    if t == "array" and isinstance(x, list):
        items = s.get("items")
        if isinstance(items, list):
            if len(x) < len(items):
                return True
            return any(short_positional(it, y, defs, depth + 1) for it, y in zip(items, x))
        if isinstance(items, dict):
            return any(short_positional(items, y, defs, depth + 1) for y in x)
    if t == "object" and isinstance(x, dict):
        if "properties" in s:
            return any(short_positional(sub, x[n], defs, depth + 1) for n, sub in s["properties"].items() if n in x)
        ap = s.get("additionalProperties")
        if isinstance(ap, dict):
            return any(short_positional(ap, y, defs, depth + 1) for y in x.values())
    return False


def has_none(x):
    if x is None:
        return True
    if isinstance(x, list):
        return any(has_none(y) for y in x)
    if isinstance(x, dict):
        return any(has_none(y) for y in x.values())
    return False


def has_str(x, which):
    if isinstance(x, str):
        return x in which
    if isinstance(x, list):
        return any(has_str(y, which) for y in x)
    if isinstance(x, dict):
        return any(has_str(y, which) for y in x.values())
    return False


def has_bool(x):
    if isinstance(x, bool):
        return True
    if isinstance(x, list):
        return any(has_bool(y) for y in x)
    if isinstance(x, dict):
        return any(has_bool(y) for y in x.values())
    return False


def phenomenon(kind, x):
    """classify a varied value: deviations are keyed by phenomenon, then by the schema kind"""
    if has_none(x):
        return "PHEN:null"
    if has_str(x, ("True", "False")):
        return "PHEN:bool-string"
    if has_bool(x) and kind != "boolean":
        return "PHEN:bool-as-number"
    return kind


def kind_of(s):
    for kw in ("$ref", "allOf", "anyOf", "oneOf", "not", "enum"):
        if kw in s:
            return kw.strip("$")
    t = s.get("type", "object")
    if t == "object":
        return "object" if "properties" in s else "map"
    if t == "array":
        it = s.get("items")
        return "array" if it is None else ("array-of" if isinstance(it, dict) else "array-pos")
    return t


def run_docs(case, cls, g):
    import jsonschema
    from typedpy import Deserializer
    schema = case["schema"]
    defs = {n: d for n, d in case["defs"]}
    if not (schema.get("type", "object") == "object" and "properties" in schema):
        return {"skipped": "wrapped"}
    why = exact_reason(schema, defs) or next((r for r in (exact_reason(d, defs) for d in defs.values()) if r), None)
    if why:
        return {"skipped": why}
    fixed_defs = {n: dialect_fix(d) for n, d in defs.items()}

    def validator_for(s):
        full = dict(dialect_fix(s))
        full["definitions"] = fixed_defs
        return jsonschema.Draft4Validator(full)

    rng = random.Random(case.get("docseed", 0))
    gen = DocGen(rng, defs, validator_for)
    docs = gen.obj_docs(schema, 0)
    top = validator_for(schema)
    des = Deserializer(cls)
    mismatches = []
    n = 0
    seen = set()
    for kind, doc in docs[:case.get("max_docs", 110)]:
        key = json.dumps(doc, sort_keys=True, default=str)
        if key in seen:
            continue
        seen.add(key)
        n += 1
        want = top.is_valid(doc)
        try:
            des.deserialize(json.loads(json.dumps(doc)))
            got, err = True, None
        except Exception as e:
            got, err = False, f"{type(e).__name__}: {e}"[:160]
        if got != want and len(mismatches) < 6:
            if kind.startswith("unique:") and want and not got and short_positional(schema, doc, defs):
                kind = "PHEN:short-positional-array"      # the varied element is itself a too-short positional array
            mismatches.append({
                "key": ("exact:" + kind[5:] if kind.startswith("PHEN:")
                        else f"exact:{'accepts-invalid' if got else 'rejects-valid'}:{kind}" if kind.startswith("unique:")
                        else f"exact:{'accepts-invalid' if got else 'rejects-valid'}:{kind.split(':')[0]}"),
                "what": f"document {json.dumps(doc, ensure_ascii=False)[:200]}: generated class "
                        f"{'accepts' if got else 'rejects (' + str(err) + ')'}, draft-4 validator "
                        f"{'accepts' if want else 'rejects'} (varied: {kind})"})
    # field-level tie for the Lean exactness models (Spec/CodeExact.lean): one scalar property varied around a base
    # document that both sides accept, so the verdict on the document is the verdict on that property's value
    field_docs = []
    base = docs[0][1] if docs else None          # obj_docs puts the base document first

    def real_accepts(d):
        try:
            des.deserialize(json.loads(json.dumps(d)))
            return True
        except Exception:
            return False
    if isinstance(base, dict) and top.is_valid(base) and real_accepts(base):
        for pn, sub in schema.get("properties", {}).items():
            if pn not in base or not tie_scalar(sub):
                continue
            for x in gen.cands(sub, 1)[:14]:
                if x is None or isinstance(x, (list, dict)):
                    continue
                d = dict(base)
                d[pn] = x
                field_docs.append([pn, x, real_accepts(d), top.is_valid(d)])
    return {"n": n, "mismatches": mismatches, "field_docs": field_docs[:60]}


def tie_scalar(s):
    """mirror of CodeExact.exactSchema (plus: no default, no annotations needed): the scalar schemas for which the Lean
    exactness models are evaluated on this case's documents"""
    if not isinstance(s, dict) or "$ref" in s or "default" in s:
        return False
    if any(k in s for k in ("allOf", "anyOf", "oneOf", "not")):
        return False
    if "enum" in s:
        return bool(s["enum"]) and all(isinstance(v, (int, float, str)) for v in s["enum"])
    t = s.get("type", "object")
    if t == "integer":
        return s.get("multiplesOf", 1) > 0 and not (s.get("exclusiveMaximum") and "maximum" not in s)
    if t == "number":
        return "multiplesOf" not in s and not (s.get("exclusiveMaximum") and "maximum" not in s)
    if t == "string":
        return s.get("pattern", "^").startswith("^")
    return t == "boolean"
