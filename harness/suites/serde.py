"""
Suite `serde`: (class, kwargs) -> instance -> Serializer -> Deserializer round trip, and
(class, document, flags) -> Deserializer, on the real code and on Sem/Serde.lean + Sem/Deser.lean.
Mapper-free (mappers: suite `mapper`).  Serves C05, C06 (and C10 with the trusted/fast variants).
"""
import collections
import copy
import json
import random

from typedpy import Deserializer, Serializer, serialize, deserialize_structure, serialize_field
from typedpy.structures import TypedPyDefaults

from .. import dump, gen
from . import construct as C

SER_KINDS = ["integer", "number", "float", "string", "boolean", "enumCls", "enumLit", "seqOf", "seqPos", "setOf",
             "tupleOf", "tuplePos", "mapOf", "struct", "inline", "anyOf", "noneF"]
LOSSY_KINDS = ["anything", "seqAny", "setAny", "mapAny", "oneOf", "allOf", "notF"]


# ------------------------------------------------------------------ fragment predicates (steering + scope)

def json_type(d):
    """JSON type tag(s) a declaration's serialized form can have"""
    k = d["k"]
    if k in ("integer",):
        return {"int"}
    if k in ("number", "float"):
        return {"int", "float"}
    if k == "string":
        return {"str"}
    if k == "boolean":
        return {"bool"}
    if k == "enumCls":
        return {"str"}
    if k == "enumLit":
        out = set()
        for v in d["values"]:
            out.add("null" if v is None else "bool" if isinstance(v, bool) else "int" if isinstance(v, int)
                    else "str" if isinstance(v, str) else "float")
        return out
    if k in ("seqOf", "seqPos", "setOf", "tupleOf", "tuplePos", "seqAny", "setAny"):
        return {"list"}
    if k in ("mapOf", "mapAny", "struct"):
        return {"dict"}
    if k == "noneF":
        return {"null"}
    return {"any"}


def in_fragment(d):
    """the statement's serializable fragment (round trip must be exact here)"""
    k = d["k"]
    if k in ("integer", "number", "float", "string", "boolean", "enumCls", "noneF"):
        return True
    if k == "enumLit":
        return all(v is None or isinstance(v, (bool, int, str)) or gen.is_wire_float(v) for v in d["values"])
    if k in ("seqOf", "setOf", "tupleOf"):
        return in_fragment(d["item"])
    if k in ("seqPos", "tuplePos"):
        return all(in_fragment(x) for x in d["items"])
    if k == "mapOf":
        return d["key"]["k"] in ("string", "integer", "enumCls") and in_fragment(d["val"])
    if k == "struct":
        # a required field that admits None cannot be told from an absent one in JSON
        if any(n in d["required"] and admits_none(fd) for n, fd in d["fields"]):
            return False
        return all(in_fragment(fd) for _, fd in d["fields"])
    if k == "anyOf":
        types = [json_type(x) for x in d["fields"]]
        if any("any" in t for t in types) or not all(in_fragment(x) for x in d["fields"]):
            return False
        return distinguishable(d)
    return False


def distinguishable(d):
    """AnyOf over distinguishable options (the statement's quantifier): pairwise disjoint JSON types (int/float
    overlap counts as one numeric type) and at most one structure option"""
    types = [json_type(x) for x in d["fields"]]
    norm = [{("num" if x in ("int", "float") else x) for x in t} for t in types]
    for i in range(len(norm)):
        for j in range(i + 1, len(norm)):
            if norm[i] & norm[j]:
                return False
    return len([x for x in d["fields"] if x["k"] == "struct"]) <= 1


def admits_none(d):
    k = d["k"]
    if k == "noneF":
        return True
    if k == "enumLit":
        return any(v is None for v in d["values"])
    if k in ("anyOf", "oneOf"):
        return any(admits_none(x) for x in d["fields"])
    return k in ("anything", "notF")


def lossy_only(d):
    """outside the exact fragment only because of Anything / untyped collections (lossy clause)"""
    k = d["k"]
    if k in ("anything", "seqAny", "setAny", "mapAny"):
        return True
    if k in ("oneOf", "allOf", "notF"):
        return False
    if k in ("seqOf", "setOf", "tupleOf"):
        return lossy_only(d["item"])
    if k == "anyOf":
        return all(lossy_only(x) for x in d["fields"]) and distinguishable(d) \
            and not any("any" in json_type(x) for x in d["fields"][:-1])
    if k in ("seqPos", "tuplePos"):
        return all(lossy_only(x) for x in d.get("items") or d.get("fields"))
    if k == "mapOf":
        return d["key"]["k"] in ("string", "integer", "enumCls") and lossy_only(d["val"])
    if k == "struct":
        if any(n in d["required"] and admits_none(fd) for n, fd in d["fields"]):
            return False
        return all(lossy_only(fd) for _, fd in d["fields"])
    return in_fragment(d)


def nonstring_map_keys(d, acc=None):
    """kinds of Map key fields whose serialized keys are not strings (json.dumps turns them into strings)"""
    acc = set() if acc is None else acc
    if isinstance(d, dict):
        if d.get("k") == "mapOf":
            kk = d["key"]["k"]
            if kk in ("integer", "float", "number", "boolean", "noneF", "anyOf") or \
                    (kk == "enumLit" and not all(isinstance(v, str) for v in d["key"]["values"])):
                acc.add(kk)
        for x in d.values():
            nonstring_map_keys(x, acc)
    elif isinstance(d, list):
        for x in d:
            nonstring_map_keys(x, acc)
    return acc


def has_extras(kw, cls):
    names = {n for n, _ in cls["fields"]}
    return any(k not in names for k, _ in kw)


def to_doc(d, v):
    """documented JSON form of a wire value (generator steering; nested instances become objects)"""
    if v is None or isinstance(v, (bool, int, str)) or gen.is_wire_float(v):
        return v
    if isinstance(v, dict):
        if "e" in v:
            return v["e"][1]
        for tag in ("l", "t", "s", "fs", "q"):
            if tag in v:
                items = v[tag]
                sub = lambda i: (d.get("item") if d and d["k"] in ("seqOf", "setOf", "tupleOf") else
                                 (d["items"][i] if d and d["k"] in ("seqPos", "tuplePos") and i < len(d["items"]) else None))
                return {"l": [to_doc(sub(i), x) for i, x in enumerate(items)]}
        if "m" in v:
            if d and d["k"] == "struct":
                fd = dict((n, f) for n, f in d["fields"])
                return {"m": [[k, to_doc(fd.get(k), x)] for k, x in v["m"]]}
            kd, vd = (d["key"], d["val"]) if d and d["k"] == "mapOf" else (None, None)
            return {"m": [[to_doc(kd, k), to_doc(vd, x)] for k, x in v["m"]]}
        if "o" in v:
            fd = dict((n, f) for n, f in d["fields"]) if d and d["k"] == "struct" else {}
            return {"m": [[k, to_doc(fd.get(k), x)] for k, x in v["o"][1]]}
        if "d" in v:
            return {"f": v["d"]}
    return v


JSON_CONFUSION = [None, True, False, 0, 1, -3, gen.fl(0), gen.fl(2.5), "", "a", "RED", "True", {"l": []}, {"l": [1, "a"]},
                  {"m": []}, {"m": [["a", 1]]}, {"l": [{"m": [["a", 1]]}]}]


def dedupe_doc(doc):
    """a Python dict has unique keys: keep the last entry of duplicate keys, at every level"""
    if isinstance(doc, dict):
        if "m" in doc:
            out = []
            for k, v in doc["m"]:
                key = json.dumps(gen.norm_key(k) if not isinstance(k, (dict, list)) else k, sort_keys=True, default=str)
                out = [kv for kv in out if kv[2] != key] + [[k, dedupe_doc(v), key]]
            return {"m": [[k, v] for k, v, _ in out]}
        if "l" in doc:
            return {"l": [dedupe_doc(x) for x in doc["l"]]}
    return doc


def corrupt_doc(rng, doc):
    """single-point corruption of a JSON document (wire form)"""
    if isinstance(doc, dict):
        if "l" in doc and doc["l"] and rng.random() < 0.7:
            xs = list(doc["l"])
            r = rng.random()
            if r < 0.6:
                i = rng.randrange(len(xs))
                xs[i] = corrupt_doc(rng, xs[i])
            elif r < 0.8:
                xs.pop(rng.randrange(len(xs)))
            else:
                xs.append(rng.choice(JSON_CONFUSION))
            return {"l": xs}
        if "m" in doc and doc["m"] and rng.random() < 0.8:
            kvs = [list(kv) for kv in doc["m"]]
            r = rng.random()
            if r < 0.55:
                i = rng.randrange(len(kvs))
                kvs[i][1] = corrupt_doc(rng, kvs[i][1])
            elif r < 0.75:
                kvs.pop(rng.randrange(len(kvs)))       # missing key
            elif r < 0.9:
                k = rng.choice(["zz_extra", "a", "b"])
                kvs = [kv for kv in kvs if kv[0] != k] + [[k, rng.choice(JSON_CONFUSION)]]   # extra / replaced key
            else:
                i = rng.randrange(len(kvs))
                kvs[i][1] = None
            return {"m": kvs}
    return rng.choice([x for x in JSON_CONFUSION if x != doc])


def nested_extra_docs(doc, limit=3):
    """the document with an undeclared key added inside ONE nested object (every nested object position in
    turn, at most `limit`): the undeclared-key policy must be applied at every level"""
    out = []

    def walk(d, rebuild, depth):
        if len(out) >= limit or not isinstance(d, dict):
            return
        if "m" in d:
            if depth >= 1 and not any(kv[0] == "zz_extra" for kv in d["m"]):
                out.append(rebuild({"m": [list(kv) for kv in d["m"]] + [["zz_extra", 1]]}))
            for i, kv in enumerate(d["m"]):
                walk(kv[1], lambda x, i=i, d=d: rebuild({"m": [list(k2) if j != i else [k2[0], x] for j, k2 in enumerate(d["m"])]}), depth + 1)
        elif "l" in d:
            for i, x in enumerate(d["l"]):
                walk(x, lambda y, i=i, d=d: rebuild({"l": [y if j == i else z for j, z in enumerate(d["l"])]}), depth)

    walk(doc, lambda x: x, 0)
    return out


# ------------------------------------------------------------------ generation

# ordered pairs of AnyOf options: the instance may hold either alternative, and an option listed earlier must not
# capture (deserialize) the JSON form of a later one
ANYOF_CATALOGUE = [
    {"k": "integer"}, {"k": "string"}, {"k": "boolean"}, {"k": "noneF"},
    {"k": "enumCls", "cls": "Color", "names": ["RED", "GREEN", "BLUE"]},
    {"k": "seqOf", "item": {"k": "string"}}, {"k": "seqOf", "item": {"k": "integer"}},
    {"k": "seqOf", "item": {"k": "string"}, "seq": "deque"},
    {"k": "setOf", "item": {"k": "integer"}}, {"k": "setOf", "item": {"k": "string"}},
    {"k": "tupleOf", "item": {"k": "string"}},
    {"k": "mapOf", "key": {"k": "string"}, "val": {"k": "integer"}},
    {"k": "mapOf", "key": {"k": "integer"}, "val": {"k": "string"}},
    {"k": "struct", "name": "APt", "required": ["x"], "addl": False, "fields": [["x", {"k": "integer"}]]},
]


def anyof_pair_cases(rng, limit=None):
    vg = gen.ValGen(rng)
    pairs = [(a, b) for a in ANYOF_CATALOGUE for b in ANYOF_CATALOGUE if a is not b]
    if limit is not None and len(pairs) > limit:
        pairs = rng.sample(pairs, limit)
    cases = []
    for pi, (a, b) in enumerate(pairs):
        cls = {"k": "struct", "name": f"AP{pi}", "required": ["f"], "addl": False,
               "fields": [["f", {"k": "anyOf", "fields": [copy.deepcopy(a), copy.deepcopy(b)]}]]}
        C.fix_accepts(cls)
        vals = []
        for opt in (a, b):
            v = vg.valid(opt)
            if v is not gen.NOVALUE:
                vals.append(v)
            e = vg.of_len(opt, 0)
            if e is not gen.NOVALUE:
                vals.append(e)
        for v in vals:
            if v is None:
                continue      # a required field holding None is another matter
            kw = [["f", v]]
            cases.append({"suite": "serde", "mode": "roundtrip", "stream": "anyof-pair", "cls": cls, "kw": kw,
                          "opts": {"keepUndefined": False, "ignoreInvalidAddl": False}, "re": gen.re_table(cls, kw)})
    return cases


def anyof_optional_cases(rng, limit=None):
    """AnyOf over TWO distinguishable non-None options and None (Optional[Union[A, B]]), None listed last / first /
    in the middle, the field left optional, holding a value of either option: the value must be serialized by the
    option it belongs to (not by whichever non-None option happens to be listed last)"""
    vg = gen.ValGen(rng)
    none = {"k": "noneF"}
    pairs = [(a, b) for a in ANYOF_CATALOGUE for b in ANYOF_CATALOGUE
             if a is not b and a["k"] != "noneF" and b["k"] != "noneF"
             and distinguishable({"k": "anyOf", "fields": [a, b]})]
    if limit is not None and len(pairs) > limit:
        pairs = rng.sample(pairs, limit)
    cases = []
    for pi, (a, b) in enumerate(pairs):
        for where in (2, 0, 1):
            opts3 = [copy.deepcopy(a), copy.deepcopy(b)]
            opts3.insert(where, dict(none))
            cls = {"k": "struct", "name": f"AO{pi}_{where}", "required": ["g"], "addl": False,
                   "fields": [["f", {"k": "anyOf", "fields": opts3}], ["g", {"k": "integer"}]]}
            C.fix_accepts(cls)
            for opt in (a, b):
                v = vg.valid(opt)
                if v is gen.NOVALUE or v is None:
                    continue
                kw = [["f", v], ["g", 1]]
                cases.append({"suite": "serde", "mode": "roundtrip", "stream": "anyof-optional", "cls": cls, "kw": kw,
                              "opts": {"keepUndefined": False, "ignoreInvalidAddl": False}, "re": gen.re_table(cls, kw)})
    return cases


def gen_cases(rng, tier, n_classes, lossy=0.2):
    cases = anyof_pair_cases(random.Random(str(rng.getstate()[1][0])))   # own stream: the main one is not shifted
    for ci in range(n_classes):
        allow = SER_KINDS + (LOSSY_KINDS if rng.random() < lossy else [])
        dg = gen.DeclGen(rng, max_depth=rng.choice([1, 2, 3 if tier == "quick" else 4]), allow=allow)
        vg = gen.ValGen(rng)
        cls = dg.class_decl(0, n_fields=rng.choice([1, 1, 2, 3]))
        cls["name"] = f"S{ci}"
        # map keys in the fragment; Optional shapes
        C.fix_accepts(cls)
        opts_list = [{"keepUndefined": ku, "ignoreInvalidAddl": ii} for ku in (True, False, None) for ii in (True, False)]
        kws = []
        for _ in range(4):
            kw = vg.valid_kw(cls)
            if kw is not gen.NOVALUE:
                kws.append(kw)
        for kw in kws:
            # undeclared attributes survive only with keep_undefined=True (documented); nested structures
            # get the same flag, so use True whenever additional properties may occur anywhere
            o = rng.choice(opts_list)
            if '"extra_' in json.dumps(kw):
                o = dict(o, keepUndefined=True)
            cases.append({"suite": "serde", "mode": "roundtrip", "cls": cls, "kw": kw,
                          "opts": o, "re": gen.re_table(cls, kw)})
            doc = {"m": [[k, to_doc(dict((n, f) for n, f in cls["fields"]).get(k), v)] for k, v in kw]}
            docs = [("image", doc)] + [("corrupt", corrupt_doc(rng, doc)) for _ in range(4)]
            for tag, d in docs:
                d = dedupe_doc(d)
                cases.append({"suite": "serde", "mode": "deser", "stream": tag, "cls": cls, "doc": d,
                              "opts": rng.choice(opts_list), "re": gen.re_table(cls, d), "warmup": rng.random() < 0.3})
            for d in nested_extra_docs(dedupe_doc(doc)):
                d = dedupe_doc(d)
                for o in ({"keepUndefined": True, "ignoreInvalidAddl": False}, {"keepUndefined": True, "ignoreInvalidAddl": True},
                          {"keepUndefined": False, "ignoreInvalidAddl": False}):
                    cases.append({"suite": "serde", "mode": "deser", "stream": "nested-extra", "cls": cls, "doc": d,
                                  "opts": o, "re": gen.re_table(cls, d), "warmup": rng.random() < 0.5})
        cases.append({"suite": "serde", "mode": "deser", "stream": "non-object", "cls": cls,
                      "doc": rng.choice([None, 1, "s", {"l": []}, {"l": [{"m": []}]}, True]),
                      "opts": rng.choice(opts_list), "re": []})
    return cases


# ------------------------------------------------------------------ size-bound documents (directed)

SIZED_ITEMS = [{"k": "integer"}, {"k": "string"},
               {"k": "struct", "name": "SzIt", "required": ["v"], "addl": False, "fields": [["v", {"k": "integer"}]]}]


def _sized_kinds(item):
    hashable = item["k"] != "struct"
    out = [("array", lambda b: dict({"k": "seqOf", "item": copy.deepcopy(item)}, **b)),
           ("deque", lambda b: dict({"k": "seqOf", "seq": "deque", "item": copy.deepcopy(item)}, **b)),
           ("map", lambda b: dict({"k": "mapOf", "key": {"k": "string"}, "val": copy.deepcopy(item)}, **b)),
           ("arraypos", lambda b: dict({"k": "seqPos", "items": [copy.deepcopy(item)], "addl": True}, **b)),
           ("dequepos", lambda b: dict({"k": "seqPos", "seq": "deque", "items": [copy.deepcopy(item)], "addl": True}, **b))]
    if hashable:
        out.append(("set", lambda b: dict({"k": "setOf", "item": copy.deepcopy(item)}, **b)))
    return out


def size_bound_cases(rng):
    """every sized collection kind x item kind x (minItems | maxItems | both) x placement (a class field, a field of
    a nested class, inside an Array of structures, a Map value, under Optional), with well-typed documents whose
    length is one below / at / one above each bound: the size rule must be decided by the Deserializer exactly as
    the constructor decides it on the lifted document (neither truncation nor padding)"""
    vg = gen.ValGen(rng)
    cases = []
    ci = 0
    for item in SIZED_ITEMS:
        for kname, mk in _sized_kinds(item):
            for bounds in ({"minItems": 2}, {"maxItems": 2}, {"minItems": 1, "maxItems": 3}, {"maxItems": 0}):
                coll = mk(bounds)
                lens = sorted({max(0, bounds.get("minItems", 1) - 1), bounds.get("minItems", 1),
                               bounds.get("maxItems", 2), bounds.get("maxItems", 2) + 1, bounds.get("maxItems", 2) + 2})
                for place in ("field", "nested", "array-of-struct", "map-value", "optional"):
                    ci += 1
                    inner = {"k": "struct", "name": f"SzN{ci}", "required": ["c"], "addl": False, "fields": [["c", copy.deepcopy(coll)], ["t", {"k": "string"}]]}
                    f = {"field": coll, "nested": inner, "array-of-struct": {"k": "seqOf", "item": inner},
                         "map-value": {"k": "mapOf", "key": {"k": "string"}, "val": copy.deepcopy(coll)},
                         "optional": {"k": "anyOf", "fields": [{"k": "noneF"}, copy.deepcopy(coll)]}}[place]
                    cls = {"k": "struct", "name": f"Sz{ci}", "required": ["f"], "addl": False, "fields": [["f", f], ["g", {"k": "integer"}]]}
                    C.fix_accepts(cls)
                    for n in lens:
                        v = vg.of_len(coll, n)
                        if v is gen.NOVALUE:
                            continue
                        cd = to_doc(coll, v)
                        fd = {"field": cd, "nested": {"m": [["c", cd], ["t", "x"]]},
                              "array-of-struct": {"l": [{"m": [["c", cd]]}, {"m": [["c", cd], ["t", ""]]}]},
                              "map-value": {"m": [["k", cd]]}, "optional": cd}[place]
                        d = dedupe_doc({"m": [["f", fd], ["g", n]]})
                        cases.append({"suite": "serde", "mode": "deser", "stream": "size-bound", "cls": cls, "doc": d,
                                      "opts": {"keepUndefined": False, "ignoreInvalidAddl": True}, "re": gen.re_table(cls, d)})
    return cases


def offpath_null_cases():
    """a null for an OPTIONAL field of an inline StructureReference, the inline class reached directly, as a direct Array
    item (there a null is the same as an absent key) and through a Map value / Tuple item / Deque item / nested Array
    (there the real code hands the field the value None): directed, so that the known over-rejection is reproduced on
    every run"""
    inl = lambda: {"k": "struct", "name": "Inl1", "required": ["y"], "addl": False, "inline": True,
                   "fields": [["x", {"k": "integer"}], ["y", {"k": "string"}]]}
    obj = {"m": [["y", "a"], ["x", None]]}
    places = [("direct", inl(), obj), ("array", {"k": "seqOf", "item": inl()}, {"l": [obj]}),
              ("map-value", {"k": "mapOf", "key": {"k": "string"}, "val": inl()}, {"m": [["k", obj]]}),
              ("tuple-item", {"k": "tuplePos", "items": [inl(), {"k": "integer"}]}, {"l": [obj, 1]}),
              ("deque", {"k": "seqOf", "seq": "deque", "item": inl()}, {"l": [obj]}),
              ("nested-array", {"k": "seqOf", "item": {"k": "seqOf", "item": inl()}}, {"l": [{"l": [obj]}]})]
    cases = []
    for i, (place, f, d) in enumerate(places):
        cls = {"k": "struct", "name": f"Off{i}", "required": ["f"], "addl": False, "fields": [["f", f]]}
        C.fix_accepts(cls)
        doc = {"m": [["f", d]]}
        cases.append({"suite": "serde", "mode": "deser", "stream": "offpath-null:" + place, "cls": cls, "doc": doc,
                      "opts": {"keepUndefined": False, "ignoreInvalidAddl": True}, "re": gen.re_table(cls, doc)})
    return cases


# ------------------------------------------------------------------ real code

def json_to_wire(j):
    """real JSON-like Python value -> wire"""
    return dump.dump_value(j)


def run_impl(case):
    ctx = C.make_ctx()
    decl = case["cls"]
    try:
        cls = dump.build_class(decl, ctx)
    except Exception as e:
        return {"unbuildable": f"class: {type(e).__name__}: {e}"}
    back = dump.normalize_decl(dump.dump_class(cls, ctx))
    if back != dump.normalize_decl(decl):
        return {"abstraction_mismatch": {"dumped": back, "declared": dump.normalize_decl(decl)}}
    res = {"cls_actual": C.fix_accepts(dump.dump_class(cls, ctx, order="definition"))}
    opts = case.get("opts", {})
    old = TypedPyDefaults.ignore_invalid_additional_properties_in_deserialization
    TypedPyDefaults.ignore_invalid_additional_properties_in_deserialization = opts.get("ignoreInvalidAddl", True)
    try:
        addl = bool(decl.get("addl", True))
        ku = opts.get("keepUndefined", True)
        # the wrapper's adjustment of keep_undefined=None: kept as it is (falsy) for an open class; for a closed class
        # it is `not ignore_invalid_additional_properties_in_deserialization` (since /repo 005d815; before: True)
        res["opts_actual"] = {"keepUndefined": bool(ku if (ku is not None or addl) else not opts.get("ignoreInvalidAddl", True)),
                              "ignoreInvalidAddl": opts.get("ignoreInvalidAddl", True)}
        if case["mode"] == "roundtrip":
            try:
                kw = {k: dump.load_value(v, ctx) for k, v in case["kw"]}
                x = cls(**kw)
            except Exception as e:
                return {"unbuildable": f"instance: {type(e).__name__}: {e}"}
            res["kw_actual"] = [[k, C.rename_inline(dump.dump_value(v, ctx), ctx)] for k, v in kw.items()]
            res["inst"] = C.rename_inline(dump.dump_value(x, ctx), ctx)
            snap = json.dumps(res["inst"], sort_keys=True)
            try:
                doc = Serializer(x).serialize()
                res["ser"] = {"ok": C.rename_inline(dump.dump_value(doc, ctx), ctx)}
                try:
                    json.dumps(doc)
                    res["dumps"] = True
                except Exception as e:
                    res["dumps"] = f"{type(e).__name__}: {e}"
                try:
                    res["ser_fn_same"] = serialize(x) == doc
                except Exception:
                    res["ser_fn_same"] = False
                # the public field-level API: serialize_field(Class.field, value) is that field's part of the document
                try:
                    diffs = []
                    for fname in cls.get_all_fields_by_name():
                        fv = getattr(x, fname, None)
                        if fv is None or fname not in doc:
                            continue
                        part = serialize_field(getattr(cls, fname), fv)
                        fdecl = dict((n, f) for n, f in decl["fields"]).get(fname)
                        # (arrays that came from a set are compared as sets: the getter may hand out a copy that iterates differently)
                        if dump.canon(canon_doc(fdecl, dump.dump_value(part, ctx))) != dump.canon(canon_doc(fdecl, dump.dump_value(doc[fname], ctx))):
                            diffs.append(fname)
                    res["ser_field_diffs"] = diffs
                except Exception as e:
                    res["ser_field_diffs"] = f"{type(e).__name__}: {e}"[:200]
                # the alias probe pokes the returned document: on a separate, fresh instance, so that a live
                # document cannot corrupt the instance the round trip below starts from
                try:
                    xp = cls(**{k: dump.load_value(v, ctx) for k, v in case["kw"]})
                    snap_p = json.dumps(C.rename_inline(dump.dump_value(xp, ctx), ctx), sort_keys=True)
                    res["doc_aliases"] = _poke(Serializer(xp).serialize(),
                                               lambda: json.dumps(C.rename_inline(dump.dump_value(xp, ctx), ctx), sort_keys=True) == snap_p)
                except Exception:
                    res["doc_aliases"] = False
            except Exception as e:
                res["ser"] = {"err": C.err_name(e), "msg": str(e)[:200]}
                return res
            # the same through JSON TEXT (what a consumer on the other side of a wire sees)
            try:
                text = json.dumps(Serializer(x).serialize())
                try:
                    yt = Deserializer(cls).deserialize(json.loads(text), keep_undefined=ku)
                    res["text_back"] = {"ok": bool(x == yt)}
                except Exception as e:
                    res["text_back"] = {"err": C.err_name(e), "msg": str(e)[:200]}
            except Exception:
                pass
            try:
                doc2 = Serializer(x).serialize()
                y = Deserializer(cls).deserialize(doc2, keep_undefined=ku)
                res["back"] = {"ok": C.rename_inline(dump.dump_value(y, ctx), ctx)}
                res["eq"] = bool(x == y)
                try:
                    res["ser2"] = {"ok": C.rename_inline(dump.dump_value(Serializer(y).serialize(), ctx), ctx)}
                except Exception as e:
                    res["ser2"] = {"err": C.err_name(e)}
            except Exception as e:
                res["back"] = {"err": C.err_name(e), "msg": str(e)[:200]}
                res["eq"] = False
        else:
            try:
                doc = dump.load_value(case["doc"], ctx)
            except TypeError as e:    # e.g. a list as a dict key: not a Python document at all
                return {"unbuildable": f"document: {e}"}
            before = json.dumps(dump.dump_value(doc, ctx), sort_keys=True)
            if case.get("warmup"):
                # history: the SAME class objects were used before under the other settings of the flags (a verdict
                # cached per class must not survive a change of the configuration)
                want = TypedPyDefaults.ignore_invalid_additional_properties_in_deserialization
                TypedPyDefaults.ignore_invalid_additional_properties_in_deserialization = not want
                for ku2 in (True, False, None):
                    try:
                        Deserializer(cls).deserialize(copy.deepcopy(doc), keep_undefined=ku2)
                    except Exception:
                        pass
                TypedPyDefaults.ignore_invalid_additional_properties_in_deserialization = want
            try:
                y = Deserializer(cls).deserialize(doc, keep_undefined=ku)
                res["deser"] = {"ok": C.rename_inline(dump.dump_value(y, ctx), ctx)}
            except Exception as e:
                res["deser"] = {"err": C.err_name(e), "msg": str(e)[:200]}
            # the function API with the flag the wrapper computes: same verdict, equal instance
            try:
                y2 = deserialize_structure(cls, copy.deepcopy(doc), keep_undefined=res["opts_actual"]["keepUndefined"] if ku is None else ku)
                res["deser_fn"] = {"ok": C.rename_inline(dump.dump_value(y2, ctx), ctx)}
            except Exception as e:
                res["deser_fn"] = {"err": C.err_name(e), "msg": str(e)[:200]}
            res["doc_unchanged"] = before == json.dumps(dump.dump_value(doc, ctx), sort_keys=True)
    finally:
        TypedPyDefaults.ignore_invalid_additional_properties_in_deserialization = old
    return res


def _poke(doc, unchanged):
    """mutate every mutable node of a returned document; report whether the instance changed"""
    nodes = []

    def walk(o):
        if isinstance(o, (list, dict)):
            nodes.append(o)
            for x in (o.values() if isinstance(o, dict) else o):
                walk(x)
    walk(doc)
    for o in nodes:
        try:
            if isinstance(o, dict):
                o["__poke__"] = 1
            else:
                o.append("__poke__")
        except Exception:
            pass
    return not unchanged()


def line(case, impl):
    l = {"suite": "serde", "cls": impl.get("cls_actual", case["cls"]), "re": case.get("re", []),
         "opts": impl.get("opts_actual", {})}
    if case["mode"] == "roundtrip":
        l["kw"] = impl.get("kw_actual", case["kw"])
        if "inst" in impl:
            l["x"] = impl["inst"]
        final = (impl.get("back") or {}).get("ok")
        if final is not None:
            l["implInst"] = final
    else:
        l["doc"] = case["doc"]
        final = (impl.get("deser") or {}).get("ok")
        if final is not None:
            l["implInst"] = final
    return l


def tags(case, impl, model):
    out = ["mode:" + case["mode"] + (":" + case.get("stream", "") if case["mode"] == "deser" else "")]
    if "unbuildable" in impl:
        out.append("impl:skipped")
    for key in ("ser", "back", "deser"):
        if key in impl:
            out.append(f"{key}:" + ("ok" if "ok" in impl[key] else impl[key]["err"]))
    out.append("fragment:" + str(in_fragment(case["cls"])))
    m = (model or {}).get("out") or {}
    if "inFrag" in m:
        out.append("proved-fragment(class_round_trip_partial | _extras_partial | _none_attrs_partial):" + str(bool(m["inFrag"] or m.get("inFragExtras") or m.get("inFragNone"))))
    if "docStable" in m:
        out.append("serialized-document-has-string-keys-only(class_text_round_trip_partial):" + str(m["docStable"]))
    if "exactDecl" in m:
        out.append("proved-fragment(deserialize_exact_partial):" + str(m["exactDecl"]))
    out.append("model-scope:" + str(in_model_scope(case["cls"])))
    return out


def nontrivial(case):
    return C.nontrivial(case)


def describe(case, impl, model):
    return {"cls": case["cls"], "mode": case["mode"], "kw": case.get("kw"), "doc": case.get("doc"), "opts": case.get("opts"),
            "impl": {k: impl.get(k) for k in ("ser", "back", "deser", "eq")}}


def drop_none_attrs(j):
    """an attribute holding None and an absent attribute are observationally the same
    (field reads, ==); deserialization treats a null like an absent key"""
    if isinstance(j, list):
        return [drop_none_attrs(x) for x in j]
    if isinstance(j, dict):
        if "o" in j:
            return {"o": [j["o"][0], [[k, drop_none_attrs(v)] for k, v in j["o"][1] if v is not None]]}
        return {k: drop_none_attrs(v) for k, v in j.items()}
    return j


def _same(a, b):
    return dump.canon(drop_none_attrs(a)) == dump.canon(drop_none_attrs(b))


LISTY = ("seqOf", "seqPos", "seqAny", "setOf", "setAny", "tupleOf", "tuplePos")


def canon_doc(d, doc):
    """serialized document with the arrays that came from sets sorted (set iteration order is not
    part of the contract and not reproduced by the model)"""
    if d is None or not isinstance(doc, dict):
        return doc
    k = d["k"]
    key = lambda x: json.dumps(x, sort_keys=True)
    if k in ("anyOf", "oneOf", "allOf", "notF"):
        want = LISTY if "l" in doc else ("struct", "mapOf") if "m" in doc else ()
        for opt in d["fields"]:
            if opt["k"] in want or opt["k"] in ("anyOf", "oneOf", "allOf", "notF"):
                return canon_doc(opt, doc)
        return doc
    if "l" in doc:
        xs = doc["l"]
        if k in ("setOf", "setAny"):
            return {"l": sorted((canon_doc(d.get("item"), x) for x in xs), key=key)}
        if k in ("seqOf", "tupleOf"):
            return {"l": [canon_doc(d["item"], x) for x in xs]}
        if k in ("seqPos", "tuplePos"):
            return {"l": [canon_doc(d["items"][i] if i < len(d["items"]) else None, x) for i, x in enumerate(xs)]}
        return doc
    if "m" in doc:
        if k == "struct":
            fd = dict((n, f) for n, f in d["fields"])
            return {"m": sorted(([kk, canon_doc(fd.get(kk) if isinstance(kk, str) else None, v)] for kk, v in doc["m"]),
                                key=lambda kv: key(kv[0]))}
        if k == "mapOf":
            return {"m": sorted(([kk, canon_doc(d["val"], v)] for kk, v in doc["m"]), key=lambda kv: key(kv[0]))}
    return doc


def res_diff(what, m, i, errs=()):
    if m is None or i is None:
        return None
    if str(m.get("err", "")).startswith("outside-model"):
        return None
    if "ok" in m:
        if "ok" not in i:
            return f"{what}: model ok, real code raises {i.get('err')}: {i.get('msg')}"
        if not _same(m["ok"], i["ok"]):
            return f"{what}: results differ: model {json.dumps(dump.canon(m['ok']))[:300]} impl {json.dumps(dump.canon(i['ok']))[:300]}"
        return None
    if "ok" in i:
        return f"{what}: model raises {m['err']}, real code ok: {json.dumps(i['ok'])[:300]}"
    if m["err"] != i["err"] and i["err"] not in errs:
        return f"{what}: exception class differs: model {m['err']} (field view {list(errs)}), real code {i['err']}: {i.get('msg')}"
    return None


def in_model_scope(d):
    """declarations whose serialization the Lean model claims to mirror exactly: everything except
    OneOf/AllOf/NotField (which store the raw, un-normalised input) and Anything"""
    if isinstance(d, list):
        return all(in_model_scope(x) for x in d)
    if isinstance(d, dict):
        if d.get("k") in ("oneOf", "allOf", "notF", "anything"):
            return False
        if d.get("k") == "enumLit" and not all(v is None or isinstance(v, (bool, int, str)) or gen.is_wire_float(v) for v in d["values"]):
            return False
        return all(in_model_scope(x) for x in d.values())
    return True


def offpath_inline(d, on_path=True):
    """an inline StructureReference reached through anything but (class field | Array | Set): it is
    deserialized without a sub-mapper, which changes how a null inside it is treated"""
    if isinstance(d, dict) and "k" in d:
        k = d["k"]
        if k == "struct":
            if d.get("inline") and not on_path:
                return True
            return any(offpath_inline(fd, True) for _, fd in d["fields"])
        # probed on the real code: a sub-mapper exists for a class field and for the DIRECT items of an
        # Array (single or positional) that is itself a class field; not for Deque / Tuple / Map / AnyOf /
        # nested collections
        if k in ("seqOf", "seqPos") and d.get("seq") != "deque":
            items = [d["item"]] if k == "seqOf" else d["items"]
            return any(offpath_inline(it, on_path and it.get("k") == "struct") for it in items)
        return any(offpath_inline(x, False) for x in list(d.values()))
    if isinstance(d, list):
        return any(offpath_inline(x, on_path) for x in d)
    return False


def _eq_and_typed_keys(x):
    """(key under Python ==, key that also tells the JSON types apart) of a wire document value"""
    if x is None or isinstance(x, str):
        return ("v", x), ("v", x)
    if isinstance(x, bool):
        return ("n", gen.norm_key(x)), ("bool", x)
    if isinstance(x, int):
        return ("n", gen.norm_key(x)), ("int", x)
    if gen.is_wire_float(x):
        return ("n", gen.norm_key(x)), ("float", json.dumps(x, sort_keys=True))
    if isinstance(x, dict) and "l" in x:
        ks = [_eq_and_typed_keys(y) for y in x["l"]]
        return ("l", tuple(k[0] for k in ks)), ("l", tuple(k[1] for k in ks))
    return ("o", json.dumps(x, sort_keys=True)), ("o", json.dumps(x, sort_keys=True))


def crosstype_duplicates(doc):
    """an array holding values that are == but of different JSON type (true / 1 / 1.0, also inside nested arrays:
    [3, 0] / [3, false]): as a Python set they collapse before the constructor can see them, so 'the set this
    array denotes' is ambiguous"""
    if isinstance(doc, dict):
        if "l" in doc:
            keys = {}
            for x in doc["l"]:
                ek, tk = _eq_and_typed_keys(x)
                if keys.setdefault(ek, tk) != tk:
                    return True
            return any(crosstype_duplicates(x) for x in doc["l"])
        if "m" in doc:
            return any(crosstype_duplicates(v) for _, v in doc["m"])
    return False


def null_in_nested_object(doc, depth=0):
    if isinstance(doc, dict):
        if "m" in doc:
            return any((v is None and depth >= 1) or null_in_nested_object(v, depth + 1) for _, v in doc["m"])
        if "l" in doc:
            return any(null_in_nested_object(v, depth) for v in doc["l"])
    return False


def correspondence(case, impl, model):
    if "unbuildable" in impl:
        return None
    if case["mode"] == "deser" and null_in_nested_object(case["doc"]) and offpath_inline(case["cls"]):
        return None     # outside the model (sub-mapper availability is not modelled)
    if case["mode"] == "roundtrip" and not in_model_scope(case["cls"]):
        return None
    if "abstraction_mismatch" in impl:
        return "dump(build(decl)) != decl: " + json.dumps(impl["abstraction_mismatch"])[:600]
    if case["mode"] == "roundtrip":
        if "ok" not in model.get("inst", {}):
            return f"model cannot construct the instance: {model.get('inst')}"
        if not _same(model["inst"]["ok"], impl["inst"]):
            return "instances differ"
        ms, is_ = model.get("ser"), impl.get("ser")
        if ms and is_ and "ok" in ms and "ok" in is_:
            ms = {"ok": canon_doc(case["cls"], ms["ok"])}
            is_ = {"ok": canon_doc(case["cls"], is_["ok"])}
        return res_diff("serialize", ms, is_) or \
            res_diff("deserialize(serialize(x))", model.get("back"), impl.get("back"))
    return res_diff("deserialize", model.get("deser"), impl.get("deser"), errs=model.get("errs", []))
