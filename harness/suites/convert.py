"""
Suite `convert` (C17): versioned conversion.

A case = (history of mappings, document, split points, Versioned class description, constructor kwargs).
`run_impl` runs the real `convert_dict` (at once, and in two stages for every split point), the real
`Deserializer(VersionedCls).deserialize` on the document and on its converted form, a non-Versioned twin class on
the converted document, and the real constructor; every argument is deep-snapshotted before and after, and
the returned documents are probed for containers shared with the arguments.

Wire format: see lean/TypedpyModel/Drive/Convert.lean.
"""
import copy
import json

SUFFIX = "._mapper"
TOP_KEYS = ["a", "b", "c", "d", "e"]
SUB_KEYS = ["x", "y", "z", "a"]


# ---------------------------------------------------------------- user functions of FunctionCall
# The Lean model carries an ARBITRARY function `List Json -> R Json` per entry; on a run the driver gets the function
# as the table of calls observed on the real code (plus the calls the documented step contract asks about, evaluated
# here on the very same pure Python function).  The family below is just a varied sample of user functions: total
# and partial ones, raising ones, float-producing ones, order-insensitive container functions and "random" functions
# (a seeded hash of the canonical arguments picks the outcome, any arity).

def f_ident(x):
    return x


def f_addOne(x):
    return x + 1 if type(x) is int else x


def f_upper(x):
    if type(x) is str:
        return "".join(chr(ord(c) - 32) if "a" <= c <= "z" else c for c in x)
    return x


def f_wrap(x):
    return [x]


def f_concat(x, y):
    if type(x) is str and type(y) is str:
        return x + y
    if type(x) is list and type(y) is list:
        return x + y
    return None


def f_pair(x, y):
    return [x, y]


def f_half(x):
    return x / 2 if type(x) in (int, float) else x


def f_recip(x):
    return 1 / x            # ZeroDivisionError on 0 / False, TypeError on str / None / containers


def f_strict(x):
    if x is None:
        raise ValueError("value required")
    return x


def f_size(x):
    return len(x)           # TypeError on numbers / None


def f_keys(x):
    return sorted(x) if type(x) is dict else None


def f_lookup(x, y):
    return x[y]             # KeyError / IndexError / TypeError


_POOL = [None, 0, 1, -3, 2.5, "", "q", True, [], [1, "s"], {"x": 1}, {"x": [None], "y": {"z": 0.5}},
         ("raise", "ValueError"), ("raise", "KeyError"), ("raise", "RuntimeError")]


def _hashed(name):
    import hashlib

    def h(*a):
        d = hashlib.sha256((name + "|" + canon(list(a))).encode()).digest()
        r = _POOL[d[0] % len(_POOL)]
        if isinstance(r, tuple):
            raise {"ValueError": ValueError, "KeyError": KeyError, "RuntimeError": RuntimeError}[r[1]](name)
        return copy.deepcopy(r)
    h.__name__ = name
    return h


FUNCS = {"ident": f_ident, "addOne": f_addOne, "upper": f_upper, "wrap": f_wrap, "concat": f_concat,
         "pair": f_pair, "half": f_half, "recip": f_recip, "strict": f_strict, "size": f_size, "keys": f_keys,
         "lookup": f_lookup, "h0": _hashed("h0"), "h1": _hashed("h1"), "h2": _hashed("h2")}
FN_ARITY = {"ident": 1, "addOne": 1, "upper": 1, "wrap": 1, "concat": 2, "pair": 2, "half": 1, "recip": 1, "strict": 1,
            "size": 1, "keys": 1, "lookup": 2, "h0": 1, "h1": 1, "h2": 2}


class Recorder:
    """wraps the user functions of one case: every call (arguments -> outcome) is recorded"""

    def __init__(self):
        self.rows = {}          # name -> {canon(args): (args copy, outcome)}
        self.raised = []        # (name, args, exception class) of every call that raised, in order

    def wrap(self, name):
        f = FUNCS[name]
        rows = self.rows.setdefault(name, {})

        def w(*a):
            key = canon(list(a))
            args = copy.deepcopy(list(a))
            try:
                r = f(*a)
            except Exception as e:   # noqa: BLE001
                rows.setdefault(key, (args, {"err": type(e).__name__}))
                self.raised.append([name, args, type(e).__name__])
                raise
            rows.setdefault(key, (args, {"ok": enc(copy.deepcopy(r))} if is_json(r) else {"err": "NotJson"}))
            return r
        w.__name__ = name
        return w

    def ask(self, name, args):
        """evaluate the pure function on arguments the real code may not have used (contract questions)"""
        rows = self.rows.setdefault(name, {})
        key = canon(list(args))
        if key in rows:
            return
        try:
            r = FUNCS[name](*copy.deepcopy(list(args)))
            rows[key] = (copy.deepcopy(list(args)), {"ok": enc(r)} if is_json(r) else {"err": "NotJson"})
        except Exception as e:   # noqa: BLE001
            rows[key] = (copy.deepcopy(list(args)), {"err": type(e).__name__})

    def wire(self):
        return {name: [[[enc(x) for x in args], out] for args, out in rows.values()]
                for name, rows in self.rows.items()}


def values_by_key(v, acc):
    """every value found under a key, at any depth: key -> {canon: value}"""
    if isinstance(v, dict):
        for k, x in v.items():
            acc.setdefault(k, {}).setdefault(canon(x), x)
            values_by_key(x, acc)
    elif isinstance(v, list):
        for x in v:
            values_by_key(x, acc)
    return acc


def const_values(ms_wire, acc):
    for m in ms_wire:
        for k, e in m:
            if "const" in e:
                v = dec(e["const"])
                acc.setdefault(k, {}).setdefault(canon(v), v)
            elif "sub" in e:
                const_values([e["sub"]], acc)
    return acc


def fn_entries(ms_wire, out=None):
    out = [] if out is None else out
    for m in ms_wire:
        for k, e in m:
            if "fn" in e:
                out.append((k, e))
            elif "sub" in e:
                fn_entries([e["sub"]], out)
    return out


def close_tables(rec, case, docs):
    """add to the recorded tables the calls the step contract can ask about: for every FunctionCall entry, the function
    on every combination of values that any of the documents (input, every real intermediate state) or a Constant of
    the history holds under the argument keys (bounded)"""
    import itertools
    cand = {}
    for d in docs:
        values_by_key(d, cand)
    const_values(case["ms"], cand)
    for k, e in fn_entries(case["ms"]):
        names = e.get("args") or [k]
        pools = [[None] + list(cand.get(x, {}).values()) for x in names]
        for n, combo in enumerate(itertools.product(*pools)):
            if n >= 160:
                break
            rec.ask(e["fn"], list(combo))


# ---------------------------------------------------------------- wire encoding

def enc(v, sort=False):
    """python JSON value -> wire (objects as ordered pair lists)"""
    if isinstance(v, dict):
        items = sorted(v.items()) if sort else v.items()
        return {"o": [[k, enc(x, sort)] for k, x in items]}
    if isinstance(v, (list, tuple)):
        return [enc(x, sort) for x in v]
    if type(v) is float:
        n, d = v.as_integer_ratio()
        return {"f": [n, d]}
    return v


def dec(w):
    if isinstance(w, dict):
        if "f" in w:
            return w["f"][0] / w["f"][1]
        return {k: dec(x) for k, x in w["o"]}
    if isinstance(w, list):
        return [dec(x) for x in w]
    return w


def canon(v):
    """canonical text of a python JSON value (key order ignored, True != 1)"""
    return json.dumps(v, sort_keys=True, ensure_ascii=False)


def is_json(v):
    if v is None or type(v) in (bool, int, str):
        return True
    if type(v) is float:
        return v == v and v not in (float("inf"), float("-inf")) and not (v == 0 and str(v)[0] == "-")
    if type(v) is list:
        return all(is_json(x) for x in v)
    if type(v) is dict:
        return all(type(k) is str and is_json(x) for k, x in v.items())
    return False


# ---------------------------------------------------------------- generators

class Gen:
    def __init__(self, rng, tier):
        self.rng = rng
        self.tier = tier

    def scalar(self):
        r = self.rng
        return r.choice([0, 1, 2, -1, 7, 41, "", "s", "ab", "x", "y", "xy", "a.b", True, False, None, 3, "Zz", 0.5, 2.0,
                         -1.25, 0.0])

    def subdoc(self, depth):
        r = self.rng
        d = {}
        for k in SUB_KEYS:
            if r.random() < 0.55:
                if k == "z" and depth > 0 and r.random() < 0.6:
                    d[k] = self.subdoc(depth - 1) if r.random() < 0.5 else self.doclist(depth - 1)
                else:
                    d[k] = self.scalar() if r.random() < 0.85 else [self.scalar() for _ in range(r.randint(0, 2))]
        if r.random() < 0.03:
            d["version"] = r.choice([1, 2, "v"])
        return d

    def doclist(self, depth):
        r = self.rng
        out = []
        for _ in range(r.randint(0, 3)):
            p = r.random()
            if p < 0.9:
                out.append(self.subdoc(depth))
            elif p < 0.95:
                out.append(None)
            else:
                out.append(self.scalar())
        return out

    def value_for(self, key, depth=1, loose=0.1):
        """value for a top-level key following the key's usual role (a, b scalars; c doc; d list of docs)"""
        r = self.rng
        role = {"a": "scalar", "b": "scalar", "c": "doc", "d": "docs"}.get(key, "any")
        if role == "any" or r.random() < loose:
            role = r.choice(["scalar", "doc", "docs", "list", "null"])
        if role == "scalar":
            return self.scalar()
        if role == "doc":
            return self.subdoc(depth)
        if role == "docs":
            return self.doclist(depth)
        if role == "list":
            return [self.scalar() for _ in range(r.randint(0, 3))]
        return None

    def document(self):
        r = self.rng
        d = {}
        keys = list(TOP_KEYS)
        r.shuffle(keys)
        for k in keys:
            if r.random() < 0.6:
                d[k] = self.value_for(k)
        if r.random() < 0.04:
            d["f"] = self.scalar()
        return d

    def path(self, nested):
        r = self.rng
        p = r.random()
        first = r.choice(SUB_KEYS if nested else TOP_KEYS)
        if p < 0.45:
            return first
        if p < 0.85:
            return first + "." + r.choice(SUB_KEYS)
        if p < 0.93:
            return first + "." + r.choice(SUB_KEYS) + "." + r.choice(SUB_KEYS)
        return r.choice(["", "a..b", ".", "c.", "version", "d.z.z.x"])

    def entry(self, key, nested, depth):
        """one mapping entry as wire JSON; returns (wire_key, entry)"""
        r = self.rng
        p = r.random()
        sub_ok = depth > 0 and (nested and key == "z" or not nested and key in ("c", "d", "e") or r.random() < 0.08)
        if p < 0.2:
            if r.random() < 0.5:
                v = self.scalar()
            else:
                v = self.value_for(key) if not nested else self.value_for("e", depth=0)
            return key, {"const": enc(v)}
        if p < 0.35:
            return key, {"del": 1}
        if p < 0.6:
            return key, {"move": self.path(nested)}
        if p < 0.8 and sub_ok:
            return key + SUFFIX, {"sub": self.mapping(True, depth - 1)}
        name = r.choice(list(FN_ARITY))
        q = r.random()
        # a top-level FunctionCall may read `version` (the caller's bookkeeping, rewritten after every step)
        keys = SUB_KEYS if nested else (TOP_KEYS + ["version"] if r.random() < 0.15 else TOP_KEYS)
        if q < 0.35 and FN_ARITY[name] == 1:
            args = None
        elif q < (0.4 if FN_ARITY[name] == 1 else 0.04):
            args = []
        elif q < 0.92:
            args = [r.choice(keys) for _ in range(FN_ARITY[name])]
        else:
            args = [r.choice(keys) for _ in range(r.choice([1, 2, 3]))]
        return key, {"fn": name, "args": args}

    def mapping(self, nested, depth, version_p=0.0):
        r = self.rng
        keys = SUB_KEYS if nested else TOP_KEYS
        out, seen = [], set()
        for _ in range(r.choice([0, 1, 1, 2, 2, 3, 3, 4, 5])):
            k = r.choice(keys)
            if not nested and r.random() < version_p:
                k = "version"
            wk, e = self.entry(k, nested, depth)
            if wk in seen:
                continue
            seen.add(wk)
            out.append([wk, e])
        return out

    def case(self):
        r = self.rng
        max_n = 5 if self.tier == "quick" else 8
        n = r.choice(list(range(0, max_n + 1)) + [1, 2, 3])
        # a mapping with an entry for `version` is outside the well-formedness predicate (kept rare)
        version_p = 0.25 if r.random() < 0.06 else 0.0
        ms = [self.mapping(False, 2, version_p) for _ in range(n)]
        doc = self.document()
        p = r.random()
        if p < 0.78:
            ver = 1 if r.random() < 0.4 else r.randint(1, n + 1)
        elif p < 0.87:
            ver = "absent"
        elif p < 0.91:
            ver = n + 1 + r.randint(1, 2)
        elif p < 0.96:
            ver = r.choice([0, -1, -2, -n - 3])
        else:
            ver = r.choice(["1", None, True, False, [1], {"v": 1}, 1.0, 2.5])
        if ver != "absent":
            # the position of the key is part of the document
            items = list(doc.items())
            items.insert(r.randint(0, len(items)), ("version", ver))
            doc = dict(items)
        ftypes = {}
        trusted = r.random() < 0.2
        # direct_trusted_mapping takes its shortcut (from_trusted_data, no constructor) only for classes whose fields
        # are all "simple": in most trusted cases no field is an Anything
        all_typed = trusted and r.random() < 0.7
        # in about half of the cases some of the keys the history works on are NOT fields of the class
        undeclared_p = 0.45 if r.random() < 0.5 else 0.0
        for k in TOP_KEYS:
            q = r.random()
            if r.random() < undeclared_p:
                ftypes[k] = "undeclared"
            elif q < 0.8 and not all_typed:
                ftypes[k] = "any"
            else:
                ftypes[k] = {"a": "int", "b": "str", "c": "sub", "d": "subs"}.get(k, "int" if all_typed else "any")
        keep = r.choice([None, None, True, True, True, False, False])      # keep_undefined: default / True / False
        addl = r.choice([None, None, True, False, False])                  # _additional_properties: unset / True / False
        sub_undeclared = r.random() < 0.3                                  # nested class does not declare key "a"
        has_attr = not (n == 0 and r.random() < 0.5)
        kw = {}
        for k in TOP_KEYS:
            if ftypes[k] == "any" and r.random() < 0.4:
                kw[k] = self.scalar()
        if r.random() < 0.3:
            kw["version"] = r.choice([1, n + 1, n + 5, 0])
        return {"ms": ms, "doc": enc(doc), "splits": list(range(0, n + 1)) + ([n + 2] if r.random() < 0.1 else []),
                "ftypes": ftypes, "hasAttr": has_attr, "kw": enc(kw), "trusted": trusted,
                "keep": keep, "addl": addl, "subUndeclared": sub_undeclared, "subTyped": all_typed}


def gen_cases(rng, tier, n):
    g = Gen(rng, tier)
    return [g.case() for _ in range(n)]


# ---------------------------------------------------------------- building the real objects

def build_mapping(wire, rec=None):
    from typedpy import Constant, Deleted, FunctionCall
    fn = rec.wrap if rec is not None else FUNCS.get
    m = {}
    for k, e in wire:
        if "const" in e:
            m[k] = Constant(dec(e["const"]))
        elif "del" in e:
            m[k] = Deleted
        elif "move" in e:
            m[k] = e["move"]
        elif "sub" in e:
            m[k] = build_mapping(e["sub"], rec)
        elif "fn" in e:
            if e.get("args") is None:
                m[k] = FunctionCall(func=fn(e["fn"]))
            else:
                m[k] = FunctionCall(func=fn(e["fn"]), args=list(e["args"]))
        else:
            raise ValueError(f"entry {e}")
    return m


def snap_mapping(m):
    """deep structural snapshot of a mapping object (order of keys included)"""
    from typedpy import Constant, Deleted, FunctionCall
    out = []
    for k, v in m.items():
        if isinstance(v, Constant):
            out.append([k, "const", json.dumps(v._val, ensure_ascii=False), id(v._val)])
        elif v is Deleted:
            out.append([k, "del"])
        elif isinstance(v, str):
            out.append([k, "move", v])
        elif isinstance(v, dict):
            out.append([k, "sub", snap_mapping(v)])
        elif isinstance(v, FunctionCall):
            a = v.args
            out.append([k, "fn", getattr(v.func, "__name__", "?"), id(v.func), None if a is None else list(a)])
        else:
            out.append([k, "other", repr(v)])
    return out


def snap_doc(d):
    return json.dumps(d, ensure_ascii=False)   # key order included


def containers(v, acc):
    """ids of all mutable containers reachable from a JSON-ish value"""
    if isinstance(v, dict):
        acc.add(id(v))
        for x in v.values():
            containers(x, acc)
    elif isinstance(v, list):
        acc.add(id(v))
        for x in v:
            containers(x, acc)
    return acc


def constant_containers(m, acc):
    from typedpy import Constant
    for v in m.values():
        if isinstance(v, Constant):
            containers(v._val, acc)
        elif isinstance(v, dict):
            constant_containers(v, acc)
    return acc


def err_name(e):
    return type(e).__name__


def outcome(f):
    try:
        r = f()
    except Exception as e:   # noqa: BLE001 — the exception class is the observation
        return None, {"err": err_name(e), "msg": str(e)[:200]}
    if not is_json(r):
        return r, {"err": "NotJson", "msg": repr(r)[:200]}
    return r, {"ok": enc(r)}


def sorted_res(res):
    """result with documents' keys sorted, for the Lean-evaluated laws"""
    if "ok" in res:
        return {"ok": enc(dec(res["ok"]), sort=True)}
    return {"err": res["err"]}


def make_classes(case, ms_objs):
    from typedpy import Anything, Array, Integer, PositiveInt, String, Structure, Versioned

    if case.get("subTyped"):
        sub_ns = {"x": Integer, "y": String, "z": Integer, "_required": []}
    else:
        sub_ns = {"x": Anything, "y": Anything, "z": Anything, "_required": []}
    if not case.get("subUndeclared"):
        # otherwise key "a" of sub-documents is an undeclared (additional) property
        sub_ns["a"] = String if case.get("subTyped") else Anything
    Sub = type("Sub", (Structure,), sub_ns)

    def field(t):
        return {"any": Anything, "int": Integer, "str": String, "sub": Sub, "subs": Array[Sub]}[t]

    ns = {k: field(t) for k, t in case["ftypes"].items() if t != "undeclared"}
    ns["_required"] = []
    if case.get("addl") is not None:
        ns["_additional_properties"] = case["addl"]
    vns = dict(ns)
    if case["hasAttr"]:
        vns["_versions_mapping"] = ms_objs
    V = type("V", (Versioned,), vns)
    pns = dict(ns)
    pns["version"] = Integer      # V forces the version in __init__ (so the twin must not demand positivity), but the
    # field must be of the same "simplicity" class as PositiveInt: direct_trusted_mapping takes the trusted path only
    # for classes whose fields are all simple, and V and its twin have to take the same path
    P = type("V", (Structure,), pns)     # same name: error messages carry the class name
    return V, P


def dump_instance(x):
    """canonical dump of a typedpy instance (class names erased)"""
    from typedpy import Structure
    if isinstance(x, Structure):
        return {"$": {k: dump_instance(v) for k, v in sorted(x.__dict__.items())
                      if not k.startswith("_")}}
    if isinstance(x, dict):
        return {str(k): dump_instance(v) for k, v in x.items()}
    if isinstance(x, (list, tuple)):
        return [dump_instance(v) for v in x]
    if x is None or type(x) in (bool, int, str, float):
        return x
    return repr(x)


def declared_fields(case):
    return [k for k, t in case["ftypes"].items() if t != "undeclared"] + ["version"]


def deser_outcome(cls, doc, case):
    from typedpy import Deserializer
    flags = {}
    if case["trusted"]:
        flags["direct_trusted_mapping"] = True
    if case.get("keep") is not None:
        flags["keep_undefined"] = case["keep"]
    try:
        inst = Deserializer(cls).deserialize(doc, **flags)
    except Exception as e:   # noqa: BLE001
        from . import construct as C
        return None, {"err": err_name(e), "errc": C.err_name(e), "msg": str(e)[:200]}
    d = dump_instance(inst)
    out = {"ok": canon(d)}
    try:
        from .. import dump
        from . import construct as C
        out["inst"] = dump.dump_value(inst, C.make_ctx())
    except Exception as e:   # noqa: BLE001
        out["inst_undumpable"] = f"{type(e).__name__}: {e}"
    if isinstance(d, dict) and "$" in d:
        out["version"] = d["$"].get("version")
        out["okNoVersion"] = canon({"$": {k: v for k, v in d["$"].items() if k != "version"}})
        fields = declared_fields(case)
        # attributes of the instance that are not fields of the class (kept undeclared keys)
        out["extras"] = canon({k: v for k, v in d["$"].items() if k not in fields})
    return inst, out


def run_impl(case):
    rec = Recorder()
    res = _run(case, rec)
    docs = [dec(case["doc"])]
    for r in [res.get("full")] + [st["s1"] for st in res.get("stages", [])]:
        if r is not None and "ok" in r:
            docs.append(dec(r["ok"]))
    close_tables(rec, case, docs)
    res["fns"] = rec.wire()
    return res


def _run(case, rec):
    from typedpy import convert_dict
    ms = [build_mapping(m, rec) for m in case["ms"]]
    doc = dec(case["doc"])
    snap_ms0 = json.dumps([snap_mapping(m) for m in ms])
    snap_doc0 = snap_doc(doc)
    res = {"mutated": [], "alias": []}

    def check_snap(site):
        if snap_doc(doc) != snap_doc0:
            res["mutated"].append(["input-document", site, snap_doc(doc)[:300]])
        if json.dumps([snap_mapping(m) for m in ms]) != snap_ms0:
            res["mutated"].append(["mapping", site, ""])

    def check_alias(result, site):
        if not isinstance(result, (dict, list)):
            return
        got = containers(result, set())
        if got & containers(doc, set()):
            res["alias"].append(["input-document", site])
        cc = set()
        for m in ms:
            constant_containers(m, cc)
        if got & cc:
            res["alias"].append(["constant-value", site])

    # --- at once
    n_raised = len(rec.raised)
    full_obj, res["full"] = outcome(lambda: convert_dict(doc, ms))
    if "ok" in res["full"] and len(rec.raised) > n_raised:
        res["swallowed"] = rec.raised[n_raised]
    check_snap("convert_dict")
    check_alias(full_obj, "convert_dict")
    res["full_is_input"] = full_obj is doc
    # --- converting the result again
    if "ok" in res["full"]:
        before = snap_doc(full_obj)
        again_obj, res["again"] = outcome(lambda: convert_dict(full_obj, ms))
        if snap_doc(full_obj) != before:
            res["mutated"].append(["input-document", "convert_dict(second pass)", ""])
        check_snap("convert_dict(second pass)")
    else:
        res["again"] = {"err": res["full"]["err"]}
    # --- two stages for every split point
    stages = []
    for k in case["splits"]:
        prefix = ms[:k]
        s1_obj, s1 = outcome(lambda: convert_dict(doc, prefix))
        check_snap(f"convert_dict(prefix {k})")
        if "ok" in s1:
            before = snap_doc(s1_obj)
            _, s2 = outcome(lambda: convert_dict(s1_obj, ms))
            if snap_doc(s1_obj) != before:
                res["mutated"].append(["input-document", f"convert_dict(stage 2 after {k})", ""])
            check_snap(f"convert_dict(stage 2 after {k})")
        else:
            s2 = {"err": s1["err"]}
        stages.append({"k": k, "s1": s1, "s2": s2})
    res["stages"] = stages
    # --- Versioned deserialization and construction
    try:
        V, P = make_classes(case, ms)
    except Exception as e:   # noqa: BLE001
        res["class_error"] = f"{err_name(e)}: {e}"
        return res
    _, res["deser_old"] = deser_outcome(V, doc, case)
    check_snap("deserialize(document)")
    if True:
        try:
            from .. import dump
            from . import construct as C
            ctx = C.make_ctx()
            res["cls"] = dump.dump_class(V, ctx)
            res["plainCls"] = dump.dump_class(P, ctx)
        except Exception as e:   # noqa: BLE001
            res["cls_undumpable"] = f"{type(e).__name__}: {e}"
    if "ok" in res["full"]:
        conv = copy.deepcopy(full_obj)
        _, res["deser_new"] = deser_outcome(V, conv, case)
        _, res["deser_plain"] = deser_outcome(P, copy.deepcopy(full_obj), case)
        check_snap("deserialize(converted)")
    kw = dec(case["kw"])
    try:
        inst = V(**kw)
        res["init"] = {"ok": inst.version}
    except Exception as e:   # noqa: BLE001
        res["init"] = {"err": err_name(e), "msg": str(e)[:200]}
    check_snap("constructor")
    return res


# ---------------------------------------------------------------- harness plumbing

def line(case, impl):
    l = {"suite": "convert", "doc": case["doc"], "ms": case["ms"], "splits": case["splits"],
         "hasAttr": case["hasAttr"], "kw": case["kw"], "fields": declared_fields(case), "keep": case.get("keep"),
         "addl": True if case.get("addl") is None else case["addl"], "fns": impl.get("fns", {})}
    if "cls" in impl:
        l["cls"] = impl["cls"]
        l["plainCls"] = impl["plainCls"]
        l["trusted"] = bool(case["trusted"])
    if "full" in impl:
        l["impl"] = {"full": sorted_res(impl["full"]), "again": sorted_res(impl["again"]),
                     "stages": [{"s1": sorted_res(s["s1"]), "s2": sorted_res(s["s2"])} for s in impl["stages"]]}
    return l


def start_kind(case):
    doc = dec(case["doc"])
    n = len(case["ms"])
    if "version" not in doc:
        return "versionless"
    v = doc["version"]
    if type(v) is not int:
        return "non-int"
    if v < 1:
        return "nonpositive"
    if v > n + 1:
        return "beyond-latest"
    if v == n + 1:
        return "latest"
    return "older"


def entry_kinds(ms, acc=None, depth=0):
    acc = acc if acc is not None else {}
    for m in ms:
        for k, e in m:
            kind = next(iter(e))
            if kind == "sub":
                acc["sub"] = max(acc.get("sub", 0), depth + 1)
                entry_kinds([e["sub"]], acc, depth + 1)
            else:
                acc[kind] = 1
    return acc


def tags(case, impl, model):
    t = [f"mappings={len(case['ms'])}", f"start={start_kind(case)}"]
    if "full" in impl:
        t.append("outcome=" + ("ok" if "ok" in impl["full"] else impl["full"]["err"]))
    ek = entry_kinds(case["ms"])
    for k in sorted(ek):
        t.append(f"entry={k}" + (f"(depth {ek[k]})" if k == "sub" else ""))
    if model and "out" in model:
        t.append("history=" + ("well-formed" if model["out"].get("wf") else "writes-version"))
    if "deser_old" in impl:
        t.append("deserialize=" + ("ok" if "ok" in impl["deser_old"] else impl["deser_old"]["err"]))
        if impl["deser_old"].get("extras", "{}") != "{}":
            t.append("deserialize=keeps-undeclared-keys")
    t.append(f"keep_undefined={case.get('keep')}")
    t.append(f"additional_properties={case.get('addl')}")
    und = [k for k, ft in case["ftypes"].items() if ft == "undeclared"]
    t.append("undeclared_keys=" + ("0" if not und else "1+"))
    if und and any(k.split(SUFFIX)[0] in und for m in case["ms"] for k, _ in m):
        t.append("history-touches-undeclared-key")
    return t


def nontrivial(case):
    return any(len(m) > 0 for m in case["ms"])


def describe(case, impl, model):
    return {"history": case["ms"], "document": case["doc"], "splits": case["splits"],
            "real_result": impl.get("full"), "model_result": (model or {}).get("full"),
            "deserialize": impl.get("deser_old")}


def res_key(r):
    """comparable form of a result: canonical document text or exception class"""
    if r is None:
        return None
    if "ok" in r:
        return "ok:" + canon(dec(r["ok"]))
    return "err:" + r["err"]


def correspondence(case, impl, model):
    """model vs real code; returns a message or None"""
    if "class_error" in impl:
        return "harness could not build the Versioned class: " + impl["class_error"]
    if res_key(impl["full"]) != res_key(model["full"]):
        return f"convert_dict: real {json.dumps(impl['full'])[:300]} model {json.dumps(model['full'])[:300]}"
    if res_key(impl["again"]) != res_key(model["again"]):
        return f"second conversion: real {json.dumps(impl['again'])[:300]} model {json.dumps(model['again'])[:300]}"
    for si, sm in zip(impl["stages"], model["stages"]):
        for part in ("s1", "s2"):
            if res_key(si[part]) != res_key(sm[part]):
                return (f"split k={si['k']} {part}: real {json.dumps(si[part])[:300]} "
                        f"model {json.dumps(sm[part])[:300]}")
    # Versioned prologue: the model says what `input_dict` the rest of deserialization sees
    d_old = impl.get("deser_old")
    m_in = model["deserIn"]
    if d_old is not None:
        if "err" in m_in:
            if "err" not in d_old or d_old["err"] != m_in["err"]:
                return f"deserialize: model prologue raises {m_in['err']}, real {json.dumps(d_old)[:300]}"
        elif "deser_plain" in impl and type(dec(case["doc"]).get("version")) is int:
            # model input_dict == real converted document (checked above), so the non-Versioned twin on the
            # converted document is `rest(input_dict)`
            # (`Versioned.__init__` then forces `version`, so that attribute is compared separately)
            if not same_deser(d_old, impl["deser_plain"], ignore_version=True):
                return (f"deserialize: Versioned class on the document {json.dumps(d_old)[:300]} differs from the "
                        f"plain twin class on the converted document {json.dumps(impl['deser_plain'])[:300]}")
    # undeclared keys kept on the instance: the model takes them from the converted document (non-trusted path)
    m_ex = model.get("deserExtras")
    if d_old is not None and "ok" in d_old and "extras" in d_old and m_ex is not None and not case["trusted"]:
        if "ok" not in m_ex:
            return f"deserialize: model raises {m_ex.get('err')} but the real code returned an instance"
        if canon(dec(m_ex["ok"])) != d_old["extras"]:
            return (f"deserialize(keep_undefined={case.get('keep')}, additional properties {case.get('addl')}): the "
                    f"instance keeps undeclared keys {d_old['extras'][:300]}, the model (undeclared keys of the "
                    f"converted document) says {canon(dec(m_ex['ok']))[:300]}")
    # the whole path (Sem/ConvertDeser.lean): prologue + per-field pass + undeclared keys (nested classes too) +
    # Versioned.__init__ + constructor validation, against the real instance / exception
    m_w = model.get("deserWhole")
    if m_w is not None and d_old is not None and "cls" in impl:
        r = whole_diff("Deserializer(V).deserialize(document)", m_w, d_old)
        if r:
            return r
        m_p, d_plain = model.get("deserPlainModel"), impl.get("deser_plain")
        if m_p is not None and d_plain is not None:
            r = whole_diff("Deserializer(plain latest class).deserialize(converted document)", m_p, d_plain)
            if r:
                return r
    init = impl.get("init")
    if init is not None and "ok" in init and init["ok"] != model["initVersion"]:
        return f"constructor: real version {init['ok']} model {model['initVersion']}"
    if model.get("upgradeAgrees") is False:
        return "model self-check: upgrade spec differs from convertDict"
    return None


def whole_diff(what, m, i):
    """model outcome (wire result of Sem/ConvertDeser) vs the real outcome"""
    from . import serde
    if str(m.get("err", "")).startswith("outside-model"):
        return None      # garbage documents the trusted-path model (Sem/Trusted.lean) declares outside its domain
    if "ok" in m:
        if "ok" not in i:
            return f"{what}: model returns an instance, real code raises {i.get('err')}: {i.get('msg')}"
        if "inst" not in i:
            return None
        if not serde._same(m["ok"], i["inst"]):
            return (f"{what}: instances differ: model {json.dumps(m['ok'])[:300]} real {json.dumps(i['inst'])[:300]}")
        return None
    if "ok" in i:
        return f"{what}: model raises {m['err']} ({m.get('stage', 'remainder')}), real code returned {i['ok'][:200]}"
    want = i.get("err") if m.get("stage") == "prologue" else i.get("errc", i.get("err"))
    if m["err"] != want:
        return f"{what}: exception class differs: model {m['err']} ({m.get('stage', 'remainder')}), real {i.get('err')}: {i.get('msg')}"
    return None


def same_deser(a, b, ignore_version=False):
    if "ok" in a and "ok" in b:
        if ignore_version:
            return a.get("okNoVersion") == b.get("okNoVersion")
        return a["ok"] == b["ok"]
    if "err" in a and "err" in b:
        return a["err"] == b["err"] and a.get("msg") == b.get("msg")
    return False
